import ProductMD.Proofs.C08Images
import ProductMD.Proofs.C08CI
import ProductMD.Proofs.C08Ini
import ProductMD.Proofs.C08TreeInfo
import ProductMD.Proofs.C08CIRepeat
import ProductMD.Proofs.C08Manifests
import ProductMD.Proofs.C08HistoryBuilders
import ProductMD.Properties.C12
import ProductMD.Model.DiscInfo
import ProductMD.Model.ManifestIO
/-!
# C08 - serialisation is canonical: the bytes written depend on the content only

Python's unordered containers (dicts, sets) are lists in the model, in insertion / iteration order.  "The same content"
is stated per format as a relation `≈` that allows EVERY rearrangement of every unordered container (and nothing else);
the theorems say `x ≈ y → dumps x = ok b → dumps y = ok b`.  Quantifying over all rearrangements covers every
construction order, every dict/set iteration order, hence every `PYTHONHASHSEED`.  (Which exception a dump that FAILS
raises can depend on the order - the first offending element wins - so the statements are about the bytes of successful
dumps; `isOk` is order-independent as well.)

Full statement (properties.jsonl C08): for all valid contents of each format, all permutations of the construction order of
their unordered parts, all hash seeds, any number of repeated dumps: same bytes; JSON keys sorted, 4-space indentation;
treeinfo sections and options sorted; caller-ordered lists keep their order.
-/
namespace PM
open PyVal

/-! ## the generic JSON layer -/

/-- every JSON format: documents that are the same content (`JEq`: equal up to the order of dict entries at every level,
lists in the same order) are written as the same bytes -/
theorem C08_json_canonical (a b : PyVal) (h : JEq a b) : JsonText.dumps a = JsonText.dumps b := h.dumps_eq

/-- in particular any permutation of the entries of the top-level dict (distinct keys) -/
theorem C08_json_perm (l l' : List (Str × PyVal)) (hp : l.Perm l') (hd : (l.map (·.1)).Nodup) :
    JsonText.dumps (.dict l) = JsonText.dumps (.dict l') := (JEq.dict_of_perm hp hd).dumps_eq

example : JsonText.dumps (.dict [("b".toList, .int 1), ("a".toList, .dict [("y".toList, .none), ("x".toList, .list [.int 2, .int 1])])])
    = JsonText.dumps (.dict [("a".toList, .dict [("x".toList, .list [.int 2, .int 1]), ("y".toList, .none)]), ("b".toList, .int 1)]) := by
  decide

/-! ## images -/
namespace Img
open PM.PyOps PM.Spec

/-- the document as a function of the table of written images -/
def docOf (comp : PyVal) (out : OutCells) : PyVal :=
  .dict [(L "header", PyVal.dict [(L "type", .str Gen.HEADER_TYPE_Images), (L "version", .str currentVersion)]),
         (L "payload", .dict [(L "images", out.toPy), (L "compose", comp)])]

theorem serialize_snd (s : ImgState) : (serialize s).2 =
    (headerValidate (.str currentVersion)).bind fun _ => s.compose.serialize.bind fun comp =>
      (serializeCells s.cells []).bind fun out => .ok (docOf comp out) := rfl

/-- `dump` after `serialize`: the encoder's refusal of foreign objects, then the text -/
def finish (r : Except Err PyVal) : Except Err Str :=
  match validateClass "images.Images" [] with
  | .error e => .error e
  | .ok () => match r with
    | .ok doc => if jsonSafe doc then .ok (JsonText.dumps doc) else .error .typeError
    | .error e => .error e

theorem dumps_snd (s : ImgState) : (dumps s).2 = finish (serialize s).2 := by
  unfold dumps finish
  cases validateClass "images.Images" [] with
  | error e => rfl
  | ok u =>
    cases u
    rcases h : serialize s with ⟨s', r⟩
    cases r <;> rfl

/-- the same manifest content: equal compose section, and the same filings `(variant, arch, image content)` up to
rearrangement - this allows any order of the variant dict, of every arch dict, of every image set, and any order of the
entries of dict-valued image attributes (`checksums`).  `header.version` is NOT content: the writer overwrites it. -/
structure Same (x y : ImgState) : Prop where
  compose : x.compose = y.compose
  filings : PermR FSame (triples x.cells) (triples y.cells)

theorem Same.refl (x : ImgState) : Same x x := ⟨rfl, PermR.refl FSame.refl _⟩

/-- rearranging the variant dict, every arch dict and every image set (lists of the model) gives the same content -/
theorem Same.of_perm_variants (x : ImgState) (cells' : Cells) (h : x.cells.Perm cells') : Same x { x with cells := cells' } := by
  refine ⟨rfl, PermR.of_perm FSame.refl ?_⟩
  simp only [triples_eq]
  exact h.flatMap_right _

theorem docOf_jeq (comp : PyVal) {o o' : OutCells} (h : JEq o.toPy o'.toPy) : JEq (docOf comp o) (docOf comp o') := by
  unfold docOf
  refine .dict (.cons _ (.refl _) (.cons _ (.dict (.cons _ h (.cons _ (.refl _) .nil)) ?_) .nil)) ?_
  · simp only [List.map_cons, List.map_nil]; decide
  · simp only [List.map_cons, List.map_nil]; decide

end Img
open Img PM.PyOps PM.Spec in
/-- **C08 (images).**  Two manifests with the same content are written as the same bytes, whatever the order in which
variants, arches and images were added, provided no two images of one cell share a path (the per-cell sort is by path
only; see `C08_images_equal_paths_witness` for what happens otherwise).
Stronger than the `ok b → ok b` form: as soon as the writer accepts every image of `x`, the complete results agree. -/
theorem C08_perm_images (x y : Img.ImgState) (h : Img.Same x y) (hd : DistinctPaths (triples x.cells))
    (o : OutCells) (hx : serializeCells x.cells [] = .ok o) : (dumps y).2 = (dumps x).2 := by
  have vx := serializeCells_ok_valid _ _ _ hx
  have vtx := triples_valid vx
  have vty : ∀ t ∈ triples y.cells, t.2.2.validate = .ok () := by
    intro t ht
    obtain ⟨t0, ht0, hs⟩ := h.filings.mem_right t ht
    rw [← hs.2.2.validate_eq]
    exact vtx t0 ht0
  have vy := valid_of_triples vty
  rw [dumps_snd, dumps_snd, serialize_snd, serialize_snd, serializeCells_eq _ _ vx, serializeCells_eq _ _ vy, h.compose]
  cases headerValidate (.str currentVersion) with
  | error e => rfl
  | ok u =>
    cases hc : y.compose.serialize with
    | error e => rfl
    | ok comp =>
      simp only [Except.bind, finish]
      have hj := docOf_jeq comp (outFold_jeq h.filings hd)
      rw [jsonSafe_jeq hj, hj.dumps_eq]

open Img PM.PyOps PM.Spec in
/-- the form of the property statement: the same bytes -/
theorem C08_perm_images_bytes (x y : Img.ImgState) (h : Img.Same x y) (hd : DistinctPaths (triples x.cells)) (b : Str)
    (hx : (dumps x).2 = .ok b) : (dumps y).2 = .ok b := by
  cases hs : serializeCells x.cells [] with
  | ok o => rw [C08_perm_images x y h hd o hs]; exact hx
  | error e =>
    exfalso
    rw [dumps_snd, serialize_snd, hs] at hx
    unfold finish at hx
    revert hx
    generalize validateClass "images.Images" [] = r1
    generalize headerValidate (.str currentVersion) = r2
    generalize x.compose.serialize = r3
    intro hx
    cases r1 with
    | error e => simp at hx
    | ok u =>
      cases u
      cases r2 with
      | error e => simp [Except.bind] at hx
      | ok u =>
        cases r3 with
        | error e => simp [Except.bind] at hx
        | ok c => simp [Except.bind] at hx

open Img PM.PyOps PM.Spec in
/-- **C08 repeat (images).**  `dumps` changes the object (`header.version` becomes the current version) but not what the
next `dumps` writes. -/
theorem C08_repeat_images (s : Img.ImgState) : (dumps (dumps s).1).2 = (dumps s).2 := by
  have h1 : (dumps s).1.compose = s.compose ∧ (dumps s).1.cells = s.cells := by
    unfold dumps
    cases validateClass "images.Images" [] with
    | error e => exact ⟨rfl, rfl⟩
    | ok u =>
      cases u
      rcases h : serialize s with ⟨s', r⟩
      have : s' = { s with version := .str currentVersion } := by
        have := congrArg Prod.fst h
        simpa [serialize] using this.symm
      subst this
      cases r <;> exact ⟨rfl, rfl⟩
  rw [dumps_snd, dumps_snd, serialize_snd, serialize_snd, h1.1, h1.2]

open Img PM.PyOps PM.Spec in
/-- what the object is afterwards: only the header version moved -/
theorem C08_repeat_images_state (s : Img.ImgState) :
    (dumps s).1 = s ∨ (dumps s).1 = { s with version := .str currentVersion } := by
  unfold dumps
  cases validateClass "images.Images" [] with
  | error e => exact .inl rfl
  | ok u =>
    cases u
    rcases h : serialize s with ⟨s', r⟩
    have : s' = { s with version := .str currentVersion } := by
      have := congrArg Prod.fst h
      simpa [serialize] using this.symm
    subst this
    cases r <;> exact .inr rfl

/-! ### non-vacuity, and the tie the quantifier excludes -/
namespace Img
open PM.PyOps PM.Spec

def wImg (path : String) (n : Int) : Image :=
  { path := .str (L path), mtime := .int 1, size := .int 1, volume_id := .none, type := .str (L "dvd"),
    format := .str (L "iso"), arch := .str (L "x86_64"), disc_number := .int n, disc_count := .int 2,
    checksums := .dict [(L "md5", .str (L "d41d8cd98f00b204e9800998ecf8427e"))], implant_md5 := .none, bootable := .bool false,
    subvariant := .str (L "S"), unified := .bool false, additional_variants := .list [] }
def wCompose : Compose :=
  { id := .str (L "F-22-20150101.0"), type := .str (L "production"), date := .str (L "20150101"), respin := .int 0 }
/-- two images with different paths, filed in the two possible orders -/
def wA : ImgState := { compose := wCompose, cells := [(L "S", [(L "x86_64", [(0, wImg "S/x86_64/iso/b.iso" 1), (1, wImg "S/x86_64/iso/a.iso" 2)])])] }
def wB : ImgState := { compose := wCompose, cells := [(L "S", [(L "x86_64", [(1, wImg "S/x86_64/iso/a.iso" 2), (0, wImg "S/x86_64/iso/b.iso" 1)])])] }
/-- two images with the SAME path (their identity differs in `disc_number`, so `Images.add` accepts both) -/
def wX : ImgState := { compose := wCompose, cells := [(L "S", [(L "x86_64", [(0, wImg "S/x86_64/iso/same.iso" 1), (1, wImg "S/x86_64/iso/same.iso" 2)])])] }
def wY : ImgState := { compose := wCompose, cells := [(L "S", [(L "x86_64", [(1, wImg "S/x86_64/iso/same.iso" 2), (0, wImg "S/x86_64/iso/same.iso" 1)])])] }

theorem wAB_same : Same wA wB := ⟨rfl, PermR.of_perm FSame.refl (List.Perm.swap _ _ _)⟩
theorem wXY_same : Same wX wY := ⟨rfl, PermR.of_perm FSame.refl (List.Perm.swap _ _ _)⟩
theorem wA_distinct : DistinctPaths (triples wA.cells) := by
  intro v a
  by_cases h : v = L "S" ∧ a = L "x86_64"
  · obtain ⟨rfl, rfl⟩ := h; decide +kernel
  · have : cellFilings (triples wA.cells) v a = [] := by
      simp only [cellFilings, List.filter_eq_nil_iff]
      intro t ht
      have ht' : t.1 = L "S" ∧ t.2.1 = L "x86_64" := by
        simp only [triples, entries, wA, List.flatMap_cons, List.flatMap_nil, List.map_cons, List.map_nil, List.append_nil,
          List.mem_cons, List.not_mem_nil, or_false] at ht
        rcases ht with rfl | rfl <;> exact ⟨rfl, rfl⟩
      rw [ht'.1, ht'.2]
      simp only [Bool.and_eq_true, beq_iff_eq, not_and]
      intro e1 e2
      exact h ⟨e1.symm, e2.symm⟩
    rw [this]; exact List.nodup_nil
end Img

/-- the hypotheses of `C08_perm_images` are satisfiable by a genuine rearrangement, and the dump succeeds -/
example : ∃ o, Img.serializeCells Img.wA.cells [] = .ok o ∧ (Img.dumps Img.wB).2 = (Img.dumps Img.wA).2 := by
  cases h : Img.serializeCells Img.wA.cells [] with
  | ok o => exact ⟨o, rfl, C08_perm_images Img.wA Img.wB Img.wAB_same Img.wA_distinct o h⟩
  | error e =>
    have : (match Img.serializeCells Img.wA.cells [] with | .ok _ => true | .error _ => false) = true := by decide +kernel
    rw [h] at this; cases this

/-- **Equal paths in one cell (outside the quantifier): the bytes DO depend on the order.**  The per-cell sort is by path
only and stable, so two images of one cell with the same path come out in the set's iteration order - in CPython the order of
the objects' addresses.  `wX` and `wY` are the same content (`Same`), both are written, the texts differ. -/
theorem C08_images_equal_paths_witness :
    Img.Same Img.wX Img.wY ∧
    (match (Img.dumps Img.wX).2, (Img.dumps Img.wY).2 with | .ok a, .ok b => a != b | _, _ => false) = true :=
  ⟨Img.wXY_same, by decide +kernel⟩

/-! ## composeinfo -/
namespace CI

/-- the same compose description: sections equal, variant forests equal up to the order of every child dict (at every
level), of every arch set and of every path table (`VEq`/`LEq`, `Proofs/C08CI.lean`) -/
structure Same (x y : ComposeInfo) : Prop where
  compose : x.compose = y.compose
  release : x.release = y.release
  base : x.base = y.base
  variants : LEq x.variants y.variants

theorem Same.refl (x : ComposeInfo) : Same x x := ⟨rfl, rfl, rfl, LEq.refl _⟩

/-- model domain: the children of a container are a Python dict, so their keys are pairwise distinct (at every level) -/
def DictKeysTop (x : ComposeInfo) : Prop := (x.variants.map Variant.key).Nodup ∧ DictKeysL x.variants

/-- any rearrangement of the top-level variants is the same content -/
theorem Same.of_perm (x : ComposeInfo) (vs : List Variant) (h : x.variants.Perm vs) : Same x { x with variants := vs } :=
  ⟨rfl, rfl, rfl, LEq.of_perm h⟩

theorem serialize_of_variants (x y : ComposeInfo) (h : Same x y) (d : Flat) (hx : variantsSer x.variants = .ok d)
    (hy : variantsSer y.variants = .ok d) : serialize y = serialize x := by
  unfold serialize
  rw [← h.compose, ← h.release, ← h.base, hx, hy]

end CI
open CI in
/-- **C08 (composeinfo).**  The same content is written as the same bytes, whatever the order in which variants (at any
level), arches and paths were added. -/
theorem C08_perm_composeinfo (x y : CI.ComposeInfo) (h : CI.Same x y) (hk : CI.DictKeysTop x) (b : Str)
    (hx : dumps x = .ok b) : dumps y = .ok b := by
  cases hv : variantsSer x.variants with
  | ok d =>
    have hy := variantsSer_leq h.variants hk.1 hk.2 d hv
    unfold dumps at hx ⊢
    rw [serialize_of_variants x y h d hv hy]
    exact hx
  | error e =>
    exfalso
    unfold dumps serialize at hx
    rw [hv] at hx
    revert hx
    generalize validateClass "composeinfo.ComposeInfo" [] = r0
    generalize validateClass "common.Header" (headerObj (.str currentVersion)) = r1
    generalize validateClass "composeinfo.Compose" (composeObj x.compose) = r2
    generalize validateClass "composeinfo.Release" (releaseObj x.release) = r3
    generalize (if x.release.isLayered then validateClass "composeinfo.BaseProduct" (baseObj x.base) else .ok ()) = r4
    intro hx
    cases r0 with
    | error e => simp at hx
    | ok u0 =>
      cases r1 with
      | error e => simp at hx
      | ok u1 =>
        cases r2 with
        | error e => simp at hx
        | ok u2 =>
          cases r3 with
          | error e => simp at hx
          | ok u3 =>
            cases r4 with
            | error e => simp at hx
            | ok u4 => simp at hx

open CI in
/-- whether a dump succeeds does not depend on the order either -/
theorem C08_perm_composeinfo_ok (x y : CI.ComposeInfo) (h : CI.Same x y) (hk : CI.DictKeysTop x) :
    isOk (dumps x) = true → isOk (dumps y) = true := by
  intro hx
  cases hd : dumps x with
  | error e => rw [hd] at hx; cases hx
  | ok b => rw [C08_perm_composeinfo x y h hk b hd]; rfl

/-! ## composeinfo: repeated dumps -/

/-- **C08 repeat (composeinfo).**  `dumps : State → State × Bytes` (`CI.dumpsSt`, `Model/ComposeInfoState.lean`: the writer
threaded through the object in the code's order, with the two mutations a dump makes - `header.version` set to the current
version, `release.is_layered = True` on every layered-product variant it reaches - also when it fails half-way).
The second dump writes what the first wrote (or raises what it raised). -/
theorem C08_repeat_composeinfo (s : CI.CIState) : (CI.dumpsSt (CI.dumpsSt s).1).2 = (CI.dumpsSt s).2 := by
  rw [CI.dumpsSt_snd, CI.dumpsSt_snd]
  obtain ⟨vs', e, ht, _⟩ := CI.dumpsSt_state s
  rw [e]
  exact CI.dumps_touched s.ci ht

/-- **C08 repeat (composeinfo), any number of dumps.**  After `n` dumps in a row on one object (`CI.c8After n s`; each of them
may have succeeded or failed half-way), the next dump writes exactly what the very first dump wrote (or raises what it raised):
by induction on `n`, the object stays `Touched` (same sections, forced `is_layered` flags only) and the writer cannot tell. -/
theorem C08_repeat_composeinfo_n (s : CI.CIState) (n : Nat) : (CI.dumpsSt (CI.c8After n s)).2 = (CI.dumpsSt s).2 :=
  CI.c8_dumpsSt_of_touched (CI.c8_after_touched n s)

/-- the stateful writer produces the text of the pure one (so every `C08_perm_composeinfo*` statement is about it too), and
the object it leaves behind differs from the original only in `header.version` (old or current) and in forced
`is_layered` flags of layered-product variants (`CI.Touched`) -/
theorem C08_repeat_composeinfo_state (s : CI.CIState) :
    (CI.dumpsSt s).2 = CI.dumps s.ci ∧
    ∃ vs', (CI.dumpsSt s).1.ci = { s.ci with variants := vs' } ∧ CI.TouchedL s.ci.variants vs' ∧
      ((CI.dumpsSt s).1.version = s.version ∨ (CI.dumpsSt s).1.version = CI.currentVersion) :=
  ⟨CI.dumpsSt_snd s, CI.dumpsSt_state s⟩

/-! ## treeinfo: the INI layer and the comma lists -/

/-- **the INI bytes are a function of the document modulo the order of sections and of the options inside a section**
(`SortedConfigParser.write` iterates `SortedDict`s).  `IniEq`: the sections are a rearrangement of each other, each with
rearranged options; names distinct as in any dict; no `[DEFAULT]` block (`add_section` refuses the name). -/
theorem C08_ini_canonical (d d' : Ini) (h : IniText.IniEq d d') (hk : IniText.DistinctKeys d) (hd : Ini.NoDefault d) :
    IniText.render d = IniText.render d' := IniText.render_eq h hk hd

example : IniText.render [("b".toList, [("y".toList, "1".toList), ("x".toList, "2".toList)]), ("a".toList, [])]
    = IniText.render [("a".toList, []), ("b".toList, [("x".toList, "2".toList), ("y".toList, "1".toList)])] := by decide

/-- every place where the treeinfo writer turns a set / dict into a comma list goes through a sort, and the sorted list
does not depend on the order of the container: `[tree] platforms` and `[general] platforms` (a set), -/
theorem C08_treeinfo_platforms (t t' : TI.Tree) (ha : t.arch = t'.arch) (hp : ∀ x, x ∈ t.platforms ↔ x ∈ t'.platforms) :
    TI.platformsStr t = TI.platformsStr t' := by
  unfold TI.platformsStr
  rw [ha, CI.sortDedup_congr (l₁ := t.platforms ++ [t'.arch]) (l₂ := t'.platforms ++ [t'.arch])]
  intro x
  simp only [List.mem_append, hp x]

/-- … `[tree] variants` and `[general] variants` (values / keys of the top-level dict), -/
theorem C08_treeinfo_variants_list (l l' : List Str) (h : l.Perm l') :
    Str.joinWith ',' (Ini.sortS l) = Str.joinWith ',' (Ini.sortS l') := by rw [Ini.c8_sortS_perm_eq h]

/-- … and a variant's `addons` (a set of child UIDs). -/
theorem C08_treeinfo_addons (kids kids' : List TI.Variant) (h : (kids.map TI.Variant.uid).Perm (kids'.map TI.Variant.uid)) :
    Str.joinWith ',' (Str.sortDedup (kids.map TI.Variant.uid)) = Str.joinWith ',' (Str.sortDedup (kids'.map TI.Variant.uid)) := by
  rw [CI.sortDedup_congr (fun x => h.mem_iff)]

/-! ## layout -/

mutual
/-- keys in ascending order in every dict, at every level -/
def KeysSorted : PyVal → Prop
  | .list xs => KeysSortedL xs
  | .dict kvs => kvs.Pairwise KLe ∧ KeysSortedD kvs
  | _ => True
def KeysSortedL : List PyVal → Prop
  | [] => True
  | x :: xs => KeysSorted x ∧ KeysSortedL xs
def KeysSortedD : List (Str × PyVal) → Prop
  | [] => True
  | (_, v) :: rest => KeysSorted v ∧ KeysSortedD rest
end

theorem keysSortedD_iff : ∀ l : List (Str × PyVal), KeysSortedD l ↔ ∀ kv ∈ l, KeysSorted kv.2
  | [] => by simp [KeysSortedD]
  | (k, v) :: rest => by simp [KeysSortedD, keysSortedD_iff rest]

mutual
theorem canon_keysSorted : ∀ v : PyVal, KeysSorted (canon v)
  | .list xs => by simp only [canon, KeysSorted]; exact canonList_keysSorted xs
  | .dict kvs => by
    simp only [canon, KeysSorted]
    refine ⟨sortKvs_sorted _, (keysSortedD_iff _).mpr ?_⟩
    intro kv hkv
    exact (keysSortedD_iff _).mp (canonKvs_keysSorted kvs) kv ((sortKvs_perm _).mem_iff.mp hkv)
  | .none | .bool _ | .int _ | .float _ | .str _ | .other _ => by simp [canon, KeysSorted]
theorem canonList_keysSorted : ∀ l : List PyVal, KeysSortedL (canonList l)
  | [] => trivial
  | x :: xs => ⟨canon_keysSorted x, canonList_keysSorted xs⟩
theorem canonKvs_keysSorted : ∀ l : List (Str × PyVal), KeysSortedD (canonKvs l)
  | [] => trivial
  | (_, v) :: rest => ⟨canon_keysSorted v, canonKvs_keysSorted rest⟩
end

/-- **C08 layout (JSON).**  What is written is the rendering of a value whose dict keys are in ascending order at every
level; indentation is four blanks per nesting level; every further entry of a dict / list at level `n` starts on its own
line after `4 * n` blanks, `key: value` with one blank.  (The opening line of a container is the first two equations of
`JsonText.render`; see the example below for a complete text.) -/
theorem C08_layout_json (v : PyVal) :
    JsonText.dumps v = JsonText.render 0 (canon v) ∧ KeysSorted (canon v) ∧
    (∀ n, JsonText.indentStr n = List.replicate (4 * n) ' ') ∧
    (∀ n k x rest, JsonText.renderKvs n ((k, x) :: rest) =
        ',' :: '\n' :: JsonText.indentStr n ++ JsonText.quote k ++ ':' :: ' ' :: JsonText.render n x ++ JsonText.renderKvs n rest) ∧
    (∀ n x xs, JsonText.renderItems n (x :: xs) =
        ',' :: '\n' :: JsonText.indentStr n ++ JsonText.render n x ++ JsonText.renderItems n xs) :=
  ⟨rfl, canon_keysSorted v, fun _ => rfl, fun _ _ _ _ => by simp only [JsonText.renderKvs],
   fun _ _ _ => by simp only [JsonText.renderItems]⟩

example : JsonText.dumps (.dict [("b".toList, .list [.int 1, .dict [("z".toList, .none), ("y".toList, .bool true)]]), ("a".toList, .dict [])])
    = "{\n    \"a\": {},\n    \"b\": [\n        1,\n        {\n            \"y\": true,\n            \"z\": null\n        }\n    ]\n}".toList := by
  decide

/-- **C08 layout (treeinfo).**  Sections in ascending order of their names, inside a section the options in ascending order
of their names, one `key = value` line each, a blank line after every section. -/
theorem C08_layout_ini (d : Ini) (hd : Ini.NoDefault d) :
    IniText.render d = (Ini.sortKV (d.filter (·.1 != Ini.DEFAULT))).flatMap IniText.renderSec ∧
    Ini.KSorted (·.1) (Ini.sortKV (d.filter (·.1 != Ini.DEFAULT))) ∧
    (∀ s : Str × IniSec, IniText.renderSec s = '[' :: s.1 ++ ']' :: '\n' :: (Ini.sortKV s.2).flatMap IniText.renderOpt ++ ['\n'] ∧
        Ini.KSorted (·.1) (Ini.sortKV s.2)) ∧
    (∀ kv : Str × Str, IniText.renderOpt kv = kv.1 ++ ' ' :: '=' :: ' ' :: IniText.escNl kv.2 ++ ['\n']) := by
  refine ⟨?_, Ini.c8_sortBy_sorted _ _, fun s => ⟨rfl, Ini.c8_sortBy_sorted _ _⟩, fun _ => rfl⟩
  unfold IniText.render
  unfold Ini.NoDefault at hd
  rw [hd]
  rfl

/-! ## caller-ordered lists are content -/

/-- **C08 order kept (JSON).**  A list is written element by element in the given order: canonicalisation maps over it
without rearranging, and the rendering of a concatenation is the concatenation of the renderings. -/
theorem C08_order_kept_json (xs ys : List PyVal) (n : Nat) :
    canon (.list xs) = .list (xs.map canon) ∧
    JsonText.renderItems n (xs ++ ys) = JsonText.renderItems n xs ++ JsonText.renderItems n ys := by
  refine ⟨by simp [canon, canonList_eq_map], ?_⟩
  induction xs with
  | nil => rfl
  | cons x xs ih => simp [JsonText.renderItems, ih]

/-- … so two orders of the same elements are different bytes (witness) -/
theorem C08_order_kept_json_witness :
    JsonText.dumps (.list [.str "Client".toList, .str "Server".toList]) ≠ JsonText.dumps (.list [.str "Server".toList, .str "Client".toList]) := by
  decide

open Img in
/-- **C08 order kept (images).**  `additional_variants` of a unified image is written verbatim (whatever list the caller
gave, in the caller's order). -/
theorem C08_order_kept_images (i : Img.Image) (h : i.unified.truthy = true) :
    i.dict.get? (L "additional_variants") = some i.additional_variants := by
  unfold Image.dict
  rw [h]
  rfl

/-- **C08 order kept (discinfo).**  The disc numbers are written in the caller's order. -/
theorem C08_order_kept_discinfo (x : DI.DiscInfo) (ns : List Int) (hx : x.discs = .nums ns) (lines : List Str)
    (h : DI.serialize x = .ok lines) : lines[3]? = some (Str.joinWith ',' (ns.map Str.intStr)) := by
  unfold DI.serialize at h
  cases hv : validateClass "discinfo.DiscInfo" (DI.obj x) with
  | error e => simp [hv, bind, Except.bind] at h
  | ok u =>
    simp only [hv, bind, Except.bind, pure, Except.pure, hx] at h
    injection h with h
    subst h
    rfl

theorem C08_order_kept_discinfo_witness :
    DI.buildFile ["1.0".toList, "d".toList, "a".toList, Str.joinWith ',' ([1, 2].map Str.intStr)]
      ≠ DI.buildFile ["1.0".toList, "d".toList, "a".toList, Str.joinWith ',' ([2, 1].map Str.intStr)] := by decide

/-! ## rpms / modules / extra_files: the payload is written verbatim -/

/-- **C08 (rpms, modules, extra_files).**  The mapping the `add` calls built is stored and written verbatim, so the bytes
are a function of that mapping modulo the order of the entries of its dicts at every level (variant, arch, srpm / module /
… tables, checksum dicts); its lists (extra-file entries, a module's rpm list) are content.  [Which mapping a given
HISTORY of `add` calls builds is C12's model; that two histories differing in the order of their calls build `JEq`
mappings - hence the same bytes - is `C08_perm_history_rpms` / `_modules` / `_extra_files` / `_bytes` below.] -/
theorem C08_perm_manifests (k : Mf.Kind) (m m' : Mf.Manifest) (hc : m.compose = m'.compose) (hp : JEq m.payload m'.payload) :
    (Mf.dumps k m).2 = (Mf.dumps k m').2 := by
  cases k <;> simp only [Mf.dumps, Mf.dumpDoc, Mf.serialize, Mf.Kind.className, ← hc]
  all_goals
    generalize validateClass _ [] = r0
    cases r0 with
    | error e => rfl
    | ok u =>
      cases u
      simp only []
      generalize Mf.headerSerialize _ = r1
      cases r1 with
      | error e => rfl
      | ok hdr =>
        simp only []
        generalize Mf.composeSerialize _ = r2
        cases r2 with
        | error e => rfl
        | ok c =>
          simp only [Except.map]
          congr 1
          apply JEq.dumps_eq
          refine .dict (.cons _ (.refl _) (.cons _ ?_ .nil)) (by simp only [List.map_cons, List.map_nil]; decide)
          first
            | exact .dict (.cons _ hp (.cons _ (.refl _) .nil)) (by simp only [List.map_cons, List.map_nil]; decide)
            | exact .dict (.cons _ (.refl _) (.cons _ hp .nil)) (by simp only [List.map_cons, List.map_nil]; decide)

/-- **C08 (manifest builders): two state updates at different addresses commute.**  Every `add` of the three builders is
`setPathS leaf path state` after checks that do not touch the state (`Rpms.add_eq`, `Modules.add_eq`, `ExtraFiles.add_eq`); for
ANY two leaf updates and any two different paths of the same length the two orders give the same mapping up to the order of dict
entries.  (The two-call case; whole histories: `C08_perm_history_*` below.) -/
theorem C08_manifests_updates_commute (f1 f2 : PyVal → PyVal × Mf.Out) (p1 p2 : List Str) (hl : p1.length = p2.length)
    (hne : p1 ≠ p2) (s : PyVal) (hs : Mf.NodupAll s) :
    JEq (Mf.setPathS f2 p2 (Mf.setPathS f1 p1 s).1).1 (Mf.setPathS f1 p1 (Mf.setPathS f2 p2 s).1).1 :=
  Mf.setPathS_comm f1 f2 p1 p2 hl hne s hs

/-- `Rpms.add` for two accepted calls that file under different `[variant][arch][srpm]` tables: either order, the same
mapping up to dict order -/
theorem C08_rpms_adds_commute (s : PyVal) (hs : Mf.NodupAll s) (a b : Mf.RpmsArgs) (pa pb : Mf.RpmsPlan)
    (ha : Mf.rpmsCheck a = .ok pa) (hb : Mf.rpmsCheck b = .ok pb)
    (hne : [a.variant, a.arch, pa.srpmKey] ≠ [b.variant, b.arch, pb.srpmKey]) :
    JEq (Mf.Rpms.add (Mf.Rpms.add s a).1 b).1 (Mf.Rpms.add (Mf.Rpms.add s b).1 a).1 := by
  simp only [Mf.Rpms.add_eq, ha, hb]
  exact Mf.setPathS_comm _ _ [a.variant, a.arch, pa.srpmKey] [b.variant, b.arch, pb.srpmKey] (by simp) hne s hs

/-- `Modules.add` for two accepted calls with different `[variant][arch][uid]` (calls that hit the same module concatenate
its caller-ordered rpm list: their relative order is content) -/
theorem C08_modules_adds_commute (s : PyVal) (hs : Mf.NodupAll s) (a b : Mf.ModulesArgs) (pa pb : Mf.ModulesPlan)
    (ha : Mf.modulesCheck a = .ok pa) (hb : Mf.modulesCheck b = .ok pb)
    (hne : [a.variant, a.arch, pa.uid] ≠ [b.variant, b.arch, pb.uid]) :
    JEq (Mf.Modules.add (Mf.Modules.add s a).1 b).1 (Mf.Modules.add (Mf.Modules.add s b).1 a).1 := by
  simp only [Mf.Modules.add_eq, ha, hb]
  exact Mf.setPathS_comm _ _ [a.variant, a.arch, pa.uid] [b.variant, b.arch, pb.uid] (by simp) hne s hs

/-- **C08 repeat (rpms, modules, extra_files).**  A dump sets `header.version` and nothing else that the next dump reads. -/
theorem C08_repeat_manifests (k : Mf.Kind) (m : Mf.Manifest) : (Mf.dumps k (Mf.dumps k m).1).2 = (Mf.dumps k m).2 := by
  have h : (Mf.dumps k m).1.compose = m.compose ∧ (Mf.dumps k m).1.payload = m.payload := by
    unfold Mf.dumps Mf.dumpDoc
    cases validateClass k.className [] with
    | error e => exact ⟨rfl, rfl⟩
    | ok u => cases u; exact ⟨rfl, rfl⟩
  exact C08_perm_manifests k _ _ h.1 (h.2 ▸ JEq.refl _)

/-! ## rpms / modules / extra_files: whole HISTORIES of `add` calls

Full statement: for every start mapping (a fresh `{}` or anything loaded; keys of every dict distinct, `Mf.NodupAll` - the model
domain: they are Python dicts), every history `h` of `add` calls of any length (accepted and refused ones mixed) and every
rearrangement `h'` of it in which the calls writing the same ORDER-SENSITIVE cell keep their relative order (`SameOrder slot`:
`h'` is a permutation of `h`, and for each cell the sub-history of the calls writing it is the same list), running the C12
model of `add` over `h` and over `h'` gives `JEq` mappings - equal up to the order of dict entries at every level, hence
the same bytes - and every call has the same outcome in both runs.

The order-sensitive cells (what is caller-ordered CONTENT): rpms - the slot `[variant][arch][srpm][nevra]` (two writes of one
slot: the later wins); modules - the entry `[variant][arch][uid]` (a repeated add extends the module's rpm list and rewrites
`metadata` / `modulemd_path[category]`); extra_files - the entry list `[variant][arch]`.  Everything else is unordered: variants,
arches, source packages, packages of one source package, modules, and calls that the precondition checks refuse (they write
nothing whatever the mapping; they may stand anywhere).

Route (`Proofs/C08History.lean`, `Proofs/C08HistoryBuilders.lean`): `SameOrder slot h h'` is exactly "reachable by swapping
adjacent independent calls" (`C08_history_order_iff_swaps`); two adjacent independent calls commute up to `JEq` with unchanged
outcomes (different addresses: `setPathS_comm`, `setPathS_out_other`; one address, commuting leaf updates: `setPathS_comm_same`
with `rpmsLeaf_comm` / `extraLeaf_comm`); every `add` respects `JEq` (`setPathS_jeq`, `*Leaf_jeq`) and keeps `NodupAll`; `JEq` is
transitive. -/

/-- the quantifier of the history theorems, in its two forms: "the calls of every cell keep their relative order" is the same as
"reachable by a sequence of swaps of two adjacent calls that do not write the same cell" -/
theorem C08_history_order_iff_swaps {α γ : Type} [DecidableEq γ] (cell : α → Option γ) (h h' : List α) :
    SameOrder cell h h' ↔ SwapEq (CellIndep cell) h h' :=
  ⟨SwapEq.of_sameOrder cell h h', SwapEq.sameOrder cell⟩

/-- it contains every permutation of calls that pairwise write different cells (or nothing) -/
theorem C08_history_order_of_perm {α γ : Type} [DecidableEq γ] (cell : α → Option γ) (h h' : List α) (hp : h.Perm h')
    (hi : ∀ a ∈ h, ∀ b ∈ h, CellIndep cell a b) : SameOrder cell h h' :=
  SwapEq.sameOrder cell (SwapEq.of_perm_pairwise_indep hp hi)

/-- **C08 (rpms, histories).**  Rearranging a history of `Rpms.add` calls - any order of variants, arches, source packages and
packages; two writes of one slot `[variant][arch][srpm][nevra]` in their order; refused calls anywhere - builds the same mapping up
to dict order, and the calls with their outcomes are such a rearrangement of each other (same outcome for every call). -/
theorem C08_perm_history_rpms (s : PyVal) (hs : Mf.NodupAll s) (h h' : List Mf.RpmsArgs) (ho : SameOrder Mf.rpmsSlot h h') :
    JEq (Mf.runRpms s h) (Mf.runRpms s h') ∧
    SameOrder (fun x : Mf.RpmsArgs × Mf.Out => Mf.rpmsSlot x.1) (Hist.trace Mf.Rpms.add s h) (Hist.trace Mf.Rpms.add s h') :=
  Hist.perm_history Mf.rpms_commutes ho s hs

/-- **C08 (modules, histories).**  The same for `Modules.add`; the calls for one module `[variant][arch][uid]` keep their order
(they concatenate its caller-ordered rpm list). -/
theorem C08_perm_history_modules (s : PyVal) (hs : Mf.NodupAll s) (h h' : List Mf.ModulesArgs) (ho : SameOrder Mf.modulesSlot h h') :
    JEq (Mf.runModules s h) (Mf.runModules s h') ∧
    SameOrder (fun x : Mf.ModulesArgs × Mf.Out => Mf.modulesSlot x.1) (Hist.trace Mf.Modules.add s h) (Hist.trace Mf.Modules.add s h') :=
  Hist.perm_history Mf.modules_commutes ho s hs

/-- **C08 (extra_files, histories).**  The same for `ExtraFiles.add`; the calls for one `[variant][arch]` keep their order (they
append to its caller-ordered entry list). -/
theorem C08_perm_history_extra_files (s : PyVal) (hs : Mf.NodupAll s) (h h' : List Mf.ExtraArgs) (ho : SameOrder Mf.extraSlot h h') :
    JEq (Mf.runExtra s h) (Mf.runExtra s h') ∧
    SameOrder (fun x : Mf.ExtraArgs × Mf.Out => Mf.extraSlot x.1) (Hist.trace Mf.ExtraFiles.add s h) (Hist.trace Mf.ExtraFiles.add s h') :=
  Hist.perm_history Mf.extra_commutes ho s hs

/-- **C08 (manifest histories): the same bytes.**  Whatever the header version and compose section, the manifests two such
histories build are written as the same bytes (or both dumps raise the same error). -/
theorem C08_perm_history_bytes (ver : PyVal) (compose : Obj) (s : PyVal) (hs : Mf.NodupAll s) :
    (∀ h h', SameOrder Mf.rpmsSlot h h' →
      (Mf.dumps .rpms ⟨ver, compose, Mf.runRpms s h⟩).2 = (Mf.dumps .rpms ⟨ver, compose, Mf.runRpms s h'⟩).2) ∧
    (∀ h h', SameOrder Mf.modulesSlot h h' →
      (Mf.dumps .modules ⟨ver, compose, Mf.runModules s h⟩).2 = (Mf.dumps .modules ⟨ver, compose, Mf.runModules s h'⟩).2) ∧
    (∀ h h', SameOrder Mf.extraSlot h h' →
      (Mf.dumps .extraFiles ⟨ver, compose, Mf.runExtra s h⟩).2 = (Mf.dumps .extraFiles ⟨ver, compose, Mf.runExtra s h'⟩).2) :=
  ⟨fun h h' ho => C08_perm_manifests _ _ _ rfl (C08_perm_history_rpms s hs h h' ho).1,
   fun h h' ho => C08_perm_manifests _ _ _ rfl (C08_perm_history_modules s hs h h' ho).1,
   fun h h' ho => C08_perm_manifests _ _ _ rfl (C08_perm_history_extra_files s hs h h' ho).1⟩

/-- **C08 (rpms histories): only the last write of a slot is content.**  A write that the NEXT call replaces (same slot
`[variant][arch][srpm][nevra]`) leaves no trace: the mapping is the one built without it (equal, not only `JEq`), whatever the start
mapping.  With `C08_perm_history_rpms` (a call may be moved next to the following call of its slot: no call of that slot stands
between them) every overwritten write of a history can be dropped without changing the bytes. -/
theorem C08_history_overwrite_rpms (s : PyVal) (a b : Mf.RpmsArgs) (t : List Mf.RpmsArgs) (hab : Mf.rpmsSlot a = Mf.rpmsSlot b)
    (hb : Mf.rpmsSlot b ≠ Option.none) : Mf.runRpms s (a :: b :: t) = Mf.runRpms s (b :: t) := by
  simp only [Mf.runRpms, List.foldl_cons, Mf.rpms_overwrite s a b hab hb]

/-- **Refusal depends on the arguments only.**  On a freshly constructed manifest the outcome of every call of a history is the
outcome of its precondition checks (`rpmsCheck` / `modulesCheck` / `extraCheck`, functions of the arguments): so the per-call
outcomes of `C08_perm_history_*` are, from `{}`, the same function of the call in every rearrangement. -/
theorem C08_history_outcomes :
    (∀ h : List Mf.RpmsArgs, Hist.trace Mf.Rpms.add Mf.empty h = h.map (fun a => (a, (Mf.rpmsCheck a).map (fun _ => ())))) ∧
    (∀ h : List Mf.ModulesArgs, Hist.trace Mf.Modules.add Mf.empty h = h.map (fun a => (a, (Mf.modulesCheck a).map (fun _ => ())))) ∧
    (∀ h : List Mf.ExtraArgs, Hist.trace Mf.ExtraFiles.add Mf.empty h = h.map (fun a => (a, (Mf.extraCheck a).map (fun _ => ())))) := by
  refine ⟨fun h => ?_, fun h => ?_, fun h => ?_⟩
  · suffices ∀ s, Mf.RpmsShape s → Hist.trace Mf.Rpms.add s h = h.map (fun a => (a, (Mf.rpmsCheck a).map (fun _ => ()))) from
      this Mf.empty rfl
    induction h with
    | nil => intro s _; rfl
    | cons a t ih =>
      intro s hs
      simp only [Hist.trace, List.map_cons, Mf.C12_rpms_outcome s hs a, ih _ (Mf.rpms_shape_step s a hs)]
  · suffices ∀ s, Mf.ModulesShape s → Hist.trace Mf.Modules.add s h = h.map (fun a => (a, (Mf.modulesCheck a).map (fun _ => ()))) from
      this Mf.empty rfl
    induction h with
    | nil => intro s _; rfl
    | cons a t ih =>
      intro s hs
      simp only [Hist.trace, List.map_cons, Mf.C12_modules_outcome s hs a, ih _ (Mf.modules_shape_step s a hs)]
  · suffices ∀ s, Mf.ExtraShape s → Hist.trace Mf.ExtraFiles.add s h = h.map (fun a => (a, (Mf.extraCheck a).map (fun _ => ()))) from
      this Mf.empty rfl
    induction h with
    | nil => intro s _; rfl
    | cons a t ih =>
      intro s hs
      simp only [Hist.trace, List.map_cons, Mf.C12_extra_outcome s hs a, ih _ (Mf.extra_shape_step s a hs)]

/-! ### non-vacuity: four calls, one of them refused, one slot written twice -/
namespace Mf
def wR (variant nevra path : String) : RpmsArgs :=
  { variant := lit variant, arch := lit "x86_64", nevra := lit nevra, path := lit path, sigkey := none,
    category := lit "binary", srpm := some (lit "foo-0:1.0-1.src") }
def wR1 : RpmsArgs := wR "Server" "foo-0:1.0-1.x86_64" "p/first"
/-- another package of the same source package (same address `[Server][x86_64][foo-0:1.0-1.src]`, other key) -/
def wR2 : RpmsArgs := wR "Server" "foo-libs-0:1.0-1.x86_64" "p/libs"
/-- the slot of `wR1` again, other record: the later write wins -/
def wR3 : RpmsArgs := wR "Server" "foo-0:1.0-1.x86_64" "p/second"
/-- refused: unknown arch -/
def wRbad : RpmsArgs := { wR "Client" "foo-0:1.0-1.x86_64" "p/x" with arch := lit "no-such-arch" }

def wM (uid : String) (rpms : List String) : ModulesArgs :=
  { variant := lit "Server", arch := lit "x86_64", uid := .str (lit uid), kojiTag := lit "t", modulemdPath := lit "m.yaml",
    category := lit "binary", rpms := .list (rpms.map fun r => .str (lit r)) }
def wM1 : ModulesArgs := wM "httpd:2.4:1:c" ["a", "b"]
def wM2 : ModulesArgs := wM "nginx:1:1:c" ["z"]
/-- the module of `wM1` again: its rpm list is extended -/
def wM3 : ModulesArgs := wM "httpd:2.4:1:c" ["a", "0"]
def wMbad : ModulesArgs := { wM "x:1" [] with kojiTag := [] }

def wE (arch path : String) : ExtraArgs :=
  { variant := lit "Server", arch := lit arch, path := lit path, size := .int 1, checksums := .dict [] }
def wE1 : ExtraArgs := wE "x86_64" "zz/GPL"
/-- another arch of the same variant (same address `[Server]`, other key of the leaf) -/
def wE2 : ExtraArgs := wE "aarch64" "EULA"
/-- the entry list of `wE1` again -/
def wE3 : ExtraArgs := wE "x86_64" "EULA"
def wEbad : ExtraArgs := { wE "x86_64" "/abs" with checksums := .list [] }
end Mf

/-- `[a1, refused, a2, a3] ~ [a2, a1, refused, a3]` where `a3` rewrites the slot of `a1` -/
theorem C08_history_rpms_example_order : SameOrder Mf.rpmsSlot [Mf.wR1, Mf.wRbad, Mf.wR2, Mf.wR3] [Mf.wR2, Mf.wR1, Mf.wRbad, Mf.wR3] :=
  SwapEq.sameOrder _ (.trans (.cons _ (.swap _ _ _ (Or.inl (by decide +kernel)))) (.swap _ _ _ (Or.inr (Or.inr (by decide +kernel)))))

/-- the hypotheses of `C08_perm_history_rpms` hold for a genuine rearrangement of four calls: one refused (in both runs), one slot
written twice (the second write survives in both runs), two packages of one source package swapped; the two mappings are NOT the
same list of entries, and both manifests are written - as the same bytes -/
example :
    Mf.rpmsSlot Mf.wRbad = Option.none ∧ Mf.rpmsSlot Mf.wR3 = Mf.rpmsSlot Mf.wR1 ∧ Mf.rpmsSlot Mf.wR1 ≠ Option.none ∧
    (Mf.runRpms Mf.empty [Mf.wR1, Mf.wRbad, Mf.wR2, Mf.wR3] != Mf.runRpms Mf.empty [Mf.wR2, Mf.wR1, Mf.wRbad, Mf.wR3]) = true ∧
    ((Hist.trace Mf.Rpms.add Mf.empty [Mf.wR2, Mf.wR1, Mf.wRbad, Mf.wR3]).map (fun x => Mf.Out.isOk x.2)) = [true, true, false, true] ∧
    JEq (Mf.runRpms Mf.empty [Mf.wR1, Mf.wRbad, Mf.wR2, Mf.wR3]) (Mf.runRpms Mf.empty [Mf.wR2, Mf.wR1, Mf.wRbad, Mf.wR3]) :=
  ⟨by decide +kernel, by decide +kernel, by decide +kernel, by decide +kernel, by decide +kernel,
   (C08_perm_history_rpms Mf.empty Mf.nodupAll_empty _ _ C08_history_rpms_example_order).1⟩

/-- **Two writes of one slot (the region the quantifier excludes): the order IS content.**  `[a1, a3]` and `[a3, a1]` are written
as different bytes (the later record wins). -/
theorem C08_history_same_slot_witness :
    Mf.rpmsSlot Mf.wR3 = Mf.rpmsSlot Mf.wR1 ∧
    (JsonText.dumps (Mf.runRpms Mf.empty [Mf.wR1, Mf.wR3]) != JsonText.dumps (Mf.runRpms Mf.empty [Mf.wR3, Mf.wR1])) = true ∧
    (JsonText.dumps (Mf.runModules Mf.empty [Mf.wM1, Mf.wM3]) != JsonText.dumps (Mf.runModules Mf.empty [Mf.wM3, Mf.wM1])) = true ∧
    (JsonText.dumps (Mf.runExtra Mf.empty [Mf.wE1, Mf.wE3]) != JsonText.dumps (Mf.runExtra Mf.empty [Mf.wE3, Mf.wE1])) = true := by
  decide +kernel

/-- the hypotheses of `C08_history_overwrite_rpms` hold for two different calls -/
example : Mf.rpmsSlot Mf.wR1 = Mf.rpmsSlot Mf.wR3 ∧ Mf.rpmsSlot Mf.wR3 ≠ Option.none ∧ Mf.wR1.path ≠ Mf.wR3.path := by decide +kernel

theorem C08_history_modules_example_order :
    SameOrder Mf.modulesSlot [Mf.wM1, Mf.wMbad, Mf.wM2, Mf.wM3] [Mf.wM2, Mf.wM1, Mf.wMbad, Mf.wM3] :=
  SwapEq.sameOrder _ (.trans (.cons _ (.swap _ _ _ (Or.inl (by decide +kernel)))) (.swap _ _ _ (Or.inr (Or.inr (by decide +kernel)))))

example :
    Mf.modulesSlot Mf.wMbad = Option.none ∧ Mf.modulesSlot Mf.wM3 = Mf.modulesSlot Mf.wM1 ∧ Mf.modulesSlot Mf.wM1 ≠ Option.none ∧
    (Mf.runModules Mf.empty [Mf.wM1, Mf.wMbad, Mf.wM2, Mf.wM3] != Mf.runModules Mf.empty [Mf.wM2, Mf.wM1, Mf.wMbad, Mf.wM3]) = true ∧
    ((Hist.trace Mf.Modules.add Mf.empty [Mf.wM2, Mf.wM1, Mf.wMbad, Mf.wM3]).map (fun x => Mf.Out.isOk x.2)) = [true, true, false, true] ∧
    JEq (Mf.runModules Mf.empty [Mf.wM1, Mf.wMbad, Mf.wM2, Mf.wM3]) (Mf.runModules Mf.empty [Mf.wM2, Mf.wM1, Mf.wMbad, Mf.wM3]) :=
  ⟨by decide +kernel, by decide +kernel, by decide +kernel, by decide +kernel, by decide +kernel,
   (C08_perm_history_modules Mf.empty Mf.nodupAll_empty _ _ C08_history_modules_example_order).1⟩

theorem C08_history_extra_example_order :
    SameOrder Mf.extraSlot [Mf.wE1, Mf.wEbad, Mf.wE2, Mf.wE3] [Mf.wE2, Mf.wE1, Mf.wEbad, Mf.wE3] :=
  SwapEq.sameOrder _ (.trans (.cons _ (.swap _ _ _ (Or.inl (by decide +kernel)))) (.swap _ _ _ (Or.inr (Or.inr (by decide +kernel)))))

example :
    Mf.extraSlot Mf.wEbad = Option.none ∧ Mf.extraSlot Mf.wE3 = Mf.extraSlot Mf.wE1 ∧ Mf.extraSlot Mf.wE1 ≠ Option.none ∧
    (Mf.runExtra Mf.empty [Mf.wE1, Mf.wEbad, Mf.wE2, Mf.wE3] != Mf.runExtra Mf.empty [Mf.wE2, Mf.wE1, Mf.wEbad, Mf.wE3]) = true ∧
    ((Hist.trace Mf.ExtraFiles.add Mf.empty [Mf.wE2, Mf.wE1, Mf.wEbad, Mf.wE3]).map (fun x => Mf.Out.isOk x.2)) = [true, true, false, true] ∧
    JEq (Mf.runExtra Mf.empty [Mf.wE1, Mf.wEbad, Mf.wE2, Mf.wE3]) (Mf.runExtra Mf.empty [Mf.wE2, Mf.wE1, Mf.wEbad, Mf.wE3]) :=
  ⟨by decide +kernel, by decide +kernel, by decide +kernel, by decide +kernel, by decide +kernel,
   (C08_perm_history_extra_files Mf.empty Mf.nodupAll_empty _ _ C08_history_extra_example_order).1⟩

/-! ## treeinfo, the whole writer -/

/-- the text `TreeInfo.dump(f, main_variant)` writes, in the model: a PURE function of the content and of the argument
(`TI.serialize` takes the object and `main_variant`, returns a document, and has no other input or output) -/
def TI.dumpText (t : TI.TreeInfo) (mv : Option Str) : Except Err Str := (TI.serialize t mv).map IniText.render

/-- `TI.dumpText` under an abstract "the described variant is found again" hypothesis -/
theorem c8_dumpText_gen (t t' : TI.TreeInfo) (mv : Option Str) (hs : TI.Same t t') (hk : TI.DictKeys t)
    (hget : TI.c8GetTransfer t t' mv) (b : Str) (h : TI.dumpText t mv = .ok b) : TI.dumpText t' mv = .ok b := by
  unfold TI.dumpText at h ⊢
  cases hd : TI.serialize t mv with
  | error e => rw [hd] at h; cases h
  | ok d =>
    rw [hd] at h
    obtain ⟨d', h', hr⟩ := TI.c8_perm_treeinfo_gen hs hk hget hd
    rw [h']
    simp only [Except.map] at h ⊢
    rw [hr]; exact h

/-- **C08 (treeinfo), every `main_variant`.**  Two trees with the same content (`TI.Same`: variant containers at every level,
the platform set, the checksum table and the image tables in any order, path tables answering every lookup alike;
`Proofs/C08TreeInfo.lean`) are written as the same bytes FOR EVERY `main_variant` argument, and a dump that succeeds for one
succeeds for the other.
Model domain (`TI.DictKeys`): top-level variant keys, checksum paths and the image names of a platform are pairwise distinct
(keys of Python dicts).  Side condition (`TI.c8Siblings`): at every level of the forest siblings are told apart by their
container key AND by their UID.  The UID part is exact: `VariantBase.__getitem__` resolves a `main_variant` that is not a
container key by a FIRST-MATCH scan for the UID, and with two siblings of one UID the bytes do depend on the insertion order
(`C08_treeinfo_shared_uid_witness`, finding F44); for a `main_variant` that is `None` or a container key the UID part is not
needed (`C08_perm_treeinfo_top_key`).
Route: the lookup-form writer specification and its converse (builder `treeinfo`: `serialize_spec`, `serialize_conv`,
`render_eq_of_CE`); validators cannot tell the two trees apart (`Proofs/RulesAgree.lean`: the fields and hand-bound rules each
generated class reads are COMPUTED from `Gen.allClasses`, the side conditions are `decide`d on the regenerated file);
`chosenKey`, `getItem`, `platformsStr`, `sortS` are invariant (`c8_getItem_congr`, `chosenKey_congr`, `platformsStr_congr`). -/
theorem C08_perm_treeinfo (t t' : TI.TreeInfo) (mv : Option Str) (hs : TI.Same t t') (hk : TI.DictKeys t)
    (hsib : TI.c8Siblings t.variants) (b : Str) (h : TI.dumpText t mv = .ok b) : TI.dumpText t' mv = .ok b :=
  c8_dumpText_gen t t' mv hs hk (TI.c8_getTransfer_sib mv hs hsib) b h

/-- the same for a `main_variant` that is `None` or the container key of a top-level variant, WITHOUT the UID condition -/
theorem C08_perm_treeinfo_top_key (t t' : TI.TreeInfo) (mv : Option Str) (hs : TI.Same t t') (hk : TI.DictKeys t)
    (hmv : TI.MainVariantTop t mv) (b : Str) (h : TI.dumpText t mv = .ok b) : TI.dumpText t' mv = .ok b :=
  c8_dumpText_gen t t' mv hs hk (TI.c8_getTransfer_top hs hk.tops hmv) b h

/-- both directions: the two dumps write the same bytes or BOTH fail (which exception a failing dump raises can depend on
the order: the first offending section wins) -/
theorem C08_perm_treeinfo_iff (t t' : TI.TreeInfo) (mv : Option Str) (hs : TI.Same t t') (hk : TI.DictKeys t)
    (hsib : TI.c8Siblings t.variants) :
    (∀ b, TI.dumpText t mv = .ok b ↔ TI.dumpText t' mv = .ok b) ∧
    ((∃ e, TI.dumpText t mv = .error e) ↔ (∃ e, TI.dumpText t' mv = .error e)) := by
  have fwd := fun b => C08_perm_treeinfo t t' mv hs hk hsib b
  have bwd := fun b => C08_perm_treeinfo t' t mv hs.symm (TI.c8_dictKeys_congr hs hk) (TI.c8_siblings_congr hs.variants hsib) b
  refine ⟨fun b => ⟨fwd b, bwd b⟩, ?_, ?_⟩
  · rintro ⟨e, he⟩
    cases h' : TI.dumpText t' mv with
    | error e' => exact ⟨e', rfl⟩
    | ok b => rw [bwd b h'] at he; cases he
  · rintro ⟨e, he⟩
    cases h' : TI.dumpText t mv with
    | error e' => exact ⟨e', rfl⟩
    | ok b => rw [fwd b h'] at he; cases he

/-- document level, with the success transfer made explicit -/
theorem C08_perm_treeinfo_doc (t t' : TI.TreeInfo) (mv : Option Str) (hs : TI.Same t t') (hk : TI.DictKeys t)
    (hsib : TI.c8Siblings t.variants) (d : Ini) (h : TI.serialize t mv = .ok d) :
    ∃ d', TI.serialize t' mv = .ok d' ∧ IniText.render d' = IniText.render d :=
  TI.c8_perm_treeinfo_gen hs hk (TI.c8_getTransfer_sib mv hs hsib) h

namespace TI
def wVar (id : Str) (paths : List (Str × Str)) (kids : List Variant) : Variant := .mk id id id id tVariant paths kids
def wTree (plats : List Str) (vs : List Variant) (cs : List (Str × Str × Str)) : TreeInfo :=
  { headerVersion := "0.0".toList, release := ⟨"F".toList, "F".toList, "22".toList⟩, isLayered := false, baseProduct := none,
    tree := ⟨"x86_64".toList, .int 1, plats⟩, variants := vs, checksums := cs, images := [], mainimage := none, instimage := none,
    discnum := none, totaldiscs := none }
def wT1 : TreeInfo := wTree ["xen".toList, "efi".toList] [wVar "B".toList [(k%"packages", k%"p"), (k%"repository", k%"r")] [], wVar "A".toList [] []]
  [("b".toList, "md5".toList, "1".toList), ("a".toList, "sha1".toList, "2".toList)]
def wT2 : TreeInfo := wTree ["efi".toList, "xen".toList, "efi".toList] [wVar "A".toList [] [], wVar "B".toList [(k%"repository", k%"r"), (k%"packages", k%"p")] []]
  [("a".toList, "sha1".toList, "2".toList), ("b".toList, "md5".toList, "1".toList)]

theorem wT_same : Same wT1 wT2 := by
  refine ⟨rfl, rfl, rfl, rfl, rfl, rfl, ?_, ?_, List.Perm.swap _ _ _, PermR.refl (fun p => ⟨rfl, List.Perm.refl _⟩) _, rfl, rfl, rfl, rfl⟩
  · intro x
    show x ∈ ["xen".toList, "efi".toList] ↔ x ∈ ["efi".toList, "xen".toList, "efi".toList]
    simp only [List.mem_cons, List.not_mem_nil, or_false]
    constructor
    · rintro (h | h) <;> simp [h]
    · rintro (h | h | h) <;> simp [h]
  · show TLEq [wVar "B".toList _ [], wVar "A".toList [] []] [wVar "A".toList [] [], wVar "B".toList _ []]
    refine .trans (.swap _ _ _) (.cons (TVEq.refl _) (.cons ?_ .nil))
    unfold wVar
    refine .mk _ _ _ _ _ ?_ .nil
    intro f
    rw [Ini.lookup_cons_eq, Ini.lookup_cons_eq, Ini.lookup_cons_eq, Ini.lookup_cons_eq]
    by_cases h1 : k%"packages" = f
    · by_cases h2 : k%"repository" = f
      · exact absurd (h1.trans h2.symm) (by decide)
      · simp [h1, h2]
    · by_cases h2 : k%"repository" = f <;> simp [h1, h2]
theorem wT_keys : DictKeys wT1 := ⟨by decide, by decide, fun p hp => by cases hp⟩
theorem wT_mv : MainVariantTop wT1 none := fun m hm => by cases hm
theorem wT_sib : c8Siblings wT1.variants := by
  refine ⟨by decide, by decide, ?_⟩
  simp [wT1, wTree, wVar, c8SibL, c8SibV]

/-! two top-level variants with ONE UID (`A-b`), filed under their ids, of different types (so that their sections
`[variant-A-b]` and `[addon-A-b]` are distinct and the tree IS written), in the two insertion orders -/
def wSv (id type pk : Str) : Variant := .mk id id k%"A-b" id type [(k%"packages", pk)] []
def wS1 : TreeInfo := wTree [] [wSv k%"X" tVariant k%"pkgs-X", wSv k%"Y" tAddon k%"pkgs-Y"] []
def wS2 : TreeInfo := wTree [] [wSv k%"Y" tAddon k%"pkgs-Y", wSv k%"X" tVariant k%"pkgs-X"] []
theorem wS_same : Same wS1 wS2 :=
  ⟨rfl, rfl, rfl, rfl, rfl, rfl, fun _ => Iff.rfl, .swap _ _ _, List.Perm.refl _, PermR.refl (fun p => ⟨rfl, List.Perm.refl _⟩) _,
   rfl, rfl, rfl, rfl⟩
theorem wS_keys : DictKeys wS1 := ⟨by decide, by decide, fun p hp => by cases hp⟩
end TI

/-- the hypotheses of `C08_perm_treeinfo` hold for a genuine rearrangement of a tree that IS written -/
example : ∃ b, TI.dumpText TI.wT1 none = .ok b ∧ TI.dumpText TI.wT2 none = .ok b := by
  cases h : TI.dumpText TI.wT1 none with
  | ok b => exact ⟨b, rfl, C08_perm_treeinfo _ _ none TI.wT_same TI.wT_keys TI.wT_sib b h⟩
  | error e =>
    have : (match TI.dumpText TI.wT1 none with | .ok _ => true | .error _ => false) = true := by decide +kernel
    rw [h] at this; cases this

/-- **Two siblings with one UID (the region `C08_perm_treeinfo` excludes): the bytes DO depend on the insertion order.**
`wS1` and `wS2` are the same content (`TI.Same`), keys are distinct (`TI.DictKeys`), both are written for
`main_variant = "A-b"` - a UID, not a container key - and the texts differ: `[general] packagedir` is that of whichever
variant the first-match UID scan of `VariantBase.__getitem__` meets first.  Replayed on the real library: finding F44. -/
theorem C08_treeinfo_shared_uid_witness :
    TI.Same TI.wS1 TI.wS2 ∧ TI.DictKeys TI.wS1 ∧ ¬ TI.c8Siblings TI.wS1.variants ∧
    (match TI.dumpText TI.wS1 (some k%"A-b"), TI.dumpText TI.wS2 (some k%"A-b") with
     | .ok a, .ok b => a != b
     | _, _ => false) = true :=
  ⟨TI.wS_same, TI.wS_keys, fun h => absurd h.2.1 (by decide), by decide +kernel⟩

/-! ## treeinfo: repeated dumps -/

/-- a history of `dump` calls on ONE object -/
def TI.dumpHistory (t : TI.TreeInfo) (calls : List (Option Str)) : List (Except Err Str) := calls.map (TI.dumpText t)

/-- **C08 repeat (treeinfo).**  Whatever was dumped before (with whichever `main_variant` arguments) and whatever is dumped
afterwards, a `dump(main_variant = mv)` writes what a fresh object of the same content writes for the same call: the output is
a function of (content, main_variant) only.
In the model this is immediate - `TI.serialize` has no state to carry from one call to the next (the code creates a
throw-away `General(self)` per dump and `Header.serialize` of treeinfo does not set `header.version`).  That the REAL object
has no such hidden state either is not a statement about the model: it is covered on every run by the `c08_seq` probe of the
harness (one object, `dump(main_variant=<each top-level key>)` and plain dumps in every order, each output compared with a
fresh object's and with `TI.dumpText`). -/
theorem C08_repeat_treeinfo (t : TI.TreeInfo) (before after : List (Option Str)) (mv : Option Str) :
    (TI.dumpHistory t (before ++ mv :: after))[before.length]? = some (TI.dumpText t mv) := by
  simp [TI.dumpHistory]

/-! ## non-vacuity (composeinfo) -/
namespace CI
def wV (id : Str) (arches : List Str) : Variant :=
  .mk id id id k%"n" k%"variant" arches [] none []
def wCI (vs : List Variant) : ComposeInfo :=
  { compose := { id := k%"F-22-20150101.0", type := k%"production", date := k%"20150101", respin := 0, label := none, final := false },
    release := { name := k%"F", short := k%"F", version := k%"22", type := k%"ga", isLayered := false, internal := false },
    base := none, variants := vs }
def wC1 : ComposeInfo := wCI [wV k%"Server" [k%"x86_64", k%"aarch64"], wV k%"Client" [k%"i386"]]
def wC2 : ComposeInfo := wCI [wV k%"Client" [k%"i386"], wV k%"Server" [k%"aarch64", k%"x86_64"]]

theorem wC_same : Same wC1 wC2 := by
  refine ⟨rfl, rfl, rfl, ?_⟩
  show LEq [wV k%"Server" [k%"x86_64", k%"aarch64"], wV k%"Client" [k%"i386"]] [wV k%"Client" [k%"i386"], wV k%"Server" [k%"aarch64", k%"x86_64"]]
  refine .trans (.swap _ _ _) (.cons (VEq.refl _) (.cons ?_ .nil))
  unfold wV
  exact .mk _ _ _ _ _ _ (fun x => by simp only [List.mem_cons, List.not_mem_nil, or_false]; exact or_comm) (fun _ _ => rfl) .nil
theorem wC_keys : DictKeysTop wC1 := by
  refine ⟨by decide, ?_⟩
  simp [wC1, wCI, wV, DictKeysL, DictKeys]
end CI

/-- the hypotheses of `C08_perm_composeinfo` hold for a genuine rearrangement of a compose that IS written -/
example : ∃ b, CI.dumps CI.wC1 = .ok b ∧ CI.dumps CI.wC2 = .ok b := by
  cases h : CI.dumps CI.wC1 with
  | ok b => exact ⟨b, rfl, C08_perm_composeinfo _ _ CI.wC_same CI.wC_keys b h⟩
  | error e =>
    have : CI.isOk (CI.dumps CI.wC1) = true := by decide +kernel
    rw [h] at this; cases this

namespace CI
/-- a compose with a layered-product variant whose release still says `is_layered = False`, header version `0.9` -/
def wLP : Variant :=
  .mk k%"LP" k%"LP" k%"LP" k%"n" layeredProduct [k%"x86_64"] []
    (some { name := k%"L", short := k%"L", version := k%"1", type := k%"ga", isLayered := false, internal := false }) []
def wSt : CIState := { version := k%"0.9", ci := wCI [wLP] }
end CI

/-- non-vacuity: the dump of `wSt` succeeds and DOES change the object (header version and the flag), the changed object is not
the original, and the next dumps write the same text -/
example :
    (match CI.dumpsSt CI.wSt with
     | (s', .ok _) => s'.version == CI.currentVersion && s'.version != CI.wSt.version &&
         (match s'.ci.variants with
          | [v] => (v.release.map (·.isLayered)) == some true
          | _ => false)
     | _ => false) = true ∧
    (CI.dumpsSt (CI.c8After 3 CI.wSt)).2 = (CI.dumpsSt CI.wSt).2 :=
  ⟨by decide +kernel, C08_repeat_composeinfo_n CI.wSt 3⟩

end PM
