import ProductMD.Model.Nvra
namespace PM
theorem C13_placeholder : True := trivial
end PM
