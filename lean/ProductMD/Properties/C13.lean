import ProductMD.Proofs.NvraFix
/-!
# C13 — RPM `name-[epoch:]version-release.arch` strings are parsed back to their parts

Model: `parseNvra` (Model/Nvra.lean) = what `productmd.common.parse_nvra` does: strip `.rpm`, run the generated
`RPM_NVRA_RE` through the backtracking engine model (`pyMatch`: first success in CPython's priority order), read the
named groups, `epoch or 0`, `int()`.  The theorems are about that regex-driven function — there is no separate
"direct" parser — and hold for strings of any length.
-/
namespace PM
open PM.NvraProof PM.Dec PM.Str

/-- The pattern and group table regenerated from the source are the ones the proofs decompose. -/
theorem C13_pattern : Gen.re_common_RPM_NVRA_RE = Spec.nvra
    ∧ Gen.re_common_RPM_NVRA_RE_groups = Spec.nvraGroups := by decide

/-- No architecture of the library's table contains `-`, `.`, `/` or a line feed, and none is `rpm`. -/
theorem C13_arches : ∀ a ∈ Gen.RPM_ARCHES, '-' ∉ a ∧ '.' ∉ a ∧ '/' ∉ a ∧ '\n' ∉ a ∧ a ≠ ['r', 'p', 'm'] := by
  decide

/-- `[dir]name-[epoch:]version-release.arch[.rpm]` -/
def fmtNvra (dir name : Str) (ep : Option Nat) (ver rel arch : Str) (rpm : Bool) : Str :=
  dir ++ fmtBase name ep ver rel arch ++ (if rpm then ['.', 'r', 'p', 'm'] else [])

/-! ### `.rpm` stripping -/
theorem stripRpm_suffix (s : Str) : stripRpm (s ++ ['.', 'r', 'p', 'm']) = s := by
  have : Str.endsWith (s ++ ['.', 'r', 'p', 'm']) ['.', 'r', 'p', 'm'] = true := by
    simp [Str.endsWith, List.isSuffixOf_iff_suffix]
  simp [stripRpm, this]

theorem stripRpm_other (pre arch : Str) (hdot : '.' ∉ arch) (hne : arch ≠ ['r', 'p', 'm']) :
    stripRpm (pre ++ '.' :: arch) = pre ++ '.' :: arch := by
  have : Str.endsWith (pre ++ '.' :: arch) ['.', 'r', 'p', 'm'] = false := by
    cases h : Str.endsWith (pre ++ '.' :: arch) ['.', 'r', 'p', 'm'] with
    | false => rfl
    | true =>
      rw [Str.endsWith, List.isSuffixOf_iff_suffix] at h
      obtain ⟨q, hq⟩ := h
      exact absurd (last_split_unique (by decide) hdot hq).symm hne
  simp [stripRpm, this]

theorem fmtNvra_strip (dir name : Str) (ep : Option Nat) (ver rel arch : Str) (rpm : Bool)
    (hdot : '.' ∉ arch) (hrpm : rpm = false → arch ≠ ['r', 'p', 'm']) :
    stripRpm (fmtNvra dir name ep ver rel arch rpm) = dir ++ fmtBase name ep ver rel arch := by
  cases rpm with
  | true => simp only [fmtNvra, if_true]; exact stripRpm_suffix _
  | false =>
    simp only [fmtNvra, Bool.false_eq_true, if_false, List.append_nil]
    have := stripRpm_other (dir ++ (name ++ '-' :: (epStr ep ++ (ver ++ '-' :: rel)))) arch hdot (hrpm rfl)
    simpa [fmtBase] using this

/-! ### reading the groups -/
theorem groups_of_caps (name ver rel arch : Str) (ep : Option Nat) (dir : Str) :
    let caps : Caps := (7, arch) :: (6, rel) :: (5, ver) :: (epCaps ep ++ (2, name) :: dirCaps dir)
    namedGroup Spec.nvraGroups caps "name" = some name ∧ namedGroup Spec.nvraGroups caps "version" = some ver
    ∧ namedGroup Spec.nvraGroups caps "release" = some rel ∧ namedGroup Spec.nvraGroups caps "arch" = some arch
    ∧ namedGroup Spec.nvraGroups caps "epoch" = ep.map natStr := by
  have hd : ∀ n, n ≠ 1 → (dirCaps dir).find? (fun p => decide (p.1 = n)) = none := by
    intro n hn
    cases dir with
    | nil => rfl
    | cons x xs => simp [dirCaps]; omega
  cases ep with
  | none => simp [namedGroup, Spec.nvraGroups, List.lookup, Caps.get, epCaps, hd]
  | some e => simp [namedGroup, Spec.nvraGroups, List.lookup, Caps.get, epCaps]

/-- The excluded region of the full statement: CPython's `int()` refuses more than 4300 digits. -/
def EpochWithinIntLimit (ep : Option Nat) : Prop := ∀ e, ep = some e → (natStr e).length ≤ intMaxStrDigits

/-
FULL STATEMENT (false of the code for epochs ≥ 10^4300, see `C13_parse_epoch_limit`):
  ∀ dir name ep ver rel arch rpm, Dom … → parseNvra (fmtNvra …) = .ok ⟨name, ep.getD 0, ver, rel, arch⟩
-/
/-- **Parts are recovered**, for every string of the documented shape, of any length:
directory prefix empty or ending in `/` (no line feed); name free of `/` and line feed (dashes, all-digit segments,
anything else allowed); epoch absent or any natural number printed in decimal; version and release free of `-`, `/`,
line feed (version free of `:` when no epoch is given); architecture free of `-`, `.`, `/`, line feed; with or without
`.rpm` (without: the architecture is not literally `rpm`). -/
theorem C13_parse_partial (dir name : Str) (ep : Option Nat) (ver rel arch : Str) (rpm : Bool)
    (h : Dom dir name ep ver rel arch) (hrpm : rpm = false → arch ≠ ['r', 'p', 'm'])
    (hlim : EpochWithinIntLimit ep) :
    parseNvra (fmtNvra dir name ep ver rel arch rpm)
      = .ok { name := some name, epoch := ep.getD 0, version := some ver, release := some rel, arch := some arch } := by
  unfold parseNvra
  rw [fmtNvra_strip _ _ _ _ _ _ _ h.arch_dot hrpm, C13_pattern.1, nvra_first h]
  simp only [nvraOfCaps, C13_pattern.2]
  obtain ⟨h1, h2, h3, h4, h5⟩ := groups_of_caps name ver rel arch ep dir
  simp only [h1, h2, h3, h4, h5]
  cases ep with
  | none => rfl
  | some e =>
    have hv := pyIntDigits_natStr e (hlim e rfl)
    simp only [Option.map]
    cases hs : natStr e with
    | nil => exact absurd hs (natStr_ne_nil e)
    | cons d ds => rw [hs] at hv; simp [Spec.nvraGroups, List.lookup, hv, Except.map]

/-- Witness theorem for the excluded region: beyond the interpreter's limit the same input raises `ValueError`
(known finding F19; replayed on the real code by the harness with a 4301-digit epoch). -/
theorem C13_parse_epoch_limit (dir name : Str) (e : Nat) (ver rel arch : Str) (rpm : Bool)
    (h : Dom dir name (some e) ver rel arch) (hrpm : rpm = false → arch ≠ ['r', 'p', 'm'])
    (hbig : intMaxStrDigits < (natStr e).length) :
    parseNvra (fmtNvra dir name (some e) ver rel arch rpm) = .error .valueError := by
  unfold parseNvra
  rw [fmtNvra_strip _ _ _ _ _ _ _ h.arch_dot hrpm, C13_pattern.1, nvra_first h]
  simp only [nvraOfCaps, C13_pattern.2]
  obtain ⟨h1, h2, h3, h4, h5⟩ := groups_of_caps name ver rel arch (some e) dir
  simp only [h1, h2, h3, h4, h5]
  have hv := pyIntDigits_natStr_limit e hbig
  simp only [Option.map]
  cases hs : natStr e with
  | nil => exact absurd hs (natStr_ne_nil e)
  | cons d ds => rw [hs] at hv; simp [Spec.nvraGroups, List.lookup, hv, Except.map]

/-! ### the parser on every string -/
theorem groups_exact (q : Str × Option Str × Str × Str × Str) (d : Option Str) :
    let caps : Caps := PM.NvraExact.capsOf q ++ PM.NvraExact.dcap d
    namedGroup Spec.nvraGroups caps "name" = some q.1 ∧ namedGroup Spec.nvraGroups caps "version" = some q.2.2.1
    ∧ namedGroup Spec.nvraGroups caps "release" = some q.2.2.2.1 ∧ namedGroup Spec.nvraGroups caps "arch" = some q.2.2.2.2
    ∧ namedGroup Spec.nvraGroups caps "epoch" = q.2.1 := by
  obtain ⟨n, ep, v, rl, a⟩ := q
  cases ep <;> cases d <;>
    simp [namedGroup, Spec.nvraGroups, List.lookup, Caps.get, PM.NvraExact.capsOf, PM.NvraExact.epc, PM.NvraExact.dcap]

/-- **Exact behaviour of `parse_nvra` on EVERY string** (any length, any content: odd names, several slashes, colons,
line feeds, Unicode digits; no domain hypothesis): the regex-driven `parseNvra` equals the directly written
`Spec.parseNvraDirect` —
strip one trailing `.rpm`; look only at the first line, and require that nothing or a single final line feed follows it;
drop the directory through the LAST `/` after which the rest still parses (otherwise no directory is dropped at all);
name = up to the last `-` after which `[epoch:]version-release.arch` can still be found; epoch = the whole leading digit
run if a `:` follows it and the rest still splits (otherwise digits and colon stay in the version); version = up to the
last `-` that still has a `.` to its right; release = up to the last `.`; arch = the rest; `int()` of the epoch. -/
theorem C13_parser_exact (s : Str) : parseNvra s = Spec.parseNvraDirect s := by
  unfold parseNvra Spec.parseNvraDirect
  simp only
  rw [C13_pattern.1]
  cases h : Spec.p1 (isEol ((stripRpm s).dropWhile Cls.any.mem)) ((stripRpm s).takeWhile Cls.any.mem) with
  | none => rw [PM.NvraExact.nvra_exact_none _ h]
  | some q =>
    obtain ⟨d, hd⟩ := PM.NvraExact.nvra_exact_some _ q h
    rw [hd]
    simp only [nvraOfCaps, C13_pattern.2]
    obtain ⟨h1, h2, h3, h4, h5⟩ := groups_exact q d
    simp only [h1, h2, h3, h4, h5]
    obtain ⟨n, ep, v, rl, a⟩ := q
    cases ep with
    | none => rfl
    | some D =>
      have hne := PM.NvraExact.p1_epoch_ne h
      cases D with
      | nil => exact absurd rfl hne
      | cons d0 ds => rfl

/-- Corollary: a string in which anything but one final line feed follows the first line is refused, whatever it
contains (`.` does not match a line feed, `$` only matches at the end or before a final line feed). -/
theorem C13_multiline_refused (s : Str) (h : isEol ((stripRpm s).dropWhile Cls.any.mem) = false) :
    parseNvra s = .error .valueError := by
  rw [C13_parser_exact]
  unfold Spec.parseNvraDirect
  simp only [h, PM.NvraExact.p1_false]

/-- **Canonical re-formatting is a fixed point for EVERY parse result**, not only on the documented shape: whatever
string `s` parses (odd names, slashes or colons in version/release/arch, Unicode digits or leading zeros in the epoch,
a final line feed …), the parts re-formatted as `name-epoch:version-release.arch` parse to the same parts.  The one
exception is an architecture that is literally `rpm` (the canonical string then ends in `.rpm`, which is stripped). -/
theorem C13_fixpoint_exact (s : Str) (p : Nvra) (h : parseNvra s = .ok p) (ha : p.arch ≠ some ['r', 'p', 'm']) :
    parseNvra (canonNvra p) = .ok p := by
  rw [C13_parser_exact] at h ⊢
  unfold Spec.parseNvraDirect at h
  simp only at h
  have hline := PM.NvraExact.line_split (stripRpm s)
  cases he : isEol ((stripRpm s).dropWhile Cls.any.mem) with
  | false => rw [he, PM.NvraExact.p1_false] at h; cases h
  | true =>
    rw [he] at h
    cases hp1 : Spec.p1 true ((stripRpm s).takeWhile Cls.any.mem) with
    | none => rw [hp1] at h; cases h
    | some q =>
      obtain ⟨n, ep, v, rl, a⟩ := q
      rw [hp1] at h
      simp only at h
      obtain ⟨⟨pre, P, hshape⟩, hdot⟩ := PM.NvraFix.p1_shape hp1
      -- the epoch value and its canonical digits
      have hE : ∃ E, p = { name := some n, epoch := E, version := some v, release := some rl, arch := some a }
          ∧ (natStr E).length ≤ intMaxStrDigits := by
        cases ep with
        | none =>
          simp only [Except.map, Except.ok.injEq] at h
          exact ⟨0, h.symm, Nat.le_trans (natStr_len 0 1 (by decide) (by decide)) (by decide)⟩
        | some D =>
          simp only at h
          cases hv : pyIntDigits D with
          | error e => rw [hv] at h; cases h
          | ok E =>
            rw [hv] at h
            simp only [Except.map, Except.ok.injEq] at h
            exact ⟨E, h.symm, PM.NvraFix.pyIntDigits_canon hv⟩
      obtain ⟨E, rfl, hlen⟩ := hE
      have hcanon : canonNvra { name := some n, epoch := E, version := some v, release := some rl, arch := some a }
          = PM.NvraFix.canonStr n (natStr E) v rl a := by
        simp [canonNvra, pctS, PM.NvraFix.canonStr]
      have harch : a ≠ ['r', 'p', 'm'] := fun e => ha (by rw [e])
      -- no line feed in the canonical string
      have hnl : '\n' ∉ PM.NvraFix.canonStr n (natStr E) v rl a := by
        have hx := hline.2.1
        rw [hshape] at hx
        have hd : '\n' ∉ natStr E := fun hm => by
          have := (natStr_dig E _ hm).cls
          rw [PM.IdProof.nl_not_digit] at this; cases this
        simp only [PM.NvraFix.canonStr, List.mem_append, List.mem_cons, not_or] at hx ⊢
        exact ⟨hx.2.1, by decide, hd, by decide, hx.2.2.2.2.1, by decide, hx.2.2.2.2.2.2.1, by decide, hx.2.2.2.2.2.2.2.2⟩
      have hstrip : stripRpm (PM.NvraFix.canonStr n (natStr E) v rl a) = PM.NvraFix.canonStr n (natStr E) v rl a := by
        have := stripRpm_other (n ++ '-' :: (natStr E ++ ':' :: (v ++ '-' :: rl))) a hdot harch
        simpa [PM.NvraFix.canonStr] using this
      obtain ⟨hl1, hl2⟩ := PM.NvraFix.line_of_no_nl hnl
      have hp1' := PM.NvraFix.p1_canon hp1 (natStr_ne_nil E) (fun c hc => (natStr_dig E c hc).cls)
      rw [hcanon]
      unfold Spec.parseNvraDirect
      simp only [hstrip, hl1, hl2]
      have : isEol ([] : Str) = true := rfl
      rw [this, hp1']
      simp only [pyIntDigits_natStr E hlen, Except.map]

/-- What `Rpms._check_nevra` does outside the documented shape (the mechanism of finding F31, owned by C12): the
"epoch is present" test is `':' in nevra`, so a colon in the directory part lets a name WITHOUT epoch through; it is
filed under epoch 0. -/
theorem C13_check_nevra_colon_elsewhere_witness :
    (checkNevra "a:b/foo-1.0-1.src".toList).toOption
      = some ("foo-0:1.0-1.src".toList,
              { name := some "foo".toList, epoch := 0, version := some "1.0".toList, release := some "1".toList,
                arch := some "src".toList }) := by decide +kernel

/-! ### the property's own alphabets and the library's architecture table -/
/-- letters, digits, `.`, `_`, `+` and the segment separator `-` -/
def nameChar (c : Char) : Bool := c.isAlphanum || c == '.' || c == '_' || c == '+' || c == '-'
/-- letters, digits, `.`, `_`, `+`, `~`, `^` -/
def vrChar (c : Char) : Bool := c.isAlphanum || c == '.' || c == '_' || c == '+' || c == '~' || c == '^'

theorem not_mem_of_all {p : Char → Bool} {s : Str} {x : Char} (h : ∀ c ∈ s, p c = true) (hx : p x = false) : x ∉ s :=
  fun hm => by rw [h x hm] at hx; cases hx

/-- The statement with the quantifier of the property: names made of dash-separated segments over letters, digits,
`.`, `_`, `+` (all-digit segments included; segments need not even be non-empty), versions and releases over letters,
digits, `.`, `_`, `+`, `~`, `^`, every architecture of the regenerated `RPM_ARCHES`, any directory prefix. -/
theorem C13_parse_table_partial (dir name : Str) (ep : Option Nat) (ver rel arch : Str) (rpm : Bool)
    (hdir : dir = [] ∨ ∃ d, dir = d ++ ['/']) (hdirnl : '\n' ∉ dir)
    (hname : ∀ c ∈ name, nameChar c = true) (hver : ∀ c ∈ ver, vrChar c = true) (hrel : ∀ c ∈ rel, vrChar c = true)
    (harch : arch ∈ Gen.RPM_ARCHES) (hlim : EpochWithinIntLimit ep) :
    parseNvra (fmtNvra dir name ep ver rel arch rpm)
      = .ok { name := some name, epoch := ep.getD 0, version := some ver, release := some rel, arch := some arch } := by
  obtain ⟨a1, a2, a3, a4, a5⟩ := C13_arches arch harch
  exact C13_parse_partial dir name ep ver rel arch rpm
    { dir_shape := hdir, dir_nl := hdirnl
      name_nl := not_mem_of_all hname (by decide), name_slash := not_mem_of_all hname (by decide)
      ver_nl := not_mem_of_all hver (by decide), ver_slash := not_mem_of_all hver (by decide)
      ver_dash := not_mem_of_all hver (by decide), ver_colon := fun _ => not_mem_of_all hver (by decide)
      rel_nl := not_mem_of_all hrel (by decide), rel_slash := not_mem_of_all hrel (by decide)
      rel_dash := not_mem_of_all hrel (by decide)
      arch_nl := a4, arch_slash := a3, arch_dash := a1, arch_dot := a2 } (fun _ => a5) hlim

/-- **Canonical re-formatting then parsing is a fixed point**: the parts parsed from any string of the documented
shape, re-formatted as `name-epoch:version-release.arch` (`Rpms._check_nevra`), parse to the same parts, and
re-formatting those gives the same canonical string. -/
theorem C13_fixpoint_partial (dir name : Str) (ep : Option Nat) (ver rel arch : Str) (rpm : Bool)
    (h : Dom dir name ep ver rel arch) (harch : arch ≠ ['r', 'p', 'm']) (hlim : EpochWithinIntLimit ep) :
    ∃ p, parseNvra (fmtNvra dir name ep ver rel arch rpm) = .ok p ∧ parseNvra (canonNvra p) = .ok p := by
  refine ⟨_, C13_parse_partial dir name ep ver rel arch rpm h (fun _ => harch) hlim, ?_⟩
  have hd : Dom [] name (some (ep.getD 0)) ver rel arch :=
    { h with dir_shape := Or.inl rfl, dir_nl := by simp, ver_colon := fun e => by cases e }
  have hl : EpochWithinIntLimit (some (ep.getD 0)) := by
    intro e he
    cases he
    cases ep with
    | none => exact Nat.le_trans (natStr_len 0 1 (by decide) (by decide)) (by decide)
    | some e => exact hlim e rfl
  have := C13_parse_partial [] name (some (ep.getD 0)) ver rel arch false hd (fun _ => harch) hl
  simpa [fmtNvra, fmtBase, epStr, canonNvra, pctS] using this

/-- **The key `Rpms.add` files a package under** (`Rpms._check_nevra`): for a string of the documented shape that
carries an epoch, the canonical `name-epoch:version-release.arch` together with the parts; and that key is a fixed
point of the key computation. -/
theorem C13_check_nevra_partial (dir name : Str) (e : Nat) (ver rel arch : Str) (rpm : Bool)
    (h : Dom dir name (some e) ver rel arch) (harch : arch ≠ ['r', 'p', 'm']) (hlim : EpochWithinIntLimit (some e)) :
    let p : Nvra := { name := some name, epoch := e, version := some ver, release := some rel, arch := some arch }
    checkNevra (fmtNvra dir name (some e) ver rel arch rpm) = .ok (canonNvra p, p)
    ∧ checkNevra (canonNvra p) = .ok (canonNvra p, p) := by
  intro p
  have h1 := C13_parse_partial dir name (some e) ver rel arch rpm h (fun _ => harch) hlim
  have hd : Dom [] name (some e) ver rel arch :=
    { h with dir_shape := Or.inl rfl, dir_nl := by simp }
  have h2 := C13_parse_partial [] name (some e) ver rel arch false hd (fun _ => harch) hlim
  have hc : canonNvra p = fmtNvra [] name (some e) ver rel arch false := by
    simp [p, fmtNvra, fmtBase, epStr, canonNvra, pctS]
  constructor
  · have : (fmtNvra dir name (some e) ver rel arch rpm).contains ':' = true := by
      simp [fmtNvra, fmtBase, epStr]
    simp only [checkNevra, this, h1]
    rfl
  · have h2' : parseNvra (canonNvra p) = .ok p := by rw [hc]; exact h2
    have : (canonNvra p).contains ':' = true := by
      rw [hc]; simp [fmtNvra, fmtBase, epStr]
    simp only [checkNevra, this, h2']
    rfl

/-! ### non-vacuity: concrete members of the domain, evaluated by the kernel -/
example : Dom "Packages/g/".toList "glibc-common-2".toList (some 12) "2.17".toList "78.el7".toList "x86_64".toList :=
  { dir_shape := Or.inr ⟨"Packages/g".toList, rfl⟩, dir_nl := by decide, name_nl := by decide, name_slash := by decide,
    ver_nl := by decide, ver_slash := by decide, ver_dash := by decide, ver_colon := (fun h => by cases h),
    rel_nl := by decide, rel_slash := by decide, rel_dash := by decide, arch_nl := by decide, arch_slash := by decide,
    arch_dash := by decide, arch_dot := by decide }
example : EpochWithinIntLimit (some 12) := by intro e he; cases he; decide
example : (parseNvra "Packages/g/glibc-common-2-12:2.17-78.el7.x86_64.rpm".toList).toOption
    = some { name := some "glibc-common-2".toList, epoch := 12, version := some "2.17".toList,
             release := some "78.el7".toList, arch := some "x86_64".toList } := by decide +kernel
example : (match parseNvra "a-1-1".toList with | .error .valueError => true | _ => false) = true := by decide +kernel
example : "x86_64".toList ∈ Gen.RPM_ARCHES := by decide
-- outside the property's domain: a slash after the last admissible split stays in the architecture; a digit run
-- followed by a colon is only an epoch when the rest still splits
example : (Spec.parseNvraDirect "a-1-1.x/b".toList).toOption
    = some { name := some "a".toList, epoch := 0, version := some "1".toList, release := some "1".toList,
             arch := some "x/b".toList } := by decide +kernel
example : (Spec.parseNvraDirect "n-7:v.w".toList).toOption = none := by decide +kernel
example : isEol ("a-1-1.x\n\n".toList.dropWhile Cls.any.mem) = false := by decide

end PM
