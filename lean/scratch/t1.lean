import ProductMD.Model.Forest
open PM PM.Forest
example : "parent".toList = ['p','a','r','e','n','t'] := rfl
example : "parent".toList = ['p','a','r','e','n','t'] := by decide
example (U s v) : (toObj U s v).get "parent".toList = parentVal U s v := rfl
example (o) : customs "composeinfo.Variant._validate_uid".toList o = ciVariantUid o := rfl
example (a b : Str) (h : PyVal.pyEq (.str a) (.str b) = true) : a = b := by
  simpa [PyVal.pyEq, PyVal.canon, PyVal.beq] using h
