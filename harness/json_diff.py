"""Differential validation of the JSON reader model (Model/JsonParse.lean) against the real CPython `json.loads`.

Three streams of texts:
  (a) printer    `json.dumps(v, indent=4, sort_keys=True, separators=(",", ": "))` of random values (what the library writes);
  (b) layouts    the same values through other indent / separators / ensure_ascii / sort_keys settings;
  (c) mutated    random edits of valid texts, token soups and hand-picked boundary texts.
Model and CPython must agree on accept/reject and, when accepted, on the value INCLUDING the order of dict keys.
Floats: the model carries the literal token, never a value; compared through `repr(float(token))`.
A text whose value contains a lone surrogate is outside the model (Lean `Char` cannot hold it): the model must answer
`Other`; conversely `Other` is only accepted when CPython's value contains a lone surrogate or CPython rejects the text.
"""
import json, math, re, sys

VALUE_ERR = "ValueError"


# ------------------------------------------------------------------------------------------------ real side
def enc(v):
    """order-preserving canonical form of a decoded value (the driver's `json_parse_ord` encoding)"""
    if isinstance(v, bool) or v is None or isinstance(v, str):
        return v
    if isinstance(v, int):
        return {"$int": str(v)}
    if isinstance(v, float):
        return {"$float": repr(v)}
    if isinstance(v, list):
        return [enc(x) for x in v]
    if isinstance(v, dict):
        return {"$dict": [[k, enc(x)] for k, x in v.items()]}
    raise TypeError(type(v))


def has_lone_surrogate(v):
    if isinstance(v, str):
        return any(0xD800 <= ord(c) <= 0xDFFF for c in v)
    if isinstance(v, list):
        return any(has_lone_surrogate(x) for x in v)
    if isinstance(v, dict):
        return any(has_lone_surrogate(k) or has_lone_surrogate(x) for k, x in v.items())
    return False


def real_loads(text, lim=4300):
    old = sys.get_int_max_str_digits()
    sys.set_int_max_str_digits(lim)
    try:
        try:
            v = json.loads(text)
        except RecursionError:
            return {"skip": "RecursionError"}
        except ValueError:                       # json.JSONDecodeError and int()'s digit limit
            return {"err": VALUE_ERR}
        if has_lone_surrogate(v):
            return {"lone": True}
        sys.set_int_max_str_digits(0)
        return {"ok": enc(v)}
    finally:
        sys.set_int_max_str_digits(old)


def norm_model(o):
    """model output → comparable form: float tokens through repr(float(token))"""
    def f(x):
        if isinstance(x, list):
            return [f(y) for y in x]
        if isinstance(x, dict):
            if "$float" in x:
                try:
                    return {"$float": repr(float(x["$float"]))}
                except ValueError:                      # a token that is no float literal: a disagreement, not a crash
                    return {"$float": "<not a float literal: %r>" % x["$float"]}
            if "$dict" in x:
                return {"$dict": [[k, f(y)] for k, y in x["$dict"]]}
        return x
    if "ok" in o:
        return {"ok": f(o["ok"])}
    return o


# ------------------------------------------------------------------------------------------------ generators
STR_POOL = ["", "a", "key", "Fedora 23", "x86_64", 'q"uo\\te', "tab\there", "nl\nnl", "\r", "\x00", "\x01\x1f", "\x08\x0c", "\x7f", "\x80\x9f",
            "\xe9", " sep ", "퟿", "￿￾", "\U00010000", "\U0001f600 astral", "\U0010ffff", "/slash/", "\\u0041",
            "\\", '"', "null", "1.5", " lead", "trail ", "{}", "[]", ":", ","]
FLOATS = [0.0, -0.0, 1.5, -2.25, 1e16, 1e22, 1.5e-7, 1e-320, 5e-324, 1.7976931348623157e308, 123456789.125, 0.1, 1 / 3.0, 1e15, 9007199254740993.0,
          float("inf"), float("-inf"), float("nan")]


def gen_str(rng):
    r = rng.random()
    if r < 0.5:
        return rng.choice(STR_POOL)
    if r < 0.8:
        return "".join(rng.choice(STR_POOL) for _ in range(rng.randint(0, 4)))
    out = []
    for _ in range(rng.randint(0, 12)):
        k = rng.random()
        if k < 0.3:
            cp = rng.randint(0, 0x7f)
        elif k < 0.6:
            cp = rng.randint(0x80, 0xffff)
            if 0xD800 <= cp <= 0xDFFF:
                cp = 0xe9
        else:
            cp = rng.randint(0x10000, 0x10ffff)
        out.append(chr(cp))
    return "".join(out)


def gen_int(rng):
    r = rng.random()
    if r < 0.5:
        return rng.randint(-20, 20)
    if r < 0.8:
        return rng.choice([1, -1]) * rng.randint(0, 10 ** rng.randint(1, 40))
    if r < 0.97:
        return rng.choice([0, 10, 100, 10 ** 18, 2 ** 63, 2 ** 64 - 1, -2 ** 63, 10 ** 100, 10 ** 639, 10 ** 640, 10 ** 641])
    return rng.choice([1, -1]) * rng.choice([10 ** 4299, 10 ** 4300 - 1, 10 ** 4300, 10 ** 4301 + 7])     # around int()'s digit limit


def gen_value(rng, depth=0, floats=True, lone=False):
    r = rng.random()
    if depth >= 5 or r < 0.45:
        k = rng.random()
        if k < 0.25:
            return gen_int(rng)
        if k < 0.55:
            s = gen_str(rng)
            if lone and rng.random() < 0.2:
                s += rng.choice(["\ud800", "\udc00", "\udbff x", "\udc00\ud800", "\ud800𐀀"])
            return s
        if k < 0.65:
            return rng.choice([True, False])
        if k < 0.75:
            return None
        if k < 0.85 and floats:
            return rng.choice(FLOATS) if rng.random() < 0.6 else rng.uniform(-1e6, 1e6) * 10.0 ** rng.randint(-30, 30)
        return rng.choice([[], {}])
    if r < 0.7:
        return [gen_value(rng, depth + 1, floats, lone) for _ in range(rng.randint(0, 4))]
    d = {}
    for _ in range(rng.randint(0, 4)):
        d[gen_str(rng)] = gen_value(rng, depth + 1, floats, lone)
    return d


def unlimited(f):
    """run with int<->str conversion unlimited (the generator also writes integers beyond the default limit)"""
    def g(*a, **k):
        old = sys.get_int_max_str_digits()
        sys.set_int_max_str_digits(0)
        try:
            return f(*a, **k)
        finally:
            sys.set_int_max_str_digits(old)
    return g


@unlimited
def dumps_lib(v):
    return json.dumps(v, indent=4, sort_keys=True, separators=(",", ": "))


@unlimited
def dumps_other(rng, v):
    indent = rng.choice([None, None, 0, 1, 2, 4, 7, "\t", " \t"])
    seps = rng.choice([None, (",", ":"), (", ", ": "), (" , ", " : "), (",\n", ":\t"), (",\r\n", " :\r")])
    return json.dumps(v, indent=indent, separators=seps, ensure_ascii=rng.random() < 0.4, sort_keys=rng.random() < 0.5)


INS_POOL = list('"\\{}[],:-+.eE0123456789 \t\n\r/bfnrtuaAdDxX') + ["\x0c", "\x00", "\x1f", "\x7f", "\xa0", "﻿", "١", "\U0001f600", "\\u", "\\ud800",
           "\\udc00", "\\uD83D", "\\uDE00", "\\u00e9", "null", "true", "false", "NaN", "Infinity", "-Infinity", "-", "1e", "0", "00", "[]", "{}", '""',
           "\\/", "\\x", "\\'", "'", ",,", "::", " ", "\x85", "\x1c"]
TOKENS = ["{", "}", "[", "]", ",", ":", '"a"', '"b"', '"a"', '""', '"\\u12"', '"\\u00e9"', '"\\ud83d\\ude00"', '"\\ud83d"', '"\\ude00"', '"\\ud83d\\u0041"',
          '"\\ud83d\\ud83d\\ude00"', '"\\ud83d\\ude0"', '"\\ud83d\\uZZZZ"', '"\\ud83d\\', '"\\ud83d\\u', '"\\uDBFF\\uDFFF"', '"\\uDBFF\\uE000"', '"\\uD7FF\\uDC00"',
          '"\\n\\t\\r\\b\\f\\/\\\\\\""', '"\\a"', '"\\U0041"', '"\\u004G"', '"\\u+041"', '"\\u 041"', '"\\u00AF\\u00af"', '"a\tb"', '"a\nb"', '"\x7f"',
          "1", "-0", "0", "01", "-01", "1.5", "1.50", "1.", ".5", "1e5", "1E+5", "1e-5", "1e", "1e+", "1E-", "1.5e", "1.e5", "-", "--1", "+1", "0x10", "1_0",
          "0e0", "0.0e-0", "-0.0", "1e400", "123456789012345678901234567890", "true", "false", "null", "tru", "nul", "truee", "True", "None", "NaN",
          "nan", "Infinity", "-Infinity", "-Inf", "-Infinit", "+Infinity", "-NaN", "Infinityy", " ", "  ", "\t", "\n", "\r", "\x0c", "\x0b", "\xa0", "﻿", " ",
          "١", "1١", "//", "/**/", "'a'", "a", '"', "\\", "\x00", '"\x00"', "1" * 4300, "1" * 4301, "-" + "9" * 4301, "1" * 4301 + ".0", "1" * 4301 + "e1"]
FIXED = ["", " ", "[", "]", "{", "}", "[[[[", "{{{{", '{"a"', '{"a":', '{"a":1', '{"a":1,', '{"a":1,}', "[1,]", "[,]", "[1 2]", "[1,,2]", '{"a":1 "b":2}',
         '{"a":1,"b":2,"a":3}', '{"a":{"x":1},"b":2,"a":{"y":2}}', '{"b":1,"a":2}', '{1:2}', "{'a':1}", '{"a" : 1 , "b" : [ ] }', "[ ]", "{ }", " [ 1 , 2 ] ",
         "\t\n\r [1]\t\n\r ", "[1]x", "[1] [2]", "1 2", "nullnull", "truex", '"abc', '"abc\\', '"abc\\"', '"\\u1234', '"\\u123"', '"\\ud800\\udc00', '"\\ud800\\udc00"',
         '"\\ud800\\udc0"', '"\\ud800\\udc"', "﻿[]", "[]﻿", "\x0c[]", "[]\x0c", "[" * 300 + "]" * 300, "[" * 300, '{"a":' * 200 + "1" + "}" * 200,
         "[" + ",".join(["1"] * 500) + "]", '"' + "a" * 3000 + '"', "-Infinity", "-Infinityx", "- Infinity", "-\nInfinity", "[NaN,Infinity,-Infinity]", "[-]",
         "[-I]", "-0", "[-0, -0.0, 0.0, 0e1]", "1.5e+10", "1.5E-10x", "[1.5.5]", "[1e5e5]", "[1e5.5]", "[1-1]", "[1+1]", "0.", "0.e1", "00", "-00", "0123",
         "1" * 640, "1" * 641, "1" * 4300, "1" * 4301, "[" + "1" * 4301 + "]", "-" + "1" * 4300, "-" + "1" * 4301, "0." + "1" * 5000, "1e" + "1" * 5000]


def mutate(rng, t):
    for _ in range(rng.randint(1, 3)):
        if not t:
            return rng.choice(INS_POOL)
        i = rng.randrange(len(t) + 1)
        k = rng.random()
        if k < 0.3:
            t = t[:i] + t[i + 1:]
        elif k < 0.6:
            t = t[:i] + rng.choice(INS_POOL) + t[i:]
        elif k < 0.75:
            t = t[:i] + rng.choice(INS_POOL) + t[i + 1:]
        elif k < 0.85:
            t = t[:i]
        elif k < 0.92:
            j = rng.randrange(len(t) + 1)
            a, b = min(i, j), max(i, j)
            t = t[:b] + t[a:b] + t[b:]
        else:
            j = rng.randrange(len(t) + 1)
            a, b = min(i, j), max(i, j)
            t = t[:a] + t[b:]
    return t


def sendable(t):
    """the protocol carries Unicode scalar values only"""
    return not any(0xD800 <= ord(c) <= 0xDFFF for c in t)


def gen_texts(rng, n):
    out = []
    na = n // 3
    nb = n // 4
    vals = []
    for i in range(na):
        v = gen_value(rng, lone=(i % 10 == 9))
        vals.append(v)
        out.append(("printer", dumps_lib(v)))
    for i in range(nb):
        v = vals[i % len(vals)] if vals and rng.random() < 0.5 else gen_value(rng, lone=(i % 10 == 9))
        t = dumps_other(rng, v)
        if sendable(t):
            out.append(("layouts", t))
    for t in FIXED:
        out.append(("mutated", t))
    while len(out) < n + len(FIXED):
        r = rng.random()
        if r < 0.55:
            base = rng.choice(out)[1] if out else "[]"
            if len(base) > 4000:
                base = "[]"
            t = mutate(rng, base)
        elif r < 0.9:
            t = "".join(rng.choice(TOKENS) + rng.choice(["", "", " ", "\n"]) for _ in range(rng.randint(1, 8)))
        else:
            t = "".join(rng.choice(INS_POOL) for _ in range(rng.randint(0, 10)))
        if sendable(t):
            out.append(("mutated", t))
    return out


# ------------------------------------------------------------------------------------------------ comparison
SURROGATE_ESCAPE = re.compile(r"\\u[dD][89a-fA-F][0-9a-fA-F]{2}")


def compare_one(text, real, model):
    """None when model and CPython agree; otherwise a short reason"""
    m = norm_model(model)
    if "skip" in real:
        return None
    if "lone" in real:
        return None if m == {"err": "Other"} else "cpython yields a lone surrogate, model must answer Other"
    if m == {"err": "Other"}:
        # legitimate only at a surrogate escape (it is also the model's out-of-fuel answer, which must never show)
        if not SURROGATE_ESCAPE.search(text):
            return "model answers Other on a text without a surrogate escape"
        return None if "err" in real else "model answers Other on a text CPython reads without lone surrogates"
    if real != m:
        return "value" if ("ok" in real and "ok" in m) else "accept/reject"
    return None


def run(driver, rng, n, lim_cases=True):
    """returns (stats, bad): stats per stream, bad = list of disagreements"""
    texts = gen_texts(rng, n)
    reqs = [{"op": "json_parse_ord", "args": {"text": t}} for _, t in texts]
    outs = driver.call(reqs)
    stats, bad = {}, []
    for (stream, t), o in zip(texts, outs):
        r = real_loads(t)
        s = stats.setdefault(stream, {"texts": 0, "accepted": 0, "rejected": 0, "outside_model": 0, "disagreements": 0})
        s["texts"] += 1
        if "ok" in r:
            s["accepted"] += 1
        elif "err" in r:
            s["rejected"] += 1
        else:
            s["outside_model"] += 1
        why = compare_one(t, r, o)
        if why:
            s["disagreements"] += 1
            bad.append({"text": t, "lim": 4300, "real": r, "model": o, "why": why, "stream": stream})
    if lim_cases:
        # the int/str digit limit as a parameter: 0 = disabled, and another legal setting
        lt = ["1" * 4301, "-" + "7" * 5000, "[" + "1" * 4301 + ", 2]", "1" * 700, "1" * 1001, "1" * 1000, "9" * 641, "9" * 640, dumps_lib({"n": 10 ** 4400, "m": [-10 ** 999]})]
        s = stats.setdefault("int_limit", {"texts": 0, "accepted": 0, "rejected": 0, "outside_model": 0, "disagreements": 0})
        for lim in (0, 1000, 640):
            outs = driver.call([{"op": "json_parse_ord", "args": {"text": t, "lim": lim}} for t in lt])
            for t, o in zip(lt, outs):
                r = real_loads(t, lim)
                s["texts"] += 1
                s["accepted" if "ok" in r else "rejected"] += 1
                why = compare_one(t, r, o)
                if why:
                    s["disagreements"] += 1
                    bad.append({"text": t, "lim": lim, "real": r, "model": o, "why": why, "stream": "int_limit"})
    return stats, bad


FLOAT_RE = re.compile(r"-?(?:0|[1-9][0-9]*)(\.[0-9]+)?([eE][-+]?[0-9]+)?")


def float_tok_spec(tok):
    """the documented language of `floatTok`: JSON number with a fraction or an exponent, or one of the three words"""
    if tok in ("NaN", "Infinity", "-Infinity"):
        return True
    m = FLOAT_RE.fullmatch(tok)
    return bool(m) and (m.group(1) is not None or m.group(2) is not None)


def float_tokens(driver, rng, n):
    """`floatTok` (the side condition of the round-trip theorem on float tokens) holds of everything json.dumps writes for a
    float, and coincides with the documented language on mutated tokens"""
    toks, must = [], []
    for i in range(n):
        x = rng.choice(FLOATS) if i % 3 == 0 else rng.uniform(-10, 10) * 10.0 ** rng.randint(-320, 308)
        toks.append(json.dumps(x)); must.append(True)                     # what the printer writes for a float
    for i in range(n):
        t = mutate(rng, repr(rng.uniform(-10, 10) * 10.0 ** rng.randint(-30, 30)))
        if sendable(t):
            toks.append(t); must.append(None)
    for t in ["1", "-1", "0", "1.", ".5", "1e", "1e+", "01.5", "1.5x", " 1.5", "1.5 ", "inf", "nan", "-inf", "1.5e5.5", "--1.5", "+1.5", "1E5", "1e-0",
              "0.0", "-0.0", "0e0", "00.0", "1.0e+07", "١.٥", "1.٥", "", "-", "e5", "1e5e", "Infinity ", "-NaN", "infinity"]:
        toks.append(t); must.append(None)
    outs = driver.call([{"op": "json_float_tok", "args": {"tok": t}} for t in toks])
    bad = []
    for t, m, o in zip(toks, must, outs):
        exp = float_tok_spec(t)
        if o is not exp or (m is True and o is not True):
            bad.append({"tok": t, "model": o, "spec": exp, "printed_by_json_dumps": bool(m)})
    return len(toks), bad


def render_check(driver, rng, n):
    """the printer model on the same value distribution (floats excluded: the model carries repr tokens), incl. a nested start level"""
    vals = [gen_value(rng, floats=False) for _ in range(n)]
    vals = [v for v in vals if abs_small(v) and sendable(json.dumps(v, ensure_ascii=False))]
    outs = driver.call([{"op": "json_render", "args": {"value": v}} for v in vals])
    bad = [{"value": v, "real": dumps_lib(v), "model": o} for v, o in zip(vals, outs) if dumps_lib(v) != o]
    return len(vals), bad


@unlimited
def abs_small(v):
    """ints the protocol's own JSON layer can carry"""
    if isinstance(v, bool):
        return True
    if isinstance(v, int):
        return abs(v) < 10 ** 600
    if isinstance(v, list):
        return all(abs_small(x) for x in v)
    if isinstance(v, dict):
        return all(abs_small(x) and "$" not in k[:1] for k, x in v.items())
    return True


if __name__ == "__main__":
    import random
    import checklib
    n = int(sys.argv[1]) if len(sys.argv) > 1 else 3000
    seed = int(sys.argv[2]) if len(sys.argv) > 2 else 0
    drv = checklib.Driver()
    stats, bad = run(drv, random.Random(seed), n)
    print(json.dumps(stats, indent=1))
    for b in bad[:10]:
        print("DISAGREEMENT", json.dumps({k: (v if k != "text" else v[:300]) for k, v in b.items()})[:1500])
    nf, fbad = float_tokens(drv, random.Random(seed + 2), max(50, n // 10))
    print("float tokens vs documented language / json.dumps: %d tokens, %d disagreements" % (nf, len(fbad)))
    for b in fbad[:3]:
        print("FLOATTOK-DISAGREEMENT", json.dumps(b))
    bad = bad + fbad
    nr, rbad = render_check(drv, random.Random(seed + 1), max(50, n // 10))
    print("printer model vs json.dumps: %d values, %d disagreements" % (nr, len(rbad)))
    for b in rbad[:3]:
        print("RENDER-DISAGREEMENT", json.dumps(b)[:800])
    sys.exit(1 if bad or rbad else 0)
