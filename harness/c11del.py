"""C11, `del` stream: histories of add / del steps on the variant forest (VariantBase.__delitem__).

case = {"op": "c11del", "args": {"variants": [attrs ...], "ops": [{"t": "add", "c", "v", "key": None, "kind"} |
                                                                    {"t": "del", "c", "name", "kind"}]}}
real():   every step on the real library; for a del: `container[name]` BEFORE the statement (which object the lookup names), the
          outcome class, the edges that disappeared; after every step the snapshot of props/c11 (`_snap`: children dicts, parent
          pointers, ci[uid] of EVERY object incl. removed ones) and ci.get_variants(recursive=True).
model:    driver op c11_del_history (PM.Forest.delitem / delResolve / add / getitem / getVariants).
oracle(): the property on what was recorded from the real objects (invariants after every step; a successful del removes exactly
          the entry the lookup names and nothing else; the removed variant and what hung below it are no longer returned by
          get_variants / ci[uid]; a raising del is a KeyError, for a name the lookup does not find, and changes nothing).
"""
import json
import checklib


def _c11():
    from props import c11
    return c11


def _edges_of(snap):
    out = [(None, k, v) for k, v in snap["top"]]
    for p, l in enumerate(snap["kids"]):
        out.extend((p, k, v) for k, v in l)
    return out


def _below(snap, v):
    out, stack = [], [v]
    seen = set()
    while stack:
        x = stack.pop()
        if x in seen or x < 0:
            continue
        seen.add(x); out.append(x)
        stack.extend(w for _, w in snap["kids"][x])
    return out


# ------------------------------------------------------------------------------------------------ real side
def execute(case):
    c11 = _c11()
    a = case["args"]
    ci = c11._mk_ci()
    objs = [c11._mk_variant(ci, x) for x in a["variants"]]
    idx = dict((id(o), i) for i, o in enumerate(objs))
    steps = []
    for op in a["ops"]:
        cont = ci.variants if op["c"] is None else objs[op["c"]]
        st_extra = {}
        if op["t"] == "del":
            st_extra["before"] = c11._res(lambda: idx.get(id(cont[op["name"]]), -1))
            try:
                del cont[op["name"]]
                out = "ok"
            except RecursionError:
                out = "RuntimeError"
            except Exception as e:  # noqa
                out = type(e).__name__
        else:
            try:
                cont.add(objs[op["v"]])
                out = "ok"
            except RecursionError:
                out = "RuntimeError"
            except Exception as e:  # noqa
                out = type(e).__name__
        st = c11._snap(ci, objs)
        st["out"] = out
        st["gvall"] = c11._res(lambda: [idx.get(id(v), -1) for v in ci.get_variants(recursive=True)])
        st.update(st_extra)
        steps.append(st)
    return {"steps": steps}


# ------------------------------------------------------------------------------------------------ model side
def model_requests(case):
    a = case["args"]
    ops = []
    for o in a["ops"]:
        if o["t"] == "del":
            ops.append({"t": "del", "c": o["c"], "name": o["name"]})
        else:
            ops.append({"t": "add", "c": o["c"], "v": o["v"], "key": None})
    return [{"op": "c11_del_history", "args": {"variants": a["variants"], "ops": ops, "queries": [], "fuel": 900}}]


def _removed(prev, st):
    now = _edges_of(st)
    left = list(now)
    gone = []
    for e in _edges_of(prev):
        if e in left:
            left.remove(e)
        else:
            gone.append(e)
    return gone, left          # left: edges that appeared


def _proj(case, steps, real):
    out = []
    prev = {"top": [], "kids": [[] for _ in case["args"]["variants"]]}
    for op, s in zip(case["args"]["ops"], steps):
        d = {"out": s["out"], "top": s["top"], "kids": s["kids"], "parent": s["parent"], "byuid": s["byuid"], "gvall": s["gvall"]}
        if op["t"] == "del":
            d["before"] = s["before"]
            if real:
                gone, _ = _removed(prev, s)
                d["target"] = [list(g) for g in gone] if s["out"] == "ok" else s["out"]
            else:
                t = s["target"]
                d["target"] = [t] if isinstance(t, list) else t
        prev = s
        out.append(d)
    return out


def compare(case, real_out, model_out):
    r = _proj(case, real_out["steps"], True)
    m = _proj(case, model_out[0]["steps"], False)
    for i, (x, y) in enumerate(zip(r, m)):
        if x != y:
            keys = [k for k in x if x[k] != y.get(k)]
            return {"real": {"step": i, "op": case["args"]["ops"][i], "differs": keys, "snap": dict((k, x[k]) for k in keys)},
                    "model": {"step": i, "snap": dict((k, y.get(k)) for k in keys)}}
    if len(r) != len(m):
        return {"real": {"steps": len(r)}, "model": {"steps": len(m)}}
    return None


# ------------------------------------------------------------------------------------------------ the property (oracle)
def oracle_run(case, out):
    c11 = _c11()
    a = case["args"]
    attrs = a["variants"]
    fails = []

    def fail(kind, observed, required, facts, step=None):
        fails.append({"kind": kind, "observed": {"got": observed, "facts": facts, "step": step}, "required": required})
        return True
    prev = {"top": [], "kids": [[] for _ in attrs], "parent": [None] * len(attrs)}
    for t, (op, st) in enumerate(zip(a["ops"], out["steps"])):
        def sfail(kind, observed, required, facts, t=t):
            return fail(kind, observed, required, facts, step=t)
        if st["attrs"] != [c11._view(x) for x in attrs]:
            sfail("attrs-changed", st["attrs"], [c11._view(x) for x in attrs], {})
        if st.get("reads_mutated"):
            sfail("read-mutated-state", "reads_mutated", "read-only calls leave the forest unchanged", {})
        if st.get("lookup_not_repeatable"):
            sfail("lookup-not-repeatable", "lookup_not_repeatable", "the same lookup twice gives the same variant", {})
        same = all(st[k] == prev[k] for k in ("top", "kids", "parent"))
        if op["t"] == "del":
            name, c = op["name"], op["c"]
            gone, came = _removed(prev, st)
            before = st["before"]
            lvl = prev["top"] if c is None else prev["kids"][c]
            found = before.get("ok") if "ok" in before and before["ok"] >= 0 else None
            facts = {"name": name, "container": None if c is None else attrs[c]["uid"],
                     "looked_up": None if found is None else attrs[found]["uid"],
                     # the lookup's UID scan named a DIRECT child of the container that is not filed under `name` (dashed top-level UID,
                     # or a child's full UID asked of its parent): __delitem__ has no UID scan
                     "found_by_uid_scan": found is not None and name not in dict(lvl) and any(w == found and attrs[w]["uid"] == name for _, w in lvl),
                     # F27: the lookup returned a variant whose UID is not the name asked for
                     "lookup_uid_differs": found is not None and attrs[found]["uid"] != name and name not in dict(lvl)}
            if st["out"] == "ok":
                if came or len(gone) != 1:
                    sfail("del-frame", {"removed": [list(g) for g in gone], "appeared": [list(g) for g in came]},
                          "a successful del removes exactly one entry and adds none", facts)
                else:
                    p, k, v = gone[0]
                    facts["removed"] = attrs[v]["uid"]
                    if found is None:
                        sfail("del-ok-but-not-found", {"removed": attrs[v]["uid"], "lookup": before}, "del removes what container[name] names", facts)
                    elif found != v:
                        sfail("del-removes-other", {"removed": attrs[v]["uid"], "lookup": attrs[found]["uid"], "same_object": False},
                              "del container[name] removes the variant container[name] returns", facts)
                    # order of the survivors
                    for cont_key, was, now in [(None, prev["top"], st["top"])] + [(i, prev["kids"][i], st["kids"][i]) for i in range(len(attrs))]:
                        if [e for e in was if (cont_key, e[0], e[1]) not in gone] != now:
                            sfail("del-frame", {"container": cont_key, "before": was, "after": now}, "other entries keep their order", facts)
                            break
                    # the removed variant and what hangs below it: not returned, not found - unless a variant with that UID is (still) in the forest
                    placed_now = set(c11._placed(st))
                    uids_now = set(attrs[w]["uid"] for w in placed_now)
                    sub = _below(st, v)
                    if any(w in placed_now for w in sub) is False:
                        gv = st["gvall"].get("ok") or []
                        for w in sub:
                            if w in gv:
                                sfail("removed-still-returned", attrs[w]["uid"], "get_variants does not return a removed variant", facts)
                                break
                            r = st["byuid"][w]
                            if r == {"ok": w} or ("ok" in r and attrs[w]["uid"] not in uids_now and not (r["ok"] >= 0 and attrs[r["ok"]]["uid"] != attrs[w]["uid"])):
                                sfail("removed-still-findable", {"uid": attrs[w]["uid"], "lookup": r}, "ci[uid] of a removed variant raises KeyError", facts)
                                break
            else:
                if st["out"] != "KeyError":
                    sfail("del-error-class", st["out"], "KeyError", facts)
                if not same:
                    sfail("refused-del-changed-state", {"removed": [list(g) for g in gone], "appeared": [list(g) for g in came]},
                          "a del that raises changes nothing", facts)
                if found is not None:
                    sfail("del-keyerror-but-found", {"lookup": attrs[found]["uid"], "del": st["out"]},
                          "a name container[name] finds can be deleted", facts)
        else:
            if st["out"] != "ok" and not same:
                sfail("refused-changed-state", st["out"], "a refused add changes nothing", {})
        # the invariants of the property on the real objects after every step, deletions included
        c11.check_state(attrs, st, {}, sfail, check_find=True)
        prev = st
    return fails


def explained(f):
    k, facts = f["kind"], f["observed"]["facts"]
    if k in ("del-removes-other", "del-keyerror-but-found") and (facts.get("found_by_uid_scan") or facts.get("lookup_uid_differs")):
        return True                                                                                           # F48
    return _c11()._explained(f)


# ------------------------------------------------------------------------------------------------ generator
IDS = ["A", "B", "C", "Server", "Tools"]
ARCH = ["x86_64", "i386", "ppc64le"]
MISSING = ["Zz", "", "-", "A-", "-A", "A--B", "Zz-A", "A-Zz", "A-B-Zz", "a", "A-B-C-D", "A -B", "Server-", "--"]


class DelGen(object):
    def __init__(self, rng, tier, nasty):
        self.rng, self.tier, self.nasty = rng, tier, nasty
        self.variants, self.ops = [], []
        self.kids = {None: {}}      # intended forest: container -> {key: obj}  (a mirror for CHOOSING names; never judged)
        self.par = {}               # placed objects -> container
        self.removed = []           # objects taken out by a del (they keep their subtree)

    def new(self, id_, uid, arches, typ="variant"):
        self.variants.append({"id": id_, "uid": uid, "name": "n", "type": typ, "arches": sorted(arches)})
        i = len(self.variants) - 1
        self.kids[i] = {}
        return i

    def depth(self, c):
        d = 0
        while c is not None:
            d += 1; c = self.par.get(c)
        return d

    def in_forest(self, v):
        seen = 0
        while v is not None and seen < 10:
            if v not in self.par:
                return False
            v = self.par[v]; seen += 1
        return True

    def add(self, c, v, kind, expect_ok=True):
        self.ops.append({"t": "add", "c": c, "v": v, "key": None, "kind": kind})
        k = self.variants[v]["id"]
        if expect_ok and k not in self.kids[c] and v not in self.par:
            self.kids[c][k] = v; self.par[v] = c
            if v in self.removed:
                self.removed.remove(v)

    def delete(self, c, name, kind):
        self.ops.append({"t": "del", "c": c, "name": name, "kind": kind})
        # mirror of the walk (first dash, no UID scan)
        cc, nm = c, name
        for _ in range(8):
            if nm in self.kids.get(cc, {}):
                v = self.kids[cc].pop(nm)
                self.par.pop(v, None); self.removed.append(v)
                return
            if "-" not in nm:
                return
            h, nm = nm.split("-", 1)
            if h not in self.kids.get(cc, {}):
                return
            cc = self.kids[cc][h]

    def grow(self):
        r = self.rng
        conts = [None] + [v for v in self.par if self.depth(v) < 3]
        c = r.choice(conts) if r.random() < 0.8 else None
        if c is not None and self.par.get(c) is None and "-" in self.variants[c]["uid"]:
            c = None                         # dashed top-level variants stay childless
        free = [i for i in IDS if i not in self.kids[c]]
        if not self.nasty and c is not None:
            anc, x = set(), c
            while x is not None:
                anc.add(self.variants[x]["id"]); x = self.par.get(x)
            free = [i for i in free if i not in anc]
        if not free:
            return
        id_ = r.choice(free)
        pa = ARCH if c is None else self.variants[c]["arches"]
        uid = id_ if c is None else "%s-%s" % (self.variants[c]["uid"], id_)
        v = self.new(id_, uid, r.sample(pa, r.randint(1, len(pa))), typ=r.choice(["variant", "addon", "optional"]) if c is not None else "variant")
        self.add(c, v, "valid")

    def rel(self, c, v):
        """dashed path of placed `v` relative to container `c` (None when v is not below c)"""
        path, x = [], v
        while x is not None and x != c:
            path.append(self.variants[x]["id"]); x = self.par.get(x, None) if x in self.par else "?"
            if x == "?":
                return None
        if x != c:
            return None
        return "-".join(reversed(path))

    def step(self):
        r = self.rng
        placed = [v for v in self.par if self.in_forest(v)]
        kinds = ["grow"] * 5 + ["del-plain", "del-plain", "del-dashed", "del-dashed", "del-dashed-deep", "del-dashed-deep", "del-dashed-deep", "del-rel", "del-rel", "del-missing", "del-missing-tail", "del-near-miss",
                                "readd", "readd-elsewhere", "grow-removed", "del-twice", "del-parent-lookup"]
        if self.nasty:
            kinds += ["dashtop", "del-uid-of-dashed-top", "del-full-uid-on-variant", "same-as-top", "del-missing"]
        kind = r.choice(kinds)
        if kind == "grow" or not placed:
            return self.grow()
        if kind == "del-plain":
            v = r.choice(placed)
            return self.delete(self.par[v], self.variants[v]["id"], kind)
        if kind in ("del-dashed", "del-dashed-deep", "del-parent-lookup"):
            want = 3 if kind == "del-dashed-deep" else 2
            cand = [v for v in placed if self.depth(v) >= want]
            if kind == "del-parent-lookup":
                cand = [v for v in placed if self.kids[v]]
            if not cand:
                return self.grow()
            v = r.choice(cand)
            return self.delete(None, self.rel(None, v) or self.variants[v]["uid"], kind)
        if kind == "del-rel":
            cand = [v for v in placed if self.depth(v) >= 3]
            if not cand:
                return self.grow()
            v = r.choice(cand)
            c = self.par[self.par[v]]
            return self.delete(c, self.rel(c, v), kind)
        if kind == "del-missing":
            c = r.choice([None] + placed)
            return self.delete(c, r.choice(MISSING), kind)
        if kind == "del-missing-tail":
            v = r.choice(placed)
            nm = (self.rel(None, v) or "A") + "-" + r.choice(["Zz", "", "A", "B-C"])
            return self.delete(None, nm, kind)
        if kind == "del-near-miss":
            # a real path in another spelling: case, blanks, doubled dash (all KeyError unless such a variant exists)
            v = r.choice(placed)
            nm = self.rel(None, v) or "A"
            alt = r.choice([nm.lower(), nm.upper(), nm[0].lower() + nm[1:], " " + nm, nm + " ", nm.replace("-", "--", 1), nm.replace("-", " -", 1), nm.swapcase()])
            return self.delete(None, alt, kind)
        if kind == "del-twice":
            v = r.choice(placed)
            nm = self.rel(None, v)
            self.delete(None, nm, "del-dashed" if "-" in nm else "del-plain")
            return self.delete(None, nm, kind)
        if kind == "readd" and self.removed:
            v = r.choice(self.removed)
            c = None
            u = self.variants[v]["uid"]
            for w in [None] + list(self.par):
                if (w is None and "-" not in u) or (w is not None and u == "%s-%s" % (self.variants[w]["uid"], self.variants[v]["id"])):
                    c = w
            return self.add(c, v, kind)
        if kind == "readd-elsewhere" and self.removed:
            v = r.choice(self.removed)
            return self.add(r.choice([None] + placed), v, kind, expect_ok=False)
        if kind == "grow-removed" and self.removed:
            c = r.choice(self.removed)
            free = [i for i in IDS if i not in self.kids[c]]
            if free and self.variants[c]["uid"].count("-") < 2:
                id_ = r.choice(free)
                v = self.new(id_, "%s-%s" % (self.variants[c]["uid"], id_), self.variants[c]["arches"][:1], typ="addon")
                self.ops.append({"t": "add", "c": c, "v": v, "key": None, "kind": kind})
                self.kids[c][id_] = v; self.par[v] = c
            return
        if kind == "dashtop":
            # top-level variant with a dashed UID (id = UID without the dashes), possibly next to the pair it collides with
            a, b = r.choice(IDS), r.choice(IDS)
            if a + b not in self.kids[None]:
                v = self.new(a + b, "%s-%s" % (a, b), ARCH[:2])
                self.add(None, v, kind)
            return
        if kind == "del-uid-of-dashed-top":
            cand = [v for v in placed if self.par[v] is None and "-" in self.variants[v]["uid"]]
            if not cand:
                return self.step_dashtop()
            return self.delete(None, self.variants[r.choice(cand)]["uid"], kind)
        if kind == "del-full-uid-on-variant":
            cand = [v for v in placed if self.par[v] is not None]
            if not cand:
                return self.grow()
            v = r.choice(cand)
            return self.delete(self.par[v], self.variants[v]["uid"], kind)
        if kind == "same-as-top":
            # a child with the id of a top-level variant (a del on the child must leave the top-level one alone)
            tops = [v for v in placed if self.par[v] is None and "-" not in self.variants[v]["uid"]]
            if not tops:
                return self.grow()
            c = r.choice(tops)
            id_ = self.variants[r.choice(tops)]["id"]
            if id_ in self.kids[c]:
                return self.delete(c, id_, "del-plain")
            v = self.new(id_, "%s-%s" % (self.variants[c]["uid"], id_), self.variants[c]["arches"][:1], typ="addon")
            return self.add(c, v, kind)
        return self.grow()

    def step_dashtop(self):
        a, b = self.rng.choice(IDS), self.rng.choice(IDS)
        if a + b not in self.kids[None]:
            v = self.new(a + b, "%s-%s" % (a, b), ARCH[:2])
            self.add(None, v, "dashtop")

    def case(self):
        n = self.rng.randint(4, 12 if self.tier == "quick" else 18)
        for _ in range(self.rng.randint(2, 5)):
            self.grow()
        guard = 0
        while len(self.ops) < n and guard < 80:
            guard += 1
            self.step()
        return {"op": "c11del", "args": {"variants": self.variants, "ops": self.ops}}


def stats(case, real_out, dist):
    for op, s in zip(case["args"]["ops"], real_out["steps"]):
        k = "del-stream:%s:%s" % (op.get("kind", "?"), s["out"])
        dist[k] = dist.get(k, 0) + 1
        if op["t"] == "del" and s["out"] == "ok":
            shape = "dashed" if "-" in op["name"] else "plain"
            where = "top" if op["c"] is None else "nested"
            dist["del-ok:%s:%s" % (shape, where)] = dist.get("del-ok:%s:%s" % (shape, where), 0) + 1


def shrink_candidates(case):
    a = case["args"]
    out = []
    for i in range(len(a["ops"]) - 1, -1, -1):
        c = json.loads(json.dumps(case))
        del c["args"]["ops"][i]
        out.append(c)
    used = set()
    for o in a["ops"]:
        if o["t"] == "add":
            used.add(o["v"])
        if o["c"] is not None:
            used.add(o["c"])
    if a["variants"] and (len(a["variants"]) - 1) not in used:
        c = json.loads(json.dumps(case))
        c["args"]["variants"].pop()
        out.append(c)
    return out
