"""Pump families and class representatives derived from a pattern's own parse tree (CPython's parser)."""
import re
try:
    import re._parser as sre_parse
    import re._constants as sre_c
except ImportError:
    import sre_parse, sre_constants as sre_c


def class_members(items):
    """a few members of an IN class, and a few non-members"""
    neg = any(op is sre_c.NEGATE for op, _ in items)
    mem = []
    for op, av in items:
        if op is sre_c.LITERAL:
            mem.append(chr(av))
        elif op is sre_c.RANGE:
            mem.append(chr(av[0])); mem.append(chr(av[1]))
        elif op is sre_c.CATEGORY:
            if av is sre_c.CATEGORY_DIGIT:
                mem += ["1", "0", "٣"]
            elif av is sre_c.CATEGORY_WORD:
                mem += ["a", "_"]
            elif av is sre_c.CATEGORY_SPACE:
                mem += [" "]
    if neg:
        pool = ["a", "1", "-", ".", "!", "/", ":", "A", " "]
        return [c for c in pool if c not in mem][:3]
    return mem[:3]


def first_word(node):
    op, av = node
    if op is sre_c.LITERAL:
        return chr(av)
    if op is sre_c.NOT_LITERAL:
        return "a" if av != ord("a") else "b"
    if op is sre_c.ANY:
        return "a"
    if op is sre_c.IN:
        m = class_members(av)
        return m[0] if m else "a"
    if op is sre_c.BRANCH:
        return min_word(list(av[1][0]))
    if op is sre_c.SUBPATTERN:
        return min_word(list(av[3]))
    if op in (sre_c.MAX_REPEAT, sre_c.MIN_REPEAT):
        lo, hi, p = av
        return min_word(list(p)) * lo
    return ""


def min_word(seq):
    return "".join(first_word(n) for n in seq)


def fat_word(seq, reps):
    """like min_word, but every inner repeat is taken max(lo, reps) times (multi-character segments: a loop that is
    only ambiguous when its inner runs are longer than one character needs such a pump)"""
    out = []
    for op, av in seq:
        if op in (sre_c.MAX_REPEAT, sre_c.MIN_REPEAT):
            lo, hi, p = av
            k = max(lo, reps)
            if hi is not sre_c.MAXREPEAT:
                k = min(k, hi)
            out.append(fat_word(list(p), reps) * k)
        elif op is sre_c.SUBPATTERN:
            out.append(fat_word(list(av[3]), reps))
        elif op is sre_c.BRANCH:
            out.append(fat_word(list(av[1][0]), reps))
        else:
            out.append(first_word((op, av)))
    return "".join(out)


def node_chars(seq, out):
    for op, av in seq:
        if op is sre_c.LITERAL:
            out.add(chr(av))
        elif op is sre_c.IN:
            out.update(class_members(av))
        elif op in (sre_c.ANY, sre_c.NOT_LITERAL):
            out.update(["a", "-", "."])
        elif op is sre_c.BRANCH:
            for b in av[1]:
                node_chars(list(b), out)
        elif op is sre_c.SUBPATTERN:
            node_chars(list(av[3]), out)
        elif op in (sre_c.MAX_REPEAT, sre_c.MIN_REPEAT):
            node_chars(list(av[2]), out)
    return out


def loops(seq, prefix=""):
    """yield (prefix reaching the loop, body seq) for every repeat that can iterate more than 8 times"""
    cur = prefix
    for node in seq:
        op, av = node
        if op in (sre_c.MAX_REPEAT, sre_c.MIN_REPEAT):
            lo, hi, p = av
            if hi is sre_c.MAXREPEAT or hi > 8:
                yield cur, list(p)
            for x in loops(list(p), cur):
                yield x
        elif op is sre_c.SUBPATTERN:
            for x in loops(list(av[3]), cur):
                yield x
        elif op is sre_c.BRANCH:
            for b in av[1]:
                for x in loops(list(b), cur):
                    yield x
        cur += first_word(node)


FAILS = ["!", "\n\n", "\x00", " "]


def pump_families(pattern):
    """-> list of (prefix, pump, suffix) with non-empty pump, deduplicated, derived from the pattern"""
    try:
        parsed = list(sre_parse.parse(pattern))
    except Exception:
        return [("", c, "!") for c in "a1-."]
    fams, seen = [], set()
    allch = sorted(node_chars(parsed, set()))
    for prefix, body in loops(parsed):
        pumps = set()
        w = min_word(body)
        if w:
            pumps.add(w)
        for reps in (2, 3):
            fw = fat_word(body, reps)
            if fw and len(fw) <= 12:
                pumps.add(fw)
        chars = sorted(node_chars(body, set()))
        for c in chars:
            pumps.add(c)
        for a in chars[:4]:
            for b in chars[:4]:
                pumps.add(a + b)
        # suffixes that make the whole match FAIL are what forces the engine through every alternative: the generic
        # fail characters, every character the pattern itself mentions (a delimiter in the wrong place), and their doubles
        sufs = FAILS[:2] + [c for c in allch] + [c + c for c in allch if not c.isalnum()]
        for p in sorted(pumps):
            for suf in sufs:
                for pre in (prefix, ""):
                    k = (pre, p, suf)
                    if k not in seen:
                        seen.add(k); fams.append(k)
    if not fams:
        fams = [("", c, "!") for c in (allch[:3] or ["a"])]
    return fams
