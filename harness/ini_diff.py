"""Differential validation of the INI reader/writer model (Model/IniParse.lean) against the real SortedConfigParser."""
import io, re, sys
import checklib


def real_parse(text):
    checklib.use_repo()
    from productmd.common import SortedConfigParser
    p = SortedConfigParser()
    try:
        p.read_file(io.StringIO(text))
    except Exception as e:
        return {"err": type(e).__name__}
    # file order is not observable through SortedDict; compare as sorted lists
    return {"ok": [[s, [[k, v] for k, v in p._sections[s].items()]] for s in p.sections()]}


def real_render(doc):
    checklib.use_repo()
    from productmd.common import SortedConfigParser
    p = SortedConfigParser()
    for s, opts in doc:
        p.add_section(s)
        for k, v in opts:
            p.set(s, k, v)
    f = io.StringIO(); p.write(f)
    return f.getvalue()


ERRMAP = {"DuplicateSectionError": "ParserError", "DuplicateOptionError": "ParserError", "MissingSectionHeaderError": "ParserError",
          "ParsingError": "ParserError"}


def gen_text(rng):
    words = ["a", "key", "Key", "a b", "x=y", "v:1", "", " ", "#c", ";c", "[s]", "[t", "]", "é", "\t", "%", "%(a)s", "%%", "[]", "[ s ]",
             "DEFAULT", " ", " x", "=", ":", "\x0c", "\x1f", "\x85", "tail ",
             # option values with comment prefixes after a blank, delimiters, interpolation syntax, trailing backslash, inner blanks
             "Fedora ;Server", "a #b", "a ; b", "a;b", " ;x", " #x", "x = y", "x: y", "trailing" + chr(92), "t\tb", "nb\u00a0sp",
             "L" + "o" * 300]
    lines = []
    for _ in range(rng.randint(0, 9)):
        r = rng.random()
        if r < 0.25:
            lines.append("[%s]" % rng.choice(["s", "t", "s t", "a]b", "DEFAULT", "x", " pad "]))
        elif r < 0.7:
            lines.append("%s%s%s%s" % (rng.choice(["", "", " ", "\t"]), rng.choice(words), rng.choice([" = ", "=", ":", " : ", " ", ""]), rng.choice(words)))
        else:
            lines.append("".join(rng.choice(words) for _ in range(rng.randint(0, 3))))
    return "\n".join(lines) + rng.choice(["\n", "", "\n\n"])


def sort_doc(d):
    return sorted([[s, sorted(o)] for s, o in d])


def run(driver, rng, n):
    texts = [t for t in (gen_text(rng) for _ in range(n)) if "[DEFAULT" not in t]      # default section: outside the model
    outs = driver.call([{"op": "ini_parse", "args": {"text": t}} for t in texts])
    bad, ok = [], 0
    for t, o in zip(texts, outs):
        r = real_parse(t)
        if "err" in r:
            exp = {"err": ERRMAP.get(r["err"], r["err"])}
            got = o
        else:
            ok += 1
            exp = {"ok": sort_doc(r["ok"])}
            got = {"ok": sort_doc(o["ok"])} if "ok" in o else o
        if exp != got:
            bad.append({"text": t, "real": r, "model": o})
    return len(texts), ok, bad
