"""
Common machinery of every check (DESIGN.md section 6):

  translate -> lake build (property module, driver) -> axiom audit -> corpus + generated cases through the
  real library (tie O: property oracle) and through the Lean model driver (tie C: correspondence)
  -> decide (VIOLATION / KNOWN-FINDING / no-failing-input-found) -> evidence/<id>.json

Exit codes: 0 property held on everything explored; 1 violation (line `VIOLATION property=.. replay=..`);
2 infrastructure failure (never a violation).
"""
import fcntl, glob, hashlib, json, os, random, re, subprocess, sys, time, traceback

ROOT = os.path.dirname(os.path.dirname(os.path.abspath(__file__)))
REPO = os.environ.get("PRODUCTMD_REPO", "/repo")
LEAN = os.path.join(ROOT, "lean")
PY = "/venv/bin/python"
DRIVER = os.path.join(LEAN, ".lake", "build", "bin", "pmdriver")
ALLOWED_AXIOMS = {"propext", "Classical.choice", "Quot.sound"}
BANNED = re.compile(r"\b(sorry|admit|native_decide|bv_decide|implemented_by|unsafe)\b|maxHeartbeats\s+0|^\s*axiom\s", re.M)

os.environ.setdefault("PRODUCTMD_VERIF", "1")


def use_repo():
    """make `import productmd` resolve to REPO's working tree, in this process"""
    sys.dont_write_bytecode = True
    if sys.path[0] != REPO:
        sys.path.insert(0, REPO)
    import productmd
    assert os.path.realpath(productmd.__file__).startswith(os.path.realpath(REPO) + os.sep), productmd.__file__
    return productmd


class Infra(Exception):
    pass


# --------------------------------------------------------------------------------------------- line coverage of the real side
class LineCov(object):
    """Which lines of REPO/productmd/*.py the real side of this run executed (in this process), via sys.monitoring
    (each location reports once, then disables itself: negligible cost).  Reported in the evidence so that the part of
    the library the correspondence never entered - code the model is not validated against - is visible per run."""
    TOOL = 3

    def __init__(self):
        self.hits = set()
        self.on = False
        self.prefix = os.path.join(os.path.realpath(REPO), "productmd") + os.sep

    def start(self):
        mon = getattr(sys, "monitoring", None)
        if mon is None:
            return
        try:
            mon.use_tool_id(self.TOOL, "verif-linecov")
        except ValueError:
            return
        prefix, hits = self.prefix, self.hits
        cache = {}

        def on_line(code, line):
            fn = code.co_filename
            ok = cache.get(fn)
            if ok is None:
                ok = cache[fn] = os.path.realpath(fn).startswith(prefix)
            if ok:
                hits.add((os.path.basename(fn), line))
            return mon.DISABLE
        mon.register_callback(self.TOOL, mon.events.LINE, on_line)
        mon.set_events(self.TOOL, mon.events.LINE)
        self.on = True

    def stop(self):
        if self.on:
            mon = sys.monitoring
            mon.set_events(self.TOOL, 0)
            mon.register_callback(self.TOOL, mon.events.LINE, None)
            mon.free_tool_id(self.TOOL)
            self.on = False

    @staticmethod
    def _functions(path):
        """[(qualname, first line, set of body lines)] of every function in the file; generator expressions and lambdas
        count towards the enclosing function; class bodies and module level (executed at import) are left out"""
        import types
        out = []
        try:
            top = compile(open(path).read(), path, "exec", dont_inherit=True)
        except Exception:
            return out

        def walk(code, owner):
            is_fn = bool(code.co_flags & 0x1)          # CO_OPTIMIZED: a function body, not a class body / module
            anonymous = code.co_name in ("<genexpr>", "<lambda>", "<listcomp>", "<setcomp>", "<dictcomp>")
            if is_fn and not (anonymous and owner is not None):
                owner = (code.co_qualname, code.co_firstlineno, set())
                out.append(owner)
            if is_fn and owner is not None:
                owner[2].update(l for (_, _, l) in code.co_lines() if l is not None and l != code.co_firstlineno)
            for c in code.co_consts:
                if isinstance(c, types.CodeType):
                    walk(c, owner if is_fn else None)
        walk(top, None)
        return out

    def report(self):
        if not self.hits and not self.on:
            return None
        files, unentered, tot_e, tot_x = {}, [], 0, 0
        for path in sorted(glob.glob(self.prefix + "*.py")):
            base = os.path.basename(path)
            hit = set(l for (f, l) in self.hits if f == base)
            ex, got, missing, per_file_unentered, allhit = 0, 0, [], [], []
            for (qual, first, lines) in self._functions(path):
                if not lines:
                    continue
                ex += len(lines)
                h = lines & hit
                got += len(h)
                if not h:
                    per_file_unentered.append("%s:%s" % (base, qual))
                else:
                    missing.extend(sorted(lines - hit))
                allhit.extend(h)
            files[base] = {"function_lines": ex, "executed": got, "executed_lines": _ranges(allhit),
                           "unexecuted_in_entered_functions": _ranges(missing)}
            if got:                      # list unentered functions only for the files this property works in
                unentered.extend(per_file_unentered)
            tot_e += got
            tot_x += ex
        return {"scope": "lines inside function bodies of productmd/*.py executed in-process by the real side of THIS run "
                         "(sys.monitoring; the C08 hash-seed worker processes included, the C19 timing worker not)",
                "executed": tot_e, "function_lines": tot_x, "files": files, "functions_never_entered": unentered}


def worker_linecov():
    """called by helper processes (C08 hash-seed workers): record their lines too and hand them to the parent at exit"""
    d = os.environ.get("VERIF_LINECOV_DIR")
    if not d or not os.path.isdir(d):
        return
    lc = LineCov()
    lc.start()
    import atexit

    def dump():
        try:
            lc.stop()
            with open(os.path.join(d, "%d.json" % os.getpid()), "w") as f:
                json.dump(sorted(lc.hits), f)
        except Exception:
            pass
    atexit.register(dump)


def _ranges(ls):
    out, ls = [], sorted(set(ls))
    i = 0
    while i < len(ls):
        j = i
        while j + 1 < len(ls) and ls[j + 1] == ls[j] + 1:
            j += 1
        out.append(str(ls[i]) if i == j else "%d-%d" % (ls[i], ls[j]))
        i = j + 1
    return out


# --------------------------------------------------------------------------------------------- build
class Lock(object):
    def __enter__(self):
        self.f = open(os.path.join(ROOT, ".build.lock"), "w")
        fcntl.flock(self.f, fcntl.LOCK_EX)

    def __exit__(self, *a):
        fcntl.flock(self.f, fcntl.LOCK_UN)
        self.f.close()


def run(cmd, cwd=None, timeout=3600, env=None):
    p = subprocess.run(cmd, cwd=cwd, capture_output=True, text=True, timeout=timeout, env=env)
    return p.returncode, p.stdout + p.stderr


def translate():
    rc, out = run([PY, os.path.join(ROOT, "tools", "translate.py")], env=dict(os.environ, PRODUCTMD_REPO=REPO))
    report = {}
    for line in out.splitlines():
        if line.startswith("{"):
            try:
                report = json.loads(line)
            except ValueError:
                pass
    return rc, out, report


def lake_build(targets, clean=False):
    if clean:
        # rebuild the property's own modules from scratch (thorough tier)
        for t in targets:
            if t.startswith("ProductMD."):
                rel = t.replace(".", "/")
                for ext in (".olean", ".ilean", ".trace", ".olean.hash", ".ilean.hash", ".c", ".c.hash"):
                    for base in ("lib/lean", "ir"):
                        try:
                            os.unlink(os.path.join(LEAN, ".lake/build", base, rel + ext))
                        except OSError:
                            pass
    rc, out = run(["lake", "build"] + targets, cwd=LEAN)
    return rc, out


def strip_comments(src):
    # remove block comments (nested) and line comments
    out, depth, i = [], 0, 0
    while i < len(src):
        if src.startswith("/-", i):
            depth += 1; i += 2
        elif src.startswith("-/", i) and depth:
            depth -= 1; i += 2
        elif depth:
            i += 1
        elif src.startswith("--", i):
            j = src.find("\n", i)
            i = len(src) if j < 0 else j
        else:
            out.append(src[i]); i += 1
    return "".join(out)


def audit_sources():
    bad = []
    for path in glob.glob(os.path.join(LEAN, "ProductMD", "**", "*.lean"), recursive=True):
        body = strip_comments(open(path).read())
        body = re.sub(r'"(\\.|[^"\\])*"', '""', body)
        for mm in BANNED.finditer(body):
            bad.append("%s: %s" % (os.path.relpath(path, LEAN), mm.group(0).strip()))
    return bad


def theorems_of(prop_id):
    path = os.path.join(LEAN, "ProductMD", "Properties", prop_id + ".lean")
    src = strip_comments(open(path).read())
    ns = re.findall(r"^namespace\s+(\S+)", src, re.M)
    prefix = (ns[0] + ".") if ns else ""
    return [prefix + n for n in re.findall(r"^theorem\s+(%s_\w+)" % prop_id, src, re.M)]


def audit_axioms(prop_id, module):
    thms = theorems_of(prop_id)
    path = os.path.join(LEAN, ".lake", "audit_%s_%d.lean" % (prop_id, os.getpid()))
    with open(path, "w") as f:
        f.write("import %s\n" % module)
        for t in thms:
            f.write("#print axioms %s\n" % t)
    try:
        rc, out = run(["lake", "env", "lean", path], cwd=LEAN)
    finally:
        os.unlink(path)
    res = {}
    for t in thms:
        m1 = re.search(r"'%s' depends on axioms: \[([^\]]*)\]" % re.escape(t), out)
        m2 = re.search(r"'%s' does not depend on any axioms" % re.escape(t), out)
        if m1:
            res[t] = [a.strip() for a in m1.group(1).replace("\n", " ").split(",") if a.strip()]
        elif m2:
            res[t] = []
        else:
            res[t] = None
    return thms, res, out if rc != 0 else ""


# --------------------------------------------------------------------------------------------- driver
class Driver(object):
    """the compiled Lean model; batch request/response over the JSON line protocol"""
    def __init__(self):
        if not os.path.exists(DRIVER):
            raise Infra("driver not built")

    def call(self, reqs, timeout=1800):
        if not reqs:
            return []
        data = "".join(json.dumps(r, ensure_ascii=True) + "\n" for r in reqs)
        p = subprocess.run([DRIVER], input=data, capture_output=True, text=True, timeout=timeout)
        lines = p.stdout.split("\n")          # never str.splitlines(): it also breaks at \x85, \x0c, \u2028 ...
        if lines and lines[-1] == "":
            lines.pop()
        if p.returncode != 0 or len(lines) != len(reqs):
            raise Infra("driver failed rc=%s got %d/%d lines: %s" % (p.returncode, len(lines), len(reqs), p.stderr[-500:]))
        return [json.loads(l) for l in lines]


# --------------------------------------------------------------------------------------------- canonical forms
def canon(x):
    """canonical JSON-able form: dict keys sorted (by json.dumps), sets sorted, tuples as lists, exceptions by class"""
    if isinstance(x, dict):
        return dict((str(k), canon(v)) for k, v in x.items())
    if isinstance(x, (set, frozenset)):
        return sorted((canon(v) for v in x), key=lambda v: json.dumps(v, sort_keys=True))
    if isinstance(x, (list, tuple)):
        return [canon(v) for v in x]
    if isinstance(x, float):
        return {"float": repr(x)}
    if isinstance(x, BaseException):
        return {"err": type(x).__name__}
    if isinstance(x, bytes):
        return {"bytes": x.hex()}
    return x


def key_of(x):
    return hashlib.sha1(json.dumps(x, sort_keys=True, default=str).encode()).hexdigest()


def err_class(e):
    return {"err": type(e).__name__}


def guarded(f, *a, **k):
    """run f on the real library; any exception becomes {"err": class}"""
    try:
        return {"ok": canon(f(*a, **k))}
    except RecursionError as e:
        return {"err": "RecursionError"}
    except Exception as e:  # noqa
        return err_class(e)


# --------------------------------------------------------------------------------------------- known findings
def load_known():
    p = os.path.join(ROOT, "known_findings.json")
    if not os.path.exists(p):
        return []
    return json.load(open(p))


def known_match(prop_id, failure, known):
    """a known entry matches a failure only through its predicate on the failing case (never by property id alone)"""
    for k in known:
        if k.get("status") != "known" or k.get("property") != prop_id:
            continue
        pred = k.get("match")
        if not pred:
            continue
        try:
            env = {"case": failure.get("case", {}), "args": failure.get("case", {}).get("args", {}),
                   "op": failure.get("case", {}).get("op"), "observed": failure.get("observed"),
                   "required": failure.get("required"), "kind": failure.get("kind"), "re": re, "len": len, "any": any, "all": all,
                   "isinstance": isinstance, "str": str, "int": int, "dict": dict, "list": list}
            if eval(pred, {"__builtins__": {}}, env):
                return k
        except Exception:
            continue
    return None


# --------------------------------------------------------------------------------------------- property base
class Prop(object):
    id = None
    lean_module = None           # "ProductMD.Properties.Cnn"
    quick_budget = 1000
    thorough_budget = 20000
    partial = {}                 # theorem name -> what is missing (named ..._partial in Lean)
    assumptions = []
    rule = ""
    exhaustive = False

    def corpus(self):
        p = os.path.join(ROOT, "corpus", self.id + ".jsonl")
        if not os.path.exists(p):
            return []
        return [json.loads(l) for l in open(p) if l.strip()]

    def cases(self, rng, tier, budget):
        """yield {"op":..,"args":..} cases"""
        return []

    def real(self, case):
        raise NotImplementedError

    def model_requests(self, case):
        """driver requests for this case (default: the case itself); [] = not modelled"""
        return [case]

    def model_result(self, case, outs):
        return outs[0]

    def compare(self, case, real_out, model_out):
        """None if they correspond, else a description"""
        if canon(real_out) != canon(model_out):
            return {"real": real_out, "model": model_out}
        return None

    def oracle(self, case, real_out):
        """None if the property holds on this case, else {"observed":.., "required":..}"""
        return None

    def nontrivial(self, case, real_out):
        return True

    def shrink_candidates(self, case):
        return []

    def extra_checks(self, ctx):
        """property-specific non-case checks (e.g. separate-process runs); return list of failures"""
        return []

    def stats(self, case, real_out, dist):
        dist[case["op"]] = dist.get(case["op"], 0) + 1


def shrink(prop, case, fails, budget_s=20.0):
    """greedy minimisation: keep replacing the case by a smaller candidate that still fails (time-boxed)"""
    cur = case
    deadline = time.time() + budget_s
    for _ in range(200):
        if time.time() > deadline:
            break
        for cand in prop.shrink_candidates(cur):
            if time.time() > deadline:
                break
            try:
                if fails(cand):
                    cur = cand
                    break
            except Exception:
                continue
        else:
            break
    return cur


def write_replay(prop_id, payload):
    d = os.path.join(ROOT, "replays")
    os.makedirs(d, exist_ok=True)
    name = "%s-%s.json" % (prop_id, key_of(payload.get("case") or payload.get("obligation") or payload)[:12])
    path = os.path.join(d, name)
    with open(path, "w") as f:
        json.dump(payload, f, indent=1, sort_keys=True, default=str)
    return os.path.relpath(path, ROOT)


def write_evidence(prop_id, ev):
    d = os.path.join(ROOT, "evidence")
    os.makedirs(d, exist_ok=True)
    tmp = os.path.join(d, prop_id + ".json.tmp.%d" % os.getpid())
    with open(tmp, "w") as f:
        json.dump(ev, f, indent=1, sort_keys=True, default=str)
    os.replace(tmp, os.path.join(d, prop_id + ".json"))


def run_cases(prop, cases, driver, want_model=True):
    """-> list of (case, real_out, model_out or None, corr, orc)"""
    results = []
    reqs, spans = [], []
    reals = []
    for c in cases:
        r = prop.real(c)
        reals.append(r)
        rq = prop.model_requests(c) if (want_model and driver is not None) else []
        spans.append((len(reqs), len(rq)))
        reqs.extend(rq)
    outs = driver.call(reqs) if reqs else []
    # history independence: the first cases of the batch are run again AFTER everything else in the batch ran in this
    # process; a different answer means the library keeps hidden state between calls (a cache, a shared default, ...)
    replays = {}
    if getattr(prop, "repeatable", True):
        for i in range(min(len(cases), getattr(prop, "repeat_count", 20))):
            try:
                r2 = prop.real(cases[i])
            except Exception as e:      # noqa
                r2 = {"err": "harness:" + type(e).__name__}
            if json.dumps(canon(r2), sort_keys=True, default=str) != json.dumps(canon(reals[i]), sort_keys=True, default=str):
                replays[i] = r2
    for idx, (c, r, (off, n)) in enumerate(zip(cases, reals, spans)):
        mo = corr = None
        if n:
            mo = prop.model_result(c, outs[off:off + n])
            corr = prop.compare(c, r, mo)
        orc = prop.oracle(c, r)
        if orc is None and idx in replays:
            orc = {"kind": "history-dependent", "observed": {"first": r, "again_after_other_calls": replays[idx]},
                   "required": "the same call gives the same result whatever ran before it in the process"}
        results.append((c, r, mo, corr, orc))
    return results


def main_check(prop, argv):
    import argparse
    ap = argparse.ArgumentParser()
    ap.add_argument("--tier", default=os.environ.get("VERIF_TIER", "quick"))
    ap.add_argument("--seed", type=int, default=int(os.environ.get("VERIF_SEED", "0") or 0))
    args = ap.parse_args(argv)
    t0 = time.time()
    try:
        rc = _check(prop, args.tier, args.seed, t0)
    except Infra as e:
        print("INFRA: %s" % e)
        return 2
    except subprocess.TimeoutExpired as e:
        print("INFRA: timeout %s" % e)
        return 2
    return rc


def _check(prop, tier, seed, t0):
    pid = prop.id
    linecov = LineCov()
    linecov.start()
    import tempfile
    lcdir = tempfile.mkdtemp(prefix="verif-linecov-")
    os.environ["VERIF_LINECOV_DIR"] = lcdir
    use_repo()
    known = load_known()
    broken = []           # list of dicts describing broken obligations / ties (not yet violations)
    notes = []
    # ---- 1/2: translate + build
    with Lock():
        trc, tout, treport = translate()
        if trc == 3:
            broken.append({"tie": "G", "what": "translator: pattern used at run time not found statically",
                           "detail": treport.get("dynamic_not_static")})
        elif trc != 0:
            broken.append({"tie": "G", "what": "translator failed on the current tree", "detail": tout[-2000:]})
        brc, bout = lake_build([prop.lean_module], clean=(tier == "thorough"))
        if brc != 0:
            errs = [l for l in bout.splitlines() if "error" in l][:12]
            broken.append({"tie": "G", "what": "lake build %s failed: a proof obligation no longer checks" % prop.lean_module,
                           "detail": errs, "log": bout[-4000:]})
        drc, dout = lake_build(["pmdriver"])
        driver = None
        if drc != 0:
            broken.append({"tie": "C", "what": "model driver does not build against the regenerated files",
                           "detail": [l for l in dout.splitlines() if "error" in l][:12]})
        else:
            # snapshot the driver so that a concurrent rebuild cannot disturb this run
            driver = Driver()
    # ---- 3: audit
    thms, axioms = [], {}
    src_bad = audit_sources()
    if src_bad:
        broken.append({"tie": "G", "what": "banned construct in Lean sources", "detail": src_bad[:10]})
    discharged = 0
    if brc == 0:
        with Lock():
            thms, axioms, aerr = audit_axioms(pid, prop.lean_module)
        for t in thms:
            ax = axioms.get(t)
            if ax is None:
                broken.append({"tie": "G", "what": "audit could not print axioms of %s" % t, "detail": aerr[-500:]})
            elif not set(ax) <= ALLOWED_AXIOMS:
                broken.append({"tie": "G", "what": "theorem %s depends on disallowed axioms" % t, "detail": ax})
            else:
                discharged += 1
        if tier == "thorough":
            with Lock():
                crc, cout = run(["lake", "env", "leanchecker", prop.lean_module], cwd=LEAN, timeout=3000)
            notes.append("leanchecker rc=%d" % crc)
            if crc != 0:
                broken.append({"tie": "G", "what": "leanchecker rejected %s" % prop.lean_module, "detail": cout[-800:]})
    else:
        try:
            thms = theorems_of(pid)
        except Exception:
            thms = []
    # ---- 4: corpus, correspondence, oracle
    rng = random.Random("%s-%d-%s" % (pid, seed, tier))
    budget = prop.quick_budget if tier == "quick" else prop.thorough_budget
    failures, disagreements = [], []
    dist, distinct = {}, set()
    evaluations = 0
    samples = []

    unknown_count = [0]

    def consume(cases, label):
        nonlocal evaluations
        cases = list(cases)
        for i in range(0, len(cases), 2000):
            chunk = cases[i:i + 2000]
            for (c, r, mo, corr, orc) in run_cases(prop, chunk, driver):
                evaluations += 1
                prop.stats(c, r, dist)
                if prop.nontrivial(c, r):
                    distinct.add(key_of(c))
                if len(samples) < 5 and prop.nontrivial(c, r):
                    samples.append({"case": c, "real": r})
                if orc is not None:
                    f = {"case": c, "observed": orc.get("observed"), "required": orc.get("required"),
                         "kind": orc.get("kind", "oracle"), "real": r, "model": mo}
                    if known_match(pid, f, known) is None:
                        unknown_count[0] += 1
                    failures.append(f)
                if corr is not None:
                    disagreements.append({"case": c, "real": corr["real"], "model": corr["model"]})
            if unknown_count[0] > 50 or len(disagreements) > 50:      # listed known findings never cut the exploration short
                break

    consume(prop.corpus(), "corpus")
    consume(prop.cases(rng, tier, budget), "generated")
    extra = prop.extra_checks({"tier": tier, "seed": seed, "rng": rng, "driver": driver, "dist": dist})
    for f in extra:
        if str(f.get("kind", "")).endswith("disagreement"):
            # model and code differ on something, but the property was not seen to fail on the real code
            disagreements.append({"case": f.get("case"), "real": f.get("required"), "model": f.get("observed"), "kind": f.get("kind")})
        else:
            failures.append(f)
    # ---- 5: decide
    if (broken or disagreements) and not failures:
        # failing-input search: the same generators with a 20x budget and a different stream
        rng2 = random.Random("%s-%d-search" % (pid, seed))
        before = evaluations
        consume(prop.cases(rng2, "search", budget * 20), "search")
        notes.append("failing-input search ran %d extra cases" % (evaluations - before))
    violations = 0
    reported = set()
    known_hit = {}
    out_lines = []
    for f in failures:
        k = known_match(pid, f, known)
        if k is not None:
            known_hit.setdefault(k["id"], k)
            continue
        sig = json.dumps([f.get("kind"), f.get("observed"), f.get("required")], sort_keys=True, default=str)[:300]
        if sig in reported and len(reported) >= 1:
            continue
        if len(reported) >= 5:
            continue
        reported.add(sig)
        case = f.get("case")
        if case is not None and len(reported) <= 2 and prop.shrink_candidates(case):
            def still_fails(c):
                r = prop.real(c)
                o = prop.oracle(c, r)
                return o is not None and known_match(pid, {"case": c, "observed": o.get("observed"), "required": o.get("required"), "kind": o.get("kind", "oracle")}, known) is None
            small = shrink(prop, case, still_fails)
            r = prop.real(small) if small is not case else None
            o = prop.oracle(small, r) if small is not case else None
            if o is not None:
                f = {"case": small, "observed": o.get("observed"), "required": o.get("required"), "kind": o.get("kind", "oracle"), "real": r}
        payload = {"property": pid, "kind": "counterexample", "seed": seed, "tier": tier, "case": f.get("case"),
                   "observed": f.get("observed"), "required": f.get("required"), "real": f.get("real"), "model_output": f.get("model"),
                   "broken": broken, "rerun": "./check replay %s" % "<this file>"}
        path = write_replay(pid, payload)
        out_lines.append("VIOLATION property=%s replay=%s" % (pid, path))
        violations += 1
    for k in known_hit.values():
        out_lines.append("KNOWN-FINDING: property=%s %s: %s" % (pid, k["id"], k["what"]))
    if violations == 0 and (broken or disagreements):
        payload = {"property": pid, "kind": "broken-obligation", "seed": seed, "tier": tier,
                   "obligation": {"broken": broken, "disagreements": disagreements[:5]},
                   "note": "no failing input was found on the real code by the search; the property is no longer shown to hold",
                   "theorems": thms}
        path = write_replay(pid, payload)
        out_lines.append("VIOLATION property=%s replay=%s no-failing-input-found" % (pid, path))
        violations += 1
    # ---- 6: evidence
    tb = ["Lean 4.33 kernel", "tools/translate.py (generated tables, regex ASTs, validator inventory)",
          "harness adapters and canonicalisation", "axioms: " + ", ".join(sorted(set(a for v in axioms.values() if v for a in v))) if axioms else "axioms: (none printed)"]
    ev = {
        "property_id": pid, "tier": "thorough" if tier == "thorough" else "quick", "seed": seed, "level": "proof",
        "coverage": {
            "obligations": max(len(thms), 1), "discharged": discharged if not broken else min(discharged, max(len(thms) - 1, 0)),
            "checker_cmd": "cd lean && lake build %s && lake env lean <audit: #print axioms of every %s_* theorem>%s" % (
                prop.lean_module, pid, " && lake env leanchecker %s" % prop.lean_module if tier == "thorough" else ""),
            "trusted_base": tb,
            "theorems": [{"name": t, "axioms": axioms.get(t), "status": "partial" if t.split(".")[-1] in prop.partial or t.endswith("_partial") else "full",
                          "missing": prop.partial.get(t.split(".")[-1])} for t in thms],
            "evaluations": evaluations, "distinct_nontrivial": len(distinct), "rule": prop.rule,
            "samples": samples[:5], "traces_validated_against_impl": evaluations if driver is not None else 0,
            "disagreements": len(disagreements), "distribution": dist, "known_findings_hit": sorted(known_hit),
            "exhaustive": bool(prop.exhaustive), "translator": treport, "broken": broken, "notes": notes,
        },
        "assumptions": list(prop.assumptions),
        "wall_s": round(time.time() - t0, 2), "violations": violations,
    }
    linecov.stop()
    os.environ.pop("VERIF_LINECOV_DIR", None)
    for wf in glob.glob(os.path.join(lcdir, "*.json")):
        try:
            linecov.hits.update((a, b) for (a, b) in json.load(open(wf)))
        except Exception:
            pass
    import shutil
    shutil.rmtree(lcdir, ignore_errors=True)
    lc = linecov.report()
    if lc is not None:
        ev["coverage"]["real_code_lines"] = lc
    if ev["coverage"]["discharged"] < 1:
        # a run whose proof obligations did not build: keep the file schema-valid, say so explicitly
        ev["coverage"]["discharged_count"] = ev["coverage"].pop("discharged")
        ev["coverage"]["explanation"] = "no proof obligation was discharged in this run (build broken); see 'broken'"
    write_evidence(pid, ev)
    for l in out_lines:
        print(l)
    print("%s %s: theorems %d/%d, cases %d (distinct non-trivial %d), disagreements %d, known %s, %.1fs" % (
        pid, tier, discharged, len(thms), evaluations, len(distinct), len(disagreements), sorted(known_hit), time.time() - t0))
    return 1 if violations else 0


def replay(path):
    use_repo()
    with Lock():
        translate()
    payload = json.load(open(path))
    from props import load_prop
    prop = load_prop(payload["property"])
    if payload.get("kind") != "counterexample":
        print(json.dumps(payload.get("obligation"), indent=1)[:4000])
        print("replay: this file names a proof obligation / correspondence that no longer checks; re-run ./check %s" % payload["property"])
        return 1
    case = payload["case"]
    r = prop.real(case)
    o = prop.oracle(case, r)
    print("case:     %s" % json.dumps(case)[:2000])
    print("real:     %s" % json.dumps(r, default=str)[:2000])
    if o is None:
        print("oracle:   property holds on this case now")
        return 0
    print("observed: %s" % json.dumps(o.get("observed"), default=str)[:2000])
    print("required: %s" % json.dumps(o.get("required"), default=str)[:2000])
    return 1
