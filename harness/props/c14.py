"""C14 - release ids round-trip; the validity predicates accept exactly the documented names."""
import itertools, json, os
import checklib
from checklib import Prop, ROOT, guarded

# one representative per character class the rules distinguish (the property's quantifier) plus the line feed
ALPHABET = "aA1-.@_\n"
# second exhaustive scope: what CPython's character classes distinguish beyond ASCII (`\d`/`\w`/`\s`/`.` are Unicode-aware on
# str patterns): two non-ASCII decimal digits (Arabic-Indic three, full-width seven), a non-ASCII lower and upper case letter,
# a non-ASCII space, carriage return - combined with the ASCII letter, digit, dot and dash.  The documented languages are ASCII
# ("lowercase letter" = a-z, "decimal integers" = 0-9 runs, as the unchanged patterns have it); the spec predicates decide.
UNI_ALPHABET = "a1.-\u0663\uff17\u00e9\u00c9\u00a0\r \t\U0001d7d9"   # + blank, tab, an astral decimal digit (U+1D7D9)
PREDS = ("short", "version", "type")


# ------------------------------------------------------------------ the documented languages, transcribed (oracle)
def spec_seg(g):
    return len(g) > 0 and all(("a" <= c <= "z") or ("0" <= c <= "9") for c in g)


def spec_short(s):
    """a lowercase letter followed by lowercase alphanumerics in non-empty dash-separated segments"""
    return len(s) > 0 and "a" <= s[0] <= "z" and all(spec_seg(g) for g in s.split("-"))


def spec_version(s):
    """dot-separated decimal integers, or any non-empty string not starting with a digit"""
    if len(s) == 0:
        return False
    if not ("0" <= s[0] <= "9"):
        return True
    return all(len(g) > 0 and all("0" <= c <= "9" for c in g) for g in s.split("."))


# the nine documented known release types (the property's quantifier); the generators use these AND the table of the tree under test
SPEC_TYPES = ["fast", "ga", "updates", "updates-testing", "eus", "aus", "els", "tus", "e4s"]

SPEC = {"short": spec_short, "type": spec_short, "version": spec_version}


def generated():
    return json.load(open(os.path.join(ROOT, "lean", "generated.json")))


def block_words(alphabet, prefix, n):
    """all prefix+w, |w| <= n, by length, each length in itertools.product order (the order of the Lean op `c14_block`)"""
    for k in range(n + 1):
        for t in itertools.product(alphabet, repeat=k):
            yield prefix + "".join(t)


# one character per string: bit 0/1/2 = real is_valid_release_short/_version/_type, bit 3/4 = documented short/version language
BIT = {"short": 0, "version": 1, "type": 2, "spec_short": 3, "spec_version": 4}
SPEC_BIT = {"short": 3, "type": 3, "version": 4}
CONSISTENT = frozenset(chr(48 + c) for c in range(32)
                       if (c >> 0 & 1) == (c >> 3 & 1) and (c >> 2 & 1) == (c >> 3 & 1) and (c >> 1 & 1) == (c >> 4 & 1))


class C14(Prop):
    id = "C14"
    lean_module = "ProductMD.Properties.C14"
    quick_budget = 6000
    thorough_budget = 120000
    exhaustive = True
    rule = ("predicates: EVERY string of length <= 6 (quick) / <= 8 (thorough) over the 8-symbol alphabet {a,A,1,-,.,@,_,LF} through the real "
            "is_valid_release_short/_version/_type, and EVERY string of length <= 4 / <= 6 over a 13-symbol alphabet of the classes CPython distinguishes "
            "beyond ASCII {a,1,.,-,U+0663,U+FF17,e-acute,E-acute,NBSP,CR,blank,TAB,U+1D7D9}, against a Python transcription of the documented languages (oracle) and the Lean model and Lean "
            "specification (correspondence), plus random longer strings over a wider alphabet; round trip: generated (short, version, type"
            "[, base product]) with dashed/undashed shorts, numeric/free-form versions, every known release type, targeted cases derived "
            "from the type table; create: EVERY string up to length 5/6 (8-symbol alphabet) and 3/4 (Unicode-class alphabet) in each of the six argument "
            "positions with the others fixed valid (raises iff the real predicate of that position refuses), one-part corruptions, None/empty base-product parts; parse: token-built identifiers (correspondence). "
            "non-trivial = distinct cases (a block of the exhaustive enumeration counts once; its size is in distribution.pred_strings)")
    assumptions = ["CPython's re engine on the three patterns = the list-of-successes matcher of Model/Regex.lean (compared on every enumerated string)",
                   "str.split/rsplit/count/endswith/slicing = the definitions of Model/Str.lean (compared through create/parse on every generated case)"]
    partial = {
        "C14_short_partial": "hypothesis '\\n' not in s: CPython's `$` also matches before a final line feed (F15); C14_short_exact states the behaviour on all strings",
        "C14_type_partial": "hypothesis '\\n' not in s (F15); C14_type_exact is the statement for all strings",
        "C14_version_partial": "hypothesis '\\n' not in s: `$` before a final line feed, `.` excludes the line feed (F15); C14_version_exact is the statement for all strings",
        "C14_create_accepts_spec_partial": "hypothesis: no line feed in the three strings (F15); C14_create_value/C14_create_refuses are the full statements in terms of the predicates",
        "C14_roundtrip_partial": "hypothesis type = ga -> '-' not in short (release and base product): F9, creation is not injective there (C14_not_injective); "
                                 "version free of '-' and '@' and type in the known table are the property's own quantifier (forced: C14_version_dash_witness)",
    }

    def __init__(self):
        self._gen = None
        self._common = None
        self._known = None
        self._compiled = None

    # ---------------------------------------------------------------- helpers
    def gen(self):
        if self._gen is None:
            self._gen = generated()
        return self._gen

    def types(self):
        """documented known types first, then whatever else the table of the tree under test contains"""
        table = list(self.gen()["tables"]["RELEASE_TYPES"])
        return SPEC_TYPES + [t for t in table if t not in SPEC_TYPES]

    def common(self):
        if self._common is None:
            checklib.use_repo()
            import productmd.common as c
            self._common = c
        return self._common

    def real_pred(self, which):
        c = self.common()
        return {"short": c.is_valid_release_short, "version": c.is_valid_release_version, "type": c.is_valid_release_type}[which]

    def known_entries(self):
        if self._known is None:
            self._known = checklib.load_known()
        return self._known

    def known_fast(self, failure):
        """checklib.known_match with the predicates compiled once (millions of calls in the exhaustive blocks)"""
        if self._compiled is None:
            self._compiled = []
            for k in self.known_entries():
                if k.get("status") == "known" and k.get("property") == self.id and k.get("match"):
                    try:
                        self._compiled.append((k, compile(k["match"], "<known>", "eval")))
                    except SyntaxError:
                        pass
        import re
        case = failure.get("case", {})
        env = {"case": case, "args": case.get("args", {}), "op": case.get("op"), "observed": failure.get("observed"),
               "required": failure.get("required"), "kind": failure.get("kind"), "re": re, "len": len, "any": any, "all": all,
               "isinstance": isinstance, "str": str, "int": int, "dict": dict, "list": list}
        for k, code in self._compiled:
            try:
                if eval(code, {"__builtins__": {}}, env):
                    return k
            except Exception:
                continue
        return None

    # ---------------------------------------------------------------- generators
    def cases(self, rng, tier, budget):
        types = self.types()
        out = []
        # (1) designated witnesses of the known findings, first
        for which, s in (("short", "f\n"), ("type", "ga\n"), ("version", "1\n"), ("version", "a\nb")):
            out.append({"op": "pred", "args": {"which": which, "s": s}})
        out.append(self.rt_case("my-prod", "1.0", "ga"))
        # (1b) the exhaustive enumeration over the property's 8-symbol alphabet, in 9 blocks (the empty string, then by first
        # character), and over the 13-symbol Unicode-class alphabet (length <= 4 quick / <= 6 thorough), by first character
        maxlen = 8 if tier == "thorough" else 6
        out.append({"op": "pred_block", "args": {"alphabet": ALPHABET, "prefix": "", "n": 0}})
        for a in ALPHABET:
            out.append({"op": "pred_block", "args": {"alphabet": ALPHABET, "prefix": a, "n": maxlen - 1}})
        umax = 6 if tier == "thorough" else 4
        for a in UNI_ALPHABET:
            out.append({"op": "pred_block", "args": {"alphabet": UNI_ALPHABET, "prefix": a, "n": umax - 1}})
        # (1c) create_release_id over exhaustive blocks: each of the six argument positions filled with EVERY string up to a
        # small length over both alphabets, the other arguments fixed valid (with a `ga` and a dashed non-`ga` context);
        # oracle: create raises (ValueError) iff the real predicate of that position refuses the string
        cn, un = (6, 4) if tier == "thorough" else (5, 3)
        ctxs = [{"short": "f", "version": "23", "type": "ga", "bp_short": "rhel", "bp_version": "7.1", "bp_type": "updates"},
                {"short": "my-prod", "version": "Rawhide", "type": "updates-testing", "bp_short": "b", "bp_version": "x", "bp_type": "ga"}]
        for pos in self.POSITIONS:
            for ci, ctx in enumerate(ctxs):
                if ci == 1 and tier != "thorough" and pos in ("short", "type", "bp_short", "bp_type"):
                    continue
                for alpha, n in ((ALPHABET, cn - ci), (UNI_ALPHABET, un)):
                    out.append({"op": "create_block", "args": dict(ctx, alphabet=alpha, n=n, pos=pos)})
            if not pos.startswith("bp_"):       # and without a base product at all
                out.append({"op": "create_block", "args": dict(ctxs[0], bp_short=None, bp_version=None, bp_type=None,
                                                               alphabet=ALPHABET, n=cn - 1, pos=pos)})
        # (1d) every value of the hand-written pools once, as a predicate case and as a plain create/round-trip case
        out.extend(self.pool_sweep())
        # (2) round trips
        n_rt = budget * 5 // 10
        out.extend(self.targeted_from_table(types))
        streams = [self.systematic_types(types, tier), self.gen_sequences(rng, types, tier), self.gen_create_odd(types),
                   self.gen_parse_shapes(rng, types)]
        f9 = [0]
        rts = [self.gen_roundtrip(rng, types, k, f9) for k in range(n_rt)]
        streams.append(rts)
        # (3) create: corruptions and base-product defaults
        streams.append([self.gen_create(rng, types, i) for i in range(budget * 2 // 10)])
        # (4) parse on arbitrary identifiers (correspondence of the parser model)
        streams.append(self.gen_parse(rng, types, budget * 2 // 10, tier))
        # (5) predicates on random longer strings over a wider alphabet
        wide = "abcxyz0123456789-..@_AZ \té٣+~"
        n_nl = 0
        streams.append([])
        for i in range(budget // 10):
            n = rng.randint(7, 24)
            base = rng.choice(["", "f", "fedora-", "1.", "23", "a-", "rhel-7"])
            s = base + "".join(rng.choice(wide if rng.random() < 0.3 else "abz09-.") for _ in range(n))
            if n_nl < 40 and rng.random() < 0.2:     # some long strings in the F15 region (the blocks cover it exhaustively)
                n_nl += 1
                k = rng.choice([len(s), len(s), rng.randint(0, len(s))])
                s = s[:k] + "\n" + s[k:]
            streams[-1].append({"op": "pred", "args": {"which": PREDS[i % 3], "s": s}})
        # a sample of EVERY stream comes first (the pipeline stops exploring after 50 unlisted failures or disagreements at a
        # 2000-case boundary - e.g. when a rewritten pattern falls outside the translated fragment), then the remainders
        head_n = 180
        for st in streams[:4]:
            rng.shuffle(st)
        for st in streams:
            out.extend(st[:head_n])
        for st in streams:
            out.extend(st[head_n:])
        return out

    POSITIONS = ("short", "version", "type", "bp_short", "bp_version", "bp_type")
    POS_PRED = {"short": "short", "version": "version", "type": "type", "bp_short": "short", "bp_version": "version", "bp_type": "type"}

    SHORT_SEGS = ["f", "fedora", "rhel", "a1", "x", "prod", "my", "z9z", "ga", "fast", "eus", "updates", "testing", "e4s", "b2c3",
                  "none", "null", "false", "status", "breakfast", "pixels", "gala", "xga", "e4s1", "a" * 300]
    NUM_VERSIONS = ["1", "23", "7.1", "1.2.3", "0", "10.0.0.1", "007", "2015.12", "00", "0.0", "1.0", "2147483648", "4294967303",
                    "9007199254740993", "9223372036854775807", "10000000.100000000", "1.1.1.1", "7.0.1.2.3.4.5", "1" * 300,
                    ".".join(["12"] * 110)]
    FREE_VERSIONS = ["Rawhide", "rawhide", "x", "_", "A.1", "v 1", ".", "x.y", "a1", "n1.2", "é", "R_2", "eus", "ga", "updates", "fast",
                     "testing", "xga", "afast", "tus", "els", "aus", "e4s", "b٣", "٣x", "７server", "٣", "É1", "\u00a01", "a\rb",
                     # the format's delimiters and their doubled forms inside a (legal, free-form) version; values that look like other types
                     "a:b", "a/b", "a,b", "a;b", "a=b", "a#b", "a%b", "a%%b", "[x]", "\"q\"", "a'b", "a\\b", "..", "a..b", "x::y", "a//b", ".1", ":",
                     "None", "null", "False", "true", "NaN", "__", " ", " x", "x ", "a b c", "\t", "x\ty", "\u00a0", "\U0001d7d9", "\U0001d7d9.1",
                     "v" + "x" * 300, "R" + ".9" * 150, "pixels", "Taus", "status", "breakfast", "x.e4s", "e4s1", "gala", "begat"]

    def gen_short(self, rng, dashed):
        n = rng.choice([2, 2, 3, 4]) if dashed else 1
        segs = [rng.choice(self.SHORT_SEGS) for _ in range(n)]
        if not ("a" <= segs[0][0] <= "z"):
            segs[0] = "f" + segs[0]
        if rng.random() < 0.3:
            segs[-1] = rng.choice(["1", "7", "23", "0a"]) if n > 1 else segs[-1] + "7"
        return "-".join(segs)

    def gen_version(self, rng, types):
        r = rng.random()
        if r < 0.4:
            return rng.choice(self.NUM_VERSIONS)
        if r < 0.5:
            return ".".join(str(rng.randint(0, 10 ** rng.randint(1, 12))) for _ in range(rng.randint(1, 5)))
        if r < 0.85:
            return rng.choice(self.FREE_VERSIONS)
        if r < 0.92:      # dash-free pieces of the known types: a version that looks like (part of) a type
            t = rng.choice(types)
            return rng.choice(t.split("-")) or "x"
        return rng.choice("abcxyzR_.") + "".join(rng.choice("abz019._ A") for _ in range(rng.randint(0, 8)))

    def rt_case(self, short, version, type_, bp=None):
        a = {"short": short, "version": version, "type": type_, "bp_short": None, "bp_version": None, "bp_type": None}
        if bp:
            a.update({"bp_short": bp[0], "bp_version": bp[1], "bp_type": bp[2]})
        return {"op": "roundtrip", "args": a}

    def gen_part(self, rng, types, k, f9):
        type_ = types[k % len(types)]            # every known type round-robin
        dashed = rng.random() < 0.5
        if dashed and type_ == "ga":
            # the F9 region: a bounded number of witnesses is enough (each is a known failure; C14_F9_region proves all fail)
            if f9[0] >= 60:
                dashed = False
            else:
                f9[0] += 1
        return (self.gen_short(rng, dashed), self.gen_version(rng, types), type_)

    def gen_roundtrip(self, rng, types, k, f9):
        p = self.gen_part(rng, types, k, f9)
        bp = None
        if k % 2 == 1:
            bp = self.gen_part(rng, types, rng.randrange(len(types)) if k % 4 == 1 else k // 2, f9)
        if rng.random() < 0.03:   # F15 strings are accepted by create and must round-trip as well
            p = (p[0] + "\n", p[1], p[2]) if rng.random() < 0.5 else (p[0], p[1] + "\n", p[2])
        return self.rt_case(p[0], p[1], p[2], bp)

    def targeted_from_table(self, types):
        """inputs on which the first-match loop over RELEASE_TYPES goes wrong iff the table does not meet C14_types_suffix_free"""
        out = []
        for i, u in enumerate(types):
            for j, t in enumerate(types):
                if i == j or not t or not u:
                    continue
                if t != u and t.endswith(u) and i < j:
                    # u found first on every identifier of type t
                    out.append(self.rt_case("f", "1", t)); out.append(self.rt_case("my-prod", "x", t, ("b", "2", t)))
                if u.endswith("-" + t) and i < j:
                    y = u[:-len(t) - 1]
                    segs = y.split("-")
                    out.append(self.rt_case("-".join(["f"] + segs[:-1]), segs[-1], t))
        # every type once with the plainest parts, with and without base product
        for t in types:
            out.append(self.rt_case("f", "23", t)); out.append(self.rt_case("f", "23", t, ("rhel", "7", t)))
        return out

    def pool_sweep(self):
        out = []
        for v in self.NUM_VERSIONS + self.FREE_VERSIONS:
            out.append({"op": "pred", "args": {"which": "version", "s": v}})
            out.append(self.rt_case("f", v, "updates", ("rhel", v, "ga")))
        for sh in self.SHORT_SEGS:
            out.append({"op": "pred", "args": {"which": "short", "s": sh}})
            out.append({"op": "pred", "args": {"which": "type", "s": sh}})
            if spec_short(sh):
                out.append(self.rt_case(sh, "7.1", "e4s", (sh, "7", "ga")))
        return [c for c in out if not (c["op"] == "pred" and "\n" in c["args"]["s"])]

    def systematic_types(self, types, tier):
        """every known type for the release x every known type for the base product; every type name embedded in (equal to, prefix of,
        suffix of, inside) the short name and the version of an id of every type - release and base product alike"""
        out = []
        for t in types:                                   # full cross product, plain and dashed short names (dashed only outside F9)
            for u in types:
                out.append(self.rt_case("f", "23", t, ("rhel", "7.1", u)))
                out.append(self.rt_case("f" if t == "ga" else "my-prod", "Rawhide", t, ("b" if u == "ga" else "b-2-c", "x.y", u)))
        for e in types:                                   # e = the embedded type name
            segs = e.split("-")
            shorts = [e, "x" + e, e + "x", "x" + e + "y", e + "7", "a-" + e, e + "-a", "a-" + e + "-7", e + "-" + e]
            versions = []
            for g in set(segs + ["".join(segs)]):
                versions += [g, "x" + g, g + "x", "x" + g + "y", g + ".1", "T" + g, g + g, "x." + g, g.upper(), "1." + g]
            for t in types:
                for sh in shorts:
                    if t == "ga" and "-" in sh:
                        continue                          # F9 region (known finding; witnessed elsewhere)
                    out.append(self.rt_case(sh, "7", t))
                    if tier != "quick" or t in ("e4s", "updates-testing", e):
                        out.append(self.rt_case("f", "23", "ga", (sh, "7", t)))
                for v in versions:
                    out.append(self.rt_case("f", v, t))
                    if tier != "quick" or t in ("e4s", "updates-testing", "ga", e):
                        out.append(self.rt_case("my-prod", "1", "updates", ("b", v, t)))
        return out

    def gen_sequences(self, rng, types, tier):
        """several create+parse round trips in ONE case, each result compared as a whole dict with what was put in: the same call twice,
        layered-then-plain and plain-then-layered with the same release part, a failing parse in between, the returned dict
        mutated by the caller before the next call"""
        out = []
        def item(s, v, t, bp=None):
            return self.rt_case(s, v, t, bp)["args"]
        pool = [("rhscl", "2.1", "ga", ("rhel", "7", "ga")), ("f", "23", "updates", ("b", "x", "e4s")), ("my-prod", "7.1", "updates-testing", ("rhel", "7", "eus")),
                ("f", "Rawhide", "e4s", ("f", "Rawhide", "e4s")), ("a1", "1.2.3", "fast", ("b-2", "Q", "updates-testing"))]
        n = len(pool) if tier == "quick" else len(pool) * 4
        for k in range(n):
            if k < len(pool):
                s, v, t, bp = pool[k]
            else:
                f9 = [10 ** 9]
                s, v, t = self.gen_part(rng, types, k, f9); bp = self.gen_part(rng, types, k // 2, f9)
            plain, layered, bponly = item(s, v, t), item(s, v, t, bp), item(*bp)
            other = item(s, v, t, (bp[0], bp[1], types[(k + 3) % len(types)]))
            for seq in ([layered, plain], [plain, layered, plain], [layered, layered], [plain, plain], [layered, bponly, plain],
                        [layered, other, layered, plain], [bponly, layered, bponly]):
                for mutate in (False, True):
                    for bad in (None, "x@y@z"):
                        out.append({"op": "rt_seq", "args": {"items": seq, "mutate": mutate, "bad_between": bad}})
        return out

    FALSY = [None, False, 0, 0.0, "", [], {}]

    def gen_create_odd(self, types):
        """falsy values of every JSON-representable type in each of the six argument positions; near misses of every type name and of
        the literals the code compares with ("ga", "-", "@") in the type position"""
        out = []
        base = self.rt_case("f", "23", "updates", ("rhel", "7.1", "ga"))["args"]
        for pos in self.POSITIONS:
            for val in self.FALSY + [1, True, ["x"], {"a": 1}, 1.5]:
                out.append({"op": "create", "args": dict(base, **{pos: val})})
                if not pos.startswith("bp_"):
                    out.append({"op": "create", "args": dict(base, bp_short=None, bp_version=None, bp_type=None, **{pos: val})})
        for t in types:
            for near in (t + "x", "x" + t, t[:-1], t[1:], t.upper(), t.capitalize(), t + "-", "-" + t, t + "-" + t, t.replace("-", ""), t.replace("-", "_"),
                         t + "\n", t + " ", t + "1"):
                out.append({"op": "create", "args": dict(base, type=near)})
                out.append({"op": "create", "args": dict(base, bp_type=near)})
                out.append(self.rt_case("f", "23", near))            # accepted-but-unknown types are outside the round-trip domain: correspondence only
        return out

    def gen_parse_shapes(self, rng, types):
        """parse_release_id on identifiers with 0/1/2/3/4+ dashes and 0/1/2 '@' in every combination (correspondence of the parser model)"""
        out = []
        words = ["f", "23", "7.1", "Rawhide", "", "a1"] + types
        for ats in (0, 1, 2):
            for dl in range(0, 6):
                for dr in range(0, 5 if ats else 1):
                    for rep in range(3):
                        def part(nd):
                            ws = [rng.choice(words) for _ in range(nd + 1)]
                            if rep == 0 and nd >= 2:
                                ws[-1] = types[(dl + dr) % len(types)].split("-")[-1]
                            return "-".join(ws)
                        pieces = [part(dl)] + [part(dr) for _ in range(ats)]
                        out.append({"op": "parse", "args": {"id": "@".join(pieces)}})
        return out

    def gen_create(self, rng, types, i):
        f9 = [10 ** 9]
        s, v, t = self.gen_part(rng, types, i, f9)
        bad_short = ["", "F", "1f", "f_", "-f", "f-", "f--x", "f.x", "f@x", "f x", "é", "f\n\n", "\nf", "fA", "f٣", "f-７", "fé", "f\r", "f\u00a0"]
        bad_version = ["", "1.", ".1"[::-1], "1..2", "1a", "1-2", "1 ", "1\n\n", "a\nb", "0x1", "1.2.", "٣", "12@", "1.٣", "7７", "2.７.1", "1\r"]
        bad_type = bad_short + ["GA", "ga ", "updates_testing"]
        mode = i % 8
        bp = None
        if mode == 0:
            s = rng.choice(bad_short)
        elif mode == 1:
            v = rng.choice(bad_version)
        elif mode == 2:
            t = rng.choice(bad_type)
        elif mode == 3:
            t = rng.choice(["beta", "rc1", "mega", "xga", "a-b", "updates-testing-x", "z"])     # accepted but unknown types
        elif mode == 4:
            b = list(self.gen_part(rng, types, i // 8, f9))
            b[rng.randrange(3)] = rng.choice([None, "", "F", "1.", "x_y", "a b"])
            bp = tuple(b)
        elif mode == 5:
            b = list(self.gen_part(rng, types, i // 8, f9))
            if rng.random() < 0.5:
                b[0] = rng.choice([None, ""])
            bp = tuple(b)
        elif mode == 6:
            s, v = s + rng.choice(["\n", ""]), v + rng.choice(["\n", "", "@", "-x", "@2"])
            if rng.random() < 0.3:
                bp = ("b", rng.choice(["a@", "@", "x-y", "beta@2", "R\n"]), rng.choice(types))
        else:
            pool = bad_short + bad_version
            s, v, t = rng.choice([s, rng.choice(pool)]), rng.choice([v, rng.choice(pool)]), rng.choice([t, rng.choice(pool)])
        c = self.rt_case(s, v, t, None)
        if bp is not None:
            c["args"].update({"bp_short": bp[0], "bp_version": bp[1], "bp_type": bp[2]})
        c["op"] = "create"
        return c

    def gen_parse(self, rng, types, n, tier):
        toks = ["a", "1", "-", "@", "ga", "fast", "updates", "-testing", "eus", "\n", ".", "f-23", "x-y"]
        out, seen = [], set()
        depth = 3
        for k in range(depth + 1):
            for t in itertools.product(toks, repeat=k):
                seen.add("".join(t))
        ids = sorted(seen)
        rng.shuffle(ids)
        ids = ids[:n * 2 // 3]
        while len(ids) < n:
            parts = [rng.choice(self.SHORT_SEGS + ["-", "-", "@", "1", "7.1"] + types) for _ in range(rng.randint(1, 7))]
            ids.append(rng.choice(["", "-"]).join(parts))
        return [{"op": "parse", "args": {"id": i}} for i in ids]

    # ---------------------------------------------------------------- real side
    def real(self, case):
        op, a = case["op"], case["args"]
        c = self.common()
        if op == "pred":
            return guarded(self.real_pred(a["which"]), a["s"])
        if op == "pred_block":
            rs, rv, rt = c.is_valid_release_short, c.is_valid_release_version, c.is_valid_release_type
            return "".join(chr(48 + (1 if rs(w) else 0) + (2 if rv(w) else 0) + (4 if rt(w) else 0)
                               + (8 if spec_short(w) else 0) + (16 if spec_version(w) else 0))
                           for w in block_words(a["alphabet"], a["prefix"], a["n"]))
        if op == "rt_seq":
            res = []
            for it in a["items"]:
                cr = guarded(c.create_release_id, it["short"], it["version"], it["type"], it["bp_short"], it["bp_version"], it["bp_type"])
                if "ok" not in cr:
                    res.append({"create": cr, "parse": None}); continue
                try:
                    d = c.parse_release_id(cr["ok"])
                    snap = {"ok": checklib.canon(dict(d))}
                    if a.get("mutate"):                       # the caller edits what it got back (aliasing with any internal state)
                        d["short"] = "MUTATED"; d["bp_short"] = "MUTATED"; d.pop("type", None); d["extra"] = 1
                except Exception as e:       # noqa
                    snap = checklib.err_class(e)
                res.append({"create": cr, "parse": snap})
                if a.get("bad_between") is not None:
                    guarded(c.parse_release_id, a["bad_between"])
            return res
        if op == "create_block":
            pred = self.real_pred(self.POS_PRED[a["pos"]])
            codes, bits = [], []
            for w in block_words(a["alphabet"], "", a["n"]):
                args = dict(a, **{a["pos"]: w})
                try:
                    rid = c.create_release_id(args["short"], args["version"], args["type"], args["bp_short"], args["bp_version"], args["bp_type"])
                    codes.append("1" if rid == self.format(args) else "X")
                except ValueError:
                    codes.append("V")
                except TypeError:
                    codes.append("T")
                except Exception:
                    codes.append("E")
                bits.append("1" if pred(w) else "0")
            return {"codes": "".join(codes), "pred": "".join(bits)}
        if op == "parse":
            return guarded(c.parse_release_id, a["id"])
        cr = guarded(c.create_release_id, a["short"], a["version"], a["type"], a["bp_short"], a["bp_version"], a["bp_type"])
        if op == "create":
            preds = {}
            for k, which in (("short", "short"), ("version", "version"), ("type", "type"),
                             ("bp_short", "short"), ("bp_version", "version"), ("bp_type", "type")):
                preds[k] = guarded(self.real_pred(which), a[k])
            return {"create": cr, "preds": preds}
        if "ok" in cr:
            return {"create": cr, "parse": guarded(c.parse_release_id, cr["ok"])}
        return {"create": cr, "parse": None}

    # ---------------------------------------------------------------- model side
    def model_requests(self, case):
        op, a = case["op"], case["args"]
        if op == "pred":
            return [{"op": "c14_pred", "args": {"which": a["which"], "s": a["s"]}},
                    {"op": "c14_pred", "args": {"which": "spec_" + a["which"], "s": a["s"]}}]
        if op == "pred_block":
            return [{"op": "c14_block", "args": a}]
        if op == "rt_seq":
            return [{"op": "c14_roundtrip", "args": it} for it in a["items"]]
        if op == "create_block":
            return [{"op": "c14_create_block", "args": a}]
        if op == "parse":
            return [{"op": "c14_parse", "args": a}]
        if any(not isinstance(a[k], str) for k in ("short", "version", "type")) or any(
                not (a[k] is None or isinstance(a[k], str)) for k in ("bp_short", "bp_version", "bp_type")):
            return []                                      # the model takes str (and None for the base-product defaults) only
        if op == "create":
            return [{"op": "c14_create", "args": a}]
        return [{"op": "c14_roundtrip", "args": a}]

    def model_result(self, case, outs):
        if case["op"] == "rt_seq":
            return list(outs)
        if case["op"] == "pred":
            return {"model": outs[0], "spec": outs[1]}
        return outs[0]

    def compare(self, case, real_out, model_out):
        op, a = case["op"], case["args"]
        if op == "pred":
            r = {"model": real_out.get("ok", real_out), "spec": SPEC[a["which"]](a["s"])}
            return None if r == model_out else {"real": r, "model": model_out}
        if op == "pred_block":
            if real_out == model_out:
                return None
            dr, dm = {}, {}
            mo = model_out if isinstance(model_out, str) else ""
            if len(mo) != len(real_out):
                dr["count"] = len(real_out); dm["count"] = len(mo)
            names = sorted(BIT, key=BIT.get)
            for w, x, y in zip(block_words(a["alphabet"], a["prefix"], a["n"]), real_out, mo):
                if x != y:
                    for k in names:
                        bx, by = (ord(x) - 48) >> BIT[k] & 1, (ord(y) - 48) >> BIT[k] & 1
                        if bx != by:
                            dr["%s %r" % (k, w)] = bool(bx); dm["%s %r" % (k, w)] = bool(by)
                    if len(dr) >= 12:
                        break
            return {"real": dr, "model": dm}
        if op == "rt_seq":
            return None if real_out == model_out else {"real": real_out, "model": model_out}
        if op == "create_block":
            rc = real_out["codes"].replace("X", "1")        # the model op does not return the identifier; its format is checked by the oracle
            if rc == model_out:
                return None
            dr, dm = {}, {}
            mo = model_out if isinstance(model_out, str) else ""
            if len(mo) != len(rc):
                dr["count"] = len(rc); dm["count"] = len(mo)
            for w, x, y in zip(block_words(a["alphabet"], "", a["n"]), rc, mo):
                if x != y:
                    dr["%s=%r" % (a["pos"], w)] = x; dm["%s=%r" % (a["pos"], w)] = y
                    if len(dr) >= 12:
                        break
            return {"real": dr, "model": dm}
        if op == "create":
            return None if real_out["create"] == model_out else {"real": real_out["create"], "model": model_out}
        if op == "parse":
            return None if real_out == model_out else {"real": real_out, "model": model_out}
        r = {"create": real_out["create"], "parse": real_out["parse"]}
        return None if r == model_out else {"real": r, "model": model_out}

    # ---------------------------------------------------------------- the property on the real outputs
    def pred_failure(self, which, s, got):
        return {"case": {"op": "pred", "args": {"which": which, "s": s}}, "observed": got,
                "required": SPEC[which](s), "kind": "pred-vs-spec"}

    def mismatches(self, a, real_out):
        """(which, string, real verdict) for every string of the block on which a real predicate differs from the documented language"""
        if set(real_out) <= CONSISTENT:
            return
        for w, x in zip(block_words(a["alphabet"], a["prefix"], a["n"]), real_out):
            if x not in CONSISTENT:
                c = ord(x) - 48
                for which in PREDS:
                    if (c >> BIT[which] & 1) != (c >> SPEC_BIT[which] & 1):
                        yield which, w, bool(c >> BIT[which] & 1)

    def create_mismatches(self, a, real_out):
        """words of a create block on which create_release_id does not follow the real predicate of the varied position"""
        codes, bits = real_out["codes"], real_out["pred"]
        falsy_ok = a["pos"] == "bp_short"             # `if bp_short:` - the empty string means "no base product"
        inactive = a["pos"] in ("bp_version", "bp_type") and not a["bp_short"]
        quick = set(zip(codes, bits))
        if quick <= {("1", "1"), ("V", "0")} and not falsy_ok and not inactive:
            return
        for w, x, b in zip(block_words(a["alphabet"], "", a["n"]), codes, bits):
            want = "1" if (b == "1" or inactive or (falsy_ok and w == "")) else "V"
            if x != want:
                yield {"args": dict(a, **{a["pos"]: w}), "code": x, "want": want}

    def oracle(self, case, real_out):
        op, a = case["op"], case["args"]
        if op == "pred":
            want = SPEC[a["which"]](a["s"])
            got = real_out.get("ok", real_out)
            if got is not want:
                return {"observed": got, "required": want, "kind": "pred-vs-spec"}
            return None
        if op == "pred_block":
            # every string of the block is an instance of the `pred` check; a deviation is reported under the known finding
            # whose predicate matches that string, and as unmatched otherwise
            matched, unmatched, examples = {}, [], {}
            for which, w, got in self.mismatches(a, real_out):
                k = self.known_fast(self.pred_failure(which, w, got))
                if k is None:
                    if len(unmatched) < 20:
                        unmatched.append({"which": which, "s": w, "observed": got, "required": not got})
                else:
                    matched[k["id"]] = matched.get(k["id"], 0) + 1
                    examples.setdefault(k["id"], {"which": which, "s": w, "observed": got})
            if not matched and not unmatched:
                return None
            return {"observed": {"unmatched": unmatched, "matched_known": matched, "examples": examples},
                    "required": "each predicate accepts exactly the documented language on every string of the block",
                    "kind": "pred-vs-spec"}
        if op == "rt_seq":
            for i, (it, r) in enumerate(zip(a["items"], real_out)):
                o = self.oracle({"op": "roundtrip", "args": it}, r)
                if o is not None:
                    o = dict(o); o["observed"] = {"step": i, "of": len(a["items"]), "result": o["observed"]}; o["kind"] = "roundtrip-sequence"
                    return o
            return None
        if op == "create_block":
            bad = list(itertools.islice(self.create_mismatches(a, real_out), 20))
            if not bad:
                return None
            return {"observed": {"unmatched": [{"args": {k: x["args"][k] for k in self.POSITIONS}, "observed": x["code"], "required": x["want"]} for x in bad]},
                    "required": "create_release_id accepts (1) / raises ValueError (V) exactly as the validity predicate of the varied argument decides",
                    "kind": "create-vs-predicates"}
        if op == "parse":
            return None
        if op == "create":
            # create_release_id refuses precisely what the predicates refuse
            p = real_out["preds"]
            main_ok = all(p[k].get("ok") is True for k in ("short", "version", "type"))
            if a["bp_short"]:
                want_ok = main_ok and all(p[k].get("ok") is True for k in ("bp_short", "bp_version", "bp_type"))
            else:
                want_ok = main_ok
            got_ok = "ok" in real_out["create"]
            if got_ok != want_ok:
                return {"observed": real_out["create"], "required": "accepted" if want_ok else "refused (a validity predicate refuses one of the parts)",
                        "kind": "create-vs-predicates"}
            if got_ok:
                want = self.format(a)
                if real_out["create"]["ok"] != want:
                    return {"observed": real_out["create"], "required": {"ok": want}, "kind": "create-format"}
            else:
                # the exception is the one of the FIRST argument (in the order the code checks them) that is not accepted:
                # ValueError where the predicate answers False, the predicate's own exception (TypeError on a non-string) otherwise
                order = ["short", "version", "type"] + (["bp_short", "bp_version", "bp_type"] if a["bp_short"] else [])
                first = [p[k] for k in order if p[k].get("ok") is not True][0]
                want_err = "ValueError" if "ok" in first else first["err"]
                if real_out["create"].get("err") != want_err:
                    return {"observed": real_out["create"], "required": {"err": want_err}, "kind": "create-error-class"}
            return None
        # roundtrip: domain = what create accepts, known types, versions free of '-' and '@' (the property's quantifier)
        types = self.types()
        parts = [(a["short"], a["version"], a["type"])]
        if a["bp_short"]:
            parts.append((a["bp_short"], a["bp_version"], a["bp_type"]))
        in_domain = all(isinstance(x, str) for p in parts for x in p) and all(
            t in types and "-" not in v and "@" not in v for (_, v, t) in parts)
        spec_ok = in_domain and all(spec_short(s) and spec_version(v) and spec_short(t) for (s, v, t) in parts)
        cr = real_out["create"]
        if "ok" not in cr:
            if spec_ok:
                return {"observed": cr, "required": "create_release_id accepts documented names", "kind": "create-refuses-valid"}
            return None
        if not in_domain:
            return None
        want = {"short": a["short"], "version": a["version"], "type": a["type"]}
        if a["bp_short"]:
            want.update({"bp_short": a["bp_short"], "bp_version": a["bp_version"], "bp_type": a["bp_type"]})
        got = real_out["parse"]
        if got != {"ok": want}:
            return {"observed": {"id": cr["ok"], "parsed": got}, "required": {"parsed": {"ok": want}}, "kind": "roundtrip"}
        return None

    @staticmethod
    def format(a):
        def part(s, v, t):
            return "%s-%s" % (s, v) if t == "ga" else "%s-%s-%s" % (s, v, t)
        r = part(a["short"], a["version"], a["type"])
        if a["bp_short"]:
            r += "@" + part(a["bp_short"], a["bp_version"], a["bp_type"])
        return r

    # ---------------------------------------------------------------- bookkeeping
    def nontrivial(self, case, real_out):
        return True

    def stats(self, case, real_out, dist):
        op, a = case["op"], case["args"]
        dist[op] = dist.get(op, 0) + 1
        if op == "pred_block":
            dist["pred_strings"] = dist.get("pred_strings", 0) + len(real_out)
            for which in PREDS:
                n = sum(cnt for ch, cnt in ((ch, real_out.count(ch)) for ch in set(real_out)) if (ord(ch) - 48) >> BIT[which] & 1)
                dist["accepted_" + which] = dist.get("accepted_" + which, 0) + n
        elif op == "rt_seq":
            dist["rt_seq_steps"] = dist.get("rt_seq_steps", 0) + len(real_out)
        elif op == "create_block":
            dist["create_block_calls"] = dist.get("create_block_calls", 0) + len(real_out["codes"])
            dist["create_block_accepted"] = dist.get("create_block_accepted", 0) + real_out["codes"].count("1")
        elif op == "pred":
            k = "pred_accept" if real_out.get("ok") else "pred_refuse"
            dist[k] = dist.get(k, 0) + 1
        elif op == "parse":
            k = "parse_" + ("ok" if "ok" in real_out else real_out["err"])
            dist[k] = dist.get(k, 0) + 1
            k = "parse_shape:%s@%s-" % (min(a["id"].count("@"), 2), min(a["id"].split("@")[0].count("-"), 4))
            dist[k] = dist.get(k, 0) + 1
        else:
            cr = real_out["create"]
            k = op + "_" + ("ok" if "ok" in cr else cr["err"])
            dist[k] = dist.get(k, 0) + 1
            if op == "roundtrip":
                dist["type:" + str(a["type"])] = dist.get("type:" + str(a["type"]), 0) + 1
                if a["bp_short"]:
                    dist["with_base_product"] = dist.get("with_base_product", 0) + 1
                if isinstance(a["short"], str) and "-" in a["short"]:
                    dist["dashed_short"] = dist.get("dashed_short", 0) + 1
                if isinstance(a["version"], str) and a["version"][:1].isdigit():
                    dist["numeric_version"] = dist.get("numeric_version", 0) + 1

    def shrink_candidates(self, case):
        op, a = case["op"], case["args"]
        out = []
        if op == "pred_block":
            r = self.real(case)
            cands = []
            for which, w, got in self.mismatches(a, r):
                f = self.pred_failure(which, w, got)
                if self.known_fast(f) is None:
                    cands.append(f["case"])
                    if len(cands) >= 50:
                        break
            return sorted(cands, key=lambda c: len(c["args"]["s"]))
        if op == "rt_seq":
            its = a["items"]
            out = [{"op": op, "args": dict(a, items=its[:i] + its[i + 1:])} for i in range(len(its)) if len(its) > 1]
            if a.get("mutate"):
                out.append({"op": op, "args": dict(a, mutate=False)})
            if a.get("bad_between") is not None:
                out.append({"op": op, "args": dict(a, bad_between=None)})
            if len(its) == 1:
                out.append({"op": "roundtrip", "args": its[0]})
            return out
        if op == "create_block":
            r = self.real(case)
            cands = [{"op": "create", "args": {k: x["args"][k] for k in self.POSITIONS}}
                     for x in itertools.islice(self.create_mismatches(a, r), 50)]
            return sorted(cands, key=lambda c: len(c["args"][a["pos"]] or ""))
        if op == "pred":
            s = a["s"]
            for i in range(len(s)):
                out.append({"op": op, "args": dict(a, s=s[:i] + s[i + 1:])})
            return out
        if op in ("roundtrip", "create"):
            def with_(**kw):
                return {"op": op, "args": dict(a, **kw)}
            if a["bp_short"] is not None:
                out.append(with_(bp_short=None, bp_version=None, bp_type=None))
            if isinstance(a["bp_short"], str) and a["bp_short"]:
                out.append(with_(short=a["bp_short"], version=a["bp_version"], type=a["bp_type"], bp_short=None, bp_version=None, bp_type=None))
            for key in ("short", "version", "bp_short", "bp_version"):
                v = a[key]
                if isinstance(v, str):
                    for simple in ("f", "1"):
                        if len(simple) < len(v):
                            out.append(with_(**{key: simple}))
                    for i in range(len(v)):
                        out.append(with_(**{key: v[:i] + v[i + 1:]}))
            return [c for c in out if isinstance(c["args"]["short"], str) and isinstance(c["args"]["version"], str) and isinstance(c["args"]["type"], str)]
        return out


PROP = C14()

MANIFEST = dict(
    technique="Lean 4 proof: exact language of the three generated patterns for ALL strings through an adequacy theorem for the backtracking "
              "matcher (denotational semantics, soundness, completeness) and split-based specification predicates; round trip of the "
              "statement-by-statement model of create/parse_release_id by string lemmas (split, rsplit, count, endswith) with a decide'd "
              "condition on the regenerated RELEASE_TYPES table; exhaustive bounded enumeration (8 symbols, length <= 6/8) and generated "
              "identifiers tie the model to the real library and evaluate the property on it",
    text="C14_short_exact / C14_type_exact / C14_version_exact: for every string, is_valid_release_* (model = generated regex under the CPython-order "
         "matcher) accepts exactly the documented language, or such a word followed by one line feed (free-form versions: confined to one line); "
         "C14_*_partial: equality with the documented language on strings without a line feed (F15 is the excluded region, witnesses decided). "
         "C14_create_value / C14_create_refuses(_bp): create_release_id raises (ValueError) iff a predicate refuses a part. "
         "C14_roundtrip_partial: for parts of any length that the code accepts, known type, version free of '-' and '@', with or without base "
         "product, parse(create(parts)) = parts, except a dashed short name of type ga (F9: C14_F9_witness, C14_not_injective; C14_F9_region: the "
         "round trip fails for EVERY such input, C14_roundtrip_iff: it holds exactly outside that region). "
         "C14_types_suffix_free (decide on the regenerated table): the first-match loop over RELEASE_TYPES cannot pick a wrong type; "
         "C14_reorder_harmless: on a table where no entry is a suffix of another, the parser's result does not depend on the table order.",
    note="Partial where the code deviates from the documented behaviour: F15 (trailing line feed accepted by `$`; line feed inside a free-form version "
         "refused) and F9 (dashed short name with type ga is not invertible) are reported as KNOWN-FINDING through predicates on the failing input. "
         "Modelled, not verified: CPython re (validated on every enumerated string), str methods (validated through every create/parse case).",
    ref="7/C14")
