"""C20 - a compose directory is resolved to the same metadata in every supported layout.

Real temporary directory trees for every combination of layout (direct / compose/ / legacy sub-directory / several at
once), presence of each of the four metadata files under current and legacy names (every file with DIFFERENT content,
so a wrong choice is visible), trailing slash, valid versus invalid content.  The real `os.listdir` order of every
directory and the outcome of loading every candidate file directly are fed to the Lean model (`cd_run`), whose resolved
path, per-access results (object identity, file, text / error and the location it names) and load log are compared
with the real `productmd.compose.Compose`.  The oracle states the property on the real output alone.
"""
import json, os, random, shutil, tempfile
import checklib
from checklib import Prop, ROOT, REPO
import fmt7
import c20_url

KINDS = ["info", "images", "rpms", "modules"]
FMT_OF = {"info": "composeinfo", "images": "images", "rpms": "rpms", "modules": "modules"}
FILES = {"info": ["composeinfo.json"], "images": ["images.json", "image-manifest.json"], "rpms": ["rpms.json", "rpm-manifest.json"],
         "modules": ["modules.json"]}
KIND_OF_FILE = dict((f, k) for k, fs in FILES.items() for f in fs)
INVALID = {
    "notjson": b"hello, this is not json",
    "empty": b"",
    "binary": b"\xff\xfe\x00garbage",
    "wrongtype": b'{"header": {"version": "1.2", "type": "productmd.treeinfo"}, "payload": {}}',
    "obj": b"{}",
    "arr": b"[]",
    "hdronly": None,       # filled per kind: a correct header and nothing else
    "payloadlist": None,   # filled per kind: a correct header and a payload of the wrong type (a list)
    "payloadstr": None,    # ... (a string)
    "null": b"null",
    "num": b"12",
    "zero": b"0", "false": b"false", "emptystr": b'""', "blank": b" \n",          # audit A8: falsy documents
}
WRONG_SHAPE = ("obj", "arr", "hdronly", "payloadlist", "payloadstr", "null", "num", "zero", "false", "emptystr")
# audit A1/A2/A5/C2: the compose directory NAME - blanks, delimiters, non-ASCII, long, the literals of the resolver themselves
TOP_NAMES = ["P", "my compose", "P\u00e9-\u0663", "P-1.0", "compose", "metadata", "a:b=c", "n" * 100, "None", " lead"]
SPELLINGS = ["plain", "dslash", "dot", "dotdot", "inner-dslash"]            # audit A3: P//  P/.  P/../P  root//P (model skipped: oracle only)
NEAR_MISS_DIRS = ["compose2", "compos", "Compose-", "metadata.bak", "metadat"]            # audit A7/C2: extensions and proper prefixes of the literals
NEAR_MISS_FILES = ["images-manifest.json", "composeinfo.json.bak", "Images.json", "rpm-manifest.json~", "image-manifest.jso", "modules.json.old"]
HEADER_TYPE = {"info": "productmd.composeinfo", "images": "productmd.images", "rpms": "productmd.rpms", "modules": "productmd.modules"}


def errname(e):
    for cls, n in ((ValueError, "ValueError"), (KeyError, "KeyError"), (TypeError, "TypeError"), (AttributeError, "AttributeError"),
                   (IndexError, "IndexError"), (RuntimeError, "RuntimeError")):
        if isinstance(e, cls):
            return n
    return "Other"


def cls_of(kind):
    checklib.use_repo()
    import productmd.composeinfo, productmd.images, productmd.rpms, productmd.modules
    return {"info": productmd.composeinfo.ComposeInfo, "images": productmd.images.Images, "rpms": productmd.rpms.Rpms,
            "modules": productmd.modules.Modules}[kind]


def content_bytes(kind, what, salt):
    if what == "valid":
        obj = fmt7.build(FMT_OF[kind], random.Random("c20-%s" % salt))
        return obj.dumps().encode("utf-8")
    if what == "validempty":
        # a valid manifest with an EMPTY payload table (modules {}, images {}, rpms {}; composeinfo without variants)
        rng = random.Random("c20e-%s" % salt)
        obj = cls_of(kind)()
        fmt7._compose(obj.compose, rng)
        if kind == "info":
            full = fmt7.build("composeinfo", rng)
            obj = full
            obj.variants.variants.clear()
        return obj.dumps().encode("utf-8")
    if what == "validlegacy":
        # a pre-0.3 rpm manifest (payload/manifest, package type names, a src table): the legacy reader walks it with .items()/.get()
        doc = json.loads(fmt7.build("rpms", random.Random("c20-%s" % salt)).dumps())
        manifest = {}
        for v, arches in doc["payload"].pop("rpms").items():
            for a, srpms in arches.items():
                for srpm, rpms_ in srpms.items():
                    for nevra, d in rpms_.items():
                        manifest.setdefault(v, {}).setdefault(a, {}).setdefault(srpm, {})[nevra] = {"path": d["path"], "sigkey": d["sigkey"], "type": "package"}
                    manifest[v].setdefault("src", {})[srpm] = {"path": "%s/source/SRPMS/%s.rpm" % (v, srpm.replace("0:", "")), "sigkey": None, "type": "source"}
        doc["payload"]["manifest"] = manifest
        doc["header"] = {"version": "0.3"}
        return json.dumps(doc, indent=1, sort_keys=True).encode("utf-8")
    if what.startswith("corrupt|"):
        # one INNER value of a valid document replaced by a value of another JSON type: corrupt|<base kind>|<pointer>|<json>
        _, base, pointer, repl = what.split("|", 3)
        doc = json.loads(content_bytes(kind, base, salt).decode("utf-8"))
        node, keys = doc, json.loads(pointer)
        for k in keys[:-1]:
            node = node[k]
        node[keys[-1]] = json.loads(repl)
        return json.dumps(doc, indent=1, sort_keys=True).encode("utf-8")
    if what == "hdronly":
        return json.dumps({"header": {"version": "1.2", "type": HEADER_TYPE[kind]}}).encode()
    if what in ("payloadlist", "payloadstr"):
        return json.dumps({"header": {"version": "1.2", "type": HEADER_TYPE[kind]}, "payload": [] if what == "payloadlist" else "x"}).encode()
    return INVALID[what]


REPLACEMENTS = ["null", "7", "\"x\"", "[]", "{}", "[1]", "{\"a\": 1}"]


def inner_pointers(doc):
    """paths (lists of keys/indices) of every value strictly below the root, parents before children"""
    out = []

    def rec(node, path):
        items = node.items() if isinstance(node, dict) else enumerate(node) if isinstance(node, list) else []
        for k, v in (sorted(items) if isinstance(node, dict) else items):
            out.append((path + [k], v))
            rec(v, path + [k])
    rec(doc, [])
    return out


def json_type(v):
    return "null" if v is None else "bool" if isinstance(v, bool) else "num" if isinstance(v, (int, float)) else "str" if isinstance(v, str) else "list" if isinstance(v, list) else "dict"


def build_tree(root, layouts, seed, top="P", links=None, noise="plain", special=None):
    """layouts: {dir relative to the compose dir ('' = direct): {file name: content kind}}; plus noise directories.
    links: 'metadata-dir' (every metadata directory is a symlink to a directory elsewhere) / 'files' (every metadata file is a symlink);
    noise 'near': files and directories whose names are extensions / proper prefixes / case variants of the resolver's literals;
    special: 'file' (the compose path is a regular file) / 'missing' / 'empty'"""
    P = os.path.join(root, top)
    if special == "missing":
        return
    if special == "file":
        os.makedirs(os.path.dirname(P), exist_ok=True)
        with open(P, "w") as f:
            f.write("not a directory\n")
        return
    os.makedirs(P)
    if special == "empty":
        return
    n = 0
    for sub, files in sorted(layouts.items()):
        md = os.path.join(P, sub, "metadata") if sub else os.path.join(P, "metadata")
        if links == "metadata-dir":
            n += 1
            real_md = os.path.join(root, "elsewhere", "md%d" % n)
            os.makedirs(real_md)
            os.makedirs(os.path.dirname(md), exist_ok=True)
            os.symlink(real_md, md)
        else:
            os.makedirs(md)
        for name, what in sorted(files.items()):
            data = content_bytes(KIND_OF_FILE[name], what, "%s/%s/%s" % (seed, sub, name))
            target = os.path.join(md, name)
            if links == "files":
                n += 1
                real_f = os.path.join(root, "elsewhere", "f%d" % n)
                os.makedirs(os.path.dirname(real_f), exist_ok=True)
                with open(real_f, "wb") as f:
                    f.write(data)
                os.symlink(real_f, target)
            else:
                with open(target, "wb") as f:
                    f.write(data)
        if noise == "near":
            for nm in NEAR_MISS_FILES:
                with open(os.path.join(md, nm), "wb") as f:
                    f.write(content_bytes("images", "valid", "noise"))
    for d in ("logs", "work") + (tuple(NEAR_MISS_DIRS) if noise == "near" else ()):
        os.makedirs(os.path.join(P, d), exist_ok=True)
    if noise == "near":
        os.makedirs(os.path.join(P, "compos", "metadat"), exist_ok=True)
        with open(os.path.join(P, "metadata.bak", "composeinfo.json"), "wb") as f:
            f.write(b"{}")
    with open(os.path.join(P, "STATUS"), "w") as f:
        f.write("FINISHED\n")


def walk(root, top):
    nodes, orders = [], []
    stack = [top]
    while stack:
        rel = stack.pop()
        full = os.path.join(root, rel)
        isdir = os.path.isdir(full)
        nodes.append([rel, isdir])
        if isdir:
            names = os.listdir(full)            # the REAL order, fed to the model
            orders.append([rel, names])
            for n in names:
                stack.append(rel + "/" + n)
    return nodes, orders


class C20(Prop):
    id = "C20"
    lean_module = "ProductMD.Properties.C20"
    quick_budget = 700
    thorough_budget = 6000
    rule = ("real directory trees: every single layout x every presence combination of the six file names x trailing slash "
            "(exhaustive), multi-layout combinations, every invalid-content kind x file, the two fixture composes; 7 accesses each "
            "(every accessor at least once, repeated accesses); full and EMPTY-payload manifests with the file deleted between "
            "two accesses for all four accessors; correspondence with the model fed the real os.listdir orders; "
            "oracle: resolved layout, file chosen, dumps() equal to a direct load, `is` identity and one load per kind, RuntimeError "
            "naming the location; non-trivial = distinct tree.  REMOTE stream (op url): the real library with productmd.common._urlopen replaced by an "
            "in-memory fetcher handing out genuine http.client.HTTPResponse / urllib addinfourl / text objects: scheme x layout x presence x slash, "
            "multi-layout, every fault (404, refused, timeout, disconnect, ValueError) x every URL the resolver can touch, nets that change between "
            "probe and load, invalid content, a local directory spelled like the URL, the real _urlopen on a refused port and on a loop-back "
            "http.server; fetch log (URL order, closed) and results compared with the model (cd_url_run); op load3: one document by path / open "
            "file object / URL")
    assumptions = ["POSIX file system: exists/listdir ignore a trailing slash on a directory (hypothesis of C20_slash; exercised on real dirs)",
                   "remote locations: the net is abstract (fetch outcome per URL and per successive fetch: response | URLError | other exception; parse outcome per response); "
                   "what a server does with `c//compose`, redirects, proxies and TLS are the world's business; `_urlopen` itself (ssl context, urllib) is exercised "
                   "only against the loop-back server / a refused port, not modelled", "'undecodable' = an exception of a class named in the except clause of _load_metadata (read from the source: "
                   "ValueError, KeyError, TypeError, AttributeError) during load; other classes (OSError) propagate"]
    partial = {"C20_url_propagates_partial": "states what the code does with fetch failures that are not URLError (they leave the constructor / accessor unchanged, "
                                              "never as RuntimeError) and with a URLError of the load's own fetch; whether the property wants RuntimeError there is a reading "
                                              "question (a timeout is not 'a missing file'); URLs that urllib rejects outright: known finding F47"}

    def gen(self):
        return json.load(open(os.path.join(ROOT, "lean", "generated.json")))

    # ------------------------------------------------------------------ generators
    def presence_combos(self):
        for info in (True, False):
            for im in ("none", "cur", "leg", "both"):
                for rp in ("none", "cur", "leg", "both"):
                    for mod in (True, False):
                        files = {}
                        if info:
                            files["composeinfo.json"] = "valid"
                        for kind, sel in (("images", im), ("rpms", rp)):
                            cur, leg = FILES[kind]
                            if sel in ("cur", "both"):
                                files[cur] = "valid"
                            if sel in ("leg", "both"):
                                files[leg] = "valid"
                        if mod:
                            files["modules.json"] = "valid"
                        yield files

    def accesses(self, rng):
        seq = KINDS + [rng.choice(KINDS) for _ in range(3)]
        rng.shuffle(seq)
        return seq

    def url_cases(self, rng, tier, budget):
        """remote locations: the same combinations as local, plus fetch faults"""
        combos = list(self.presence_combos())
        full = {"composeinfo.json": "valid", "images.json": "valid", "image-manifest.json": "valid", "rpms.json": "valid", "rpm-manifest.json": "valid", "modules.json": "valid"}
        bases = {"http": ["http://mirror.example/composes/P-1.0", "http://mirror.example:8080/c", "http://h/compose", "http://h/x/metadata"],
                 "https": ["https://mirror.example/composes/P-1.0", "https://user@h.example/a/b/c"], "ftp": ["ftp://ftp.example/pub/P-1.0", "ftp://h/c"]}
        schemes = ["http", "https", "ftp"]
        n = 0

        def mk(scheme, layouts, **kw):
            nonlocal n
            n += 1
            a = {"scheme": scheme, "base": kw.pop("base", None) or bases[scheme][n % len(bases[scheme])], "layouts": layouts, "seed": 60000 + n,
                 "accesses": kw.pop("accesses", None) or self.accesses(rng), "slash": kw.pop("slash", n % 2 == 0)}
            a.update((x, y) for x, y in kw.items() if y is not None)
            return {"op": "url", "args": a}
        # pinned: both layouts + legacy at once; the three response kinds
        for scheme in schemes:
            yield mk(scheme, {"": dict(full), "compose": dict(full), "1.0": dict(full)})
            yield mk(scheme, {"1.0": dict(full)})
        yield mk("http", {"compose": dict(full)}, resp="text")
        # A. single layouts x presence x slash x scheme
        step = 3 if tier == "quick" else 1
        for si, sub in enumerate(("", "compose", "1.0")):
            for ci, files in enumerate(combos):
                if (ci + si) % step and len(files) not in (0, 6):
                    n += 1
                    continue
                files = dict(files)
                if sub == "compose" and ci % 4:
                    files["composeinfo.json"] = "valid"
                yield mk(schemes[(ci + si) % 3], {sub: files})
        # B. several layouts at once
        multi = [["", "compose"], ["", "1.0"], ["compose", "1.0"], ["", "compose", "1.0"], []]
        for i in range(max(30, budget // 20)):
            layouts = {}
            for sub in multi[i % len(multi)]:
                files = dict(rng.choice(combos))
                if sub == "compose" and rng.random() < 0.7:
                    files["composeinfo.json"] = "valid"
                layouts[sub] = files
            yield mk(schemes[i % 3], layouts, suffix=["", "/", "//"][i % 3] if i % 5 == 0 else None)
        # C. fetch faults, stationary: every fault x every URL the resolver can touch (probe; candidates under direct and compose/)
        targets = ["compose/metadata/composeinfo.json"] + ["%smetadata/%s" % (p, f) for p in ("", "compose/") for f in sorted(KIND_OF_FILE)]
        i = 0
        for fault in sorted(c20_url.FAULTS):
            for t in targets:
                i += 1
                if tier == "quick" and fault in ("refused", "disconnect") and i % 3:
                    continue
                layouts = {"": dict(full)}
                if t.startswith("compose/") and t != targets[0] or i % 2:
                    layouts["compose"] = dict(full)
                k = KIND_OF_FILE[t.rsplit("/", 1)[1]]
                yield mk(schemes[i % 3], layouts, faults={t: [fault]}, accesses=[k, "info", k] + self.accesses(rng)[:3])
        # D. a net that changes between two fetches of the same URL: present for the probe, failing for the load, and the reverse
        for fault in sorted(c20_url.FAULTS):
            for t in targets[1:]:
                i += 1
                if tier == "quick" and i % 3:
                    continue
                k = KIND_OF_FILE[t.rsplit("/", 1)[1]]
                layouts = {"": dict(full)} if not t.startswith("compose/") else {"compose": dict(full)}
                yield mk(schemes[i % 3], layouts, faults={t: ["ok", fault] if i % 2 else [fault, "ok"]}, accesses=[k, k, k, "info"])
        # E. invalid content over a URL
        i = 0
        for what in sorted(INVALID):
            for name in sorted(KIND_OF_FILE):
                i += 1
                if tier == "quick" and i % 2:
                    continue
                sub = ["", "compose"][i % 2]
                files = dict(rng.choice(combos))
                if sub == "compose":
                    files.setdefault("composeinfo.json", "valid")
                files[name] = what
                yield mk(schemes[i % 3], {sub: files}, resp="text" if i % 7 == 0 else None)
        # F. a local directory spelled like the URL, with a legacy sub-directory; other spellings of the location
        for scheme in schemes:
            yield mk(scheme, {}, shadow=True, base="%s://h.example/c" % scheme, accesses=["info", "images"])
            yield mk(scheme, {"1.0": dict(full)}, shadow=True, base="%s://h.example/c" % scheme, accesses=["info", "images"], index_pages=["1.0/metadata", "1.0", "metadata"])
            yield mk(scheme, {"compose": dict(full)}, shadow=True, base="%s://h.example/c" % scheme, accesses=["info", "images"])
        # G. the real `_urlopen`: connection refused on the discard port (no network needed), a loop-back static server
        for base in ("http://127.0.0.1:9/P", "https://127.0.0.1:9/P", "ftp://127.0.0.1:9/P", "http://127.0.0.1:9/my compose", "http://127.0.0.1:9/P\u00e9"):
            yield mk(base.split(":")[0], {}, base=base, fetcher="real", accesses=["info", "images"], slash=False)
        for j, layouts in enumerate([{"": dict(full)}, {"compose": dict(full), "": dict(full)}, {"1.0": dict(full)},
                                     {"compose": {"composeinfo.json": "valid", "image-manifest.json": "valid", "rpms.json": "notjson"}}]):
            yield mk("http", layouts, fetcher="httpd", slash=j % 2 == 1)
        # H. MetadataBase.load: one document by path / open file object / URL (each kind of response object)
        for k in KINDS:
            for what in ("valid", "validempty", "notjson", "binary", "empty", "obj", "hdronly", "null"):
                n += 1
                yield {"op": "load3", "args": {"kind": k, "what": what, "seed": n}}

    def cases(self, rng, tier, budget):
        n = 0
        for c in self.url_cases(random.Random(rng.random()), tier, budget):
            yield c
        yield {"op": "fixture", "args": {"root": "tests", "path": "compose", "slash": False, "accesses": ["info", "info", "images"]}}
        yield {"op": "fixture", "args": {"root": "tests", "path": "compose-legacy", "slash": True, "accesses": ["info", "rpms", "info"]}}
        yield {"op": "fixture", "args": {"root": "tests", "path": "compose/compose", "slash": False, "accesses": ["info", "modules", "info"]}}
        # A. single layouts, exhaustive presence x slash
        combos = list(self.presence_combos())
        for sub in ("", "compose", "1.0"):
            for ci, files in enumerate(combos):
                for slash in (False, True):
                    n += 1
                    if tier == "quick" and (ci + int(slash)) % 2 and len(files) not in (0, 6):
                        continue
                    yield {"op": "tree", "args": {"layouts": {sub: files}, "slash": slash, "seed": n, "accesses": self.accesses(rng)}}
        # B. several layouts at once
        multi = [["", "compose"], ["", "1.0"], ["compose", "1.0"], ["", "compose", "1.0"], ["1.0", "22"], ["", "1.0", "22"], ["compose", "1.0", "22", "Z"], []]
        for i in range(max(80, budget // 4)):
            subs = multi[i % len(multi)]
            layouts = {}
            for sub in subs:
                files = dict(rng.choice(combos))
                if sub == "compose" and rng.random() < 0.7:
                    files["composeinfo.json"] = "valid"
                layouts[sub] = files
            yield {"op": "tree", "args": {"layouts": layouts, "slash": rng.random() < 0.5, "seed": 10000 + i, "accesses": self.accesses(rng)}}
        # D. loaded once, then reused: full and EMPTY-payload manifests, the file deleted between two accesses
        i = 0
        for what in ("validempty", "valid"):
            for k in KINDS:
                for legacy_name in ([False, True] if len(FILES[k]) > 1 else [False]):
                    sub = ["", "compose", "1.0"][i % 3]
                    files = {FILES[k][1 if legacy_name else 0]: what}
                    if sub == "compose":
                        files.setdefault("composeinfo.json", "valid")
                    others = [x for x in KINDS if x != k]
                    for seq in ([k, k, "rm:" + k, k, k], [k, "rm:" + k, k, others[i % 3], k], ["rm:" + k, k, k]):
                        i += 1
                        yield {"op": "tree", "args": {"layouts": {sub: dict(files)}, "slash": i % 2 == 0, "seed": 30000 + i, "accesses": seq}}
        for i in range(max(12, budget // 40)):
            files = dict((FILES[k][0], rng.choice(["validempty", "valid"])) for k in KINDS)
            seq = self.accesses(rng)
            for _ in range(2):
                seq.insert(rng.randrange(1, len(seq)), "rm:" + rng.choice(KINDS))
            yield {"op": "tree", "args": {"layouts": {rng.choice(["", "compose", "1.0"]): files}, "slash": rng.random() < 0.5, "seed": 31000 + i, "accesses": seq}}
        # F. generator audit: directory names, path spellings, symlinked metadata, near-miss names, special compose paths, repair
        i = 0
        for top in TOP_NAMES:
            for sub in ("", "compose", "1.0"):
                i += 1
                files = dict(rng.choice(combos))
                if sub == "compose":
                    files["composeinfo.json"] = "valid"
                yield {"op": "tree", "args": {"layouts": {sub: files}, "slash": i % 2 == 0, "seed": 50000 + i, "accesses": self.accesses(rng), "top": top,
                                              "noise": "near" if i % 2 else "plain", "links": [None, "metadata-dir", "files"][i % 3]}}
        for sp in SPELLINGS[1:]:
            for sub in ("", "compose", "1.0"):
                for slash in (False, True):
                    i += 1
                    files = {"composeinfo.json": "valid", "images.json": "valid", "rpm-manifest.json": "valid"}
                    yield {"op": "tree", "args": {"layouts": {sub: files}, "slash": slash, "seed": 50000 + i, "accesses": self.accesses(rng), "spelling": sp,
                                                  "top": rng.choice(TOP_NAMES[:4])}}
        for special in ("missing", "empty", "file"):
            for slash in (False, True):
                i += 1
                yield {"op": "tree", "args": {"layouts": {}, "slash": slash, "seed": 50000 + i, "accesses": ["info", "images"], "special": special}}
        for subs in (["Compose", "compose"], ["COMPOSE"], ["Compose"], ["compose", "Metadata"]):          # audit A4: names that differ only in case
            i += 1
            layouts = dict((sub, {"composeinfo.json": "valid", "images.json": "valid"}) for sub in subs)
            yield {"op": "tree", "args": {"layouts": layouts, "slash": False, "seed": 50000 + i, "accesses": ["info", "images", "info"], "noise": "near"}}
        for k in KINDS:                                # failed access -> the file appears -> success, then cached
            for sub in ("", "1.0"):
                i += 1
                others = dict((FILES[x][0], "valid") for x in KINDS if x != k)
                yield {"op": "tree", "args": {"layouts": {sub: others}, "slash": i % 2 == 0, "seed": 50000 + i, "accesses": [k, "mk:" + k, k, k, "rm:" + k, k]}}
        # E. well-formed JSON of the right OUTER shape with ONE inner value of the wrong type (null / number / string / list / dict):
        #    systematic walk over a valid document of each file (and of a pre-0.3 rpm manifest); the loaders then fail in a subscript
        #    (KeyError/TypeError), a method call on the foreign value (AttributeError: .keys/.get/.items/.lower) or a validator
        combos_e = []
        for name, base in (("composeinfo.json", "valid"), ("images.json", "valid"), ("rpms.json", "valid"), ("modules.json", "valid"), ("rpm-manifest.json", "validlegacy")):
            k = KIND_OF_FILE[name]
            doc = json.loads(content_bytes(k, base, "40000//%s" % name).decode("utf-8"))
            for path, v in inner_pointers(doc):
                for repl in REPLACEMENTS:
                    if json_type(json.loads(repl)) != json_type(v) or (isinstance(v, (list, dict)) and v and repl in ("[]", "{}")):
                        combos_e.append((name, base, path, repl))
        notes = [("composeinfo.json", "valid", ["payload", "variants"], "null"), ("composeinfo.json", "valid", ["payload", "variants"], "[]"),
                 ("composeinfo.json", "valid", ["payload", "release", "type"], "7"), ("composeinfo.json", "valid", ["payload", "variants", "V1"], "\"x\""),
                 ("rpm-manifest.json", "validlegacy", ["payload", "manifest", "Server", "x86_64"], "[]"),
                 ("rpm-manifest.json", "validlegacy", ["payload", "manifest", "Server", "ppc64le"], "[]")]
        doc_ci = json.loads(content_bytes("info", "valid", "40000//composeinfo.json").decode("utf-8"))
        first_variant = sorted(doc_ci["payload"]["variants"])[0]
        notes = [(n, b, [first_variant if x == "V1" else x for x in pth], r) for n, b, pth, r in notes]
        doc_im = json.loads(content_bytes("images", "valid", "40000//images.json").decode("utf-8"))
        notes.append(("images.json", "valid", ["payload", "images", sorted(doc_im["payload"]["images"])[0]], "[1]"))      # finding F34
        valid_ptrs = set((n, json.dumps(pth)) for n, b, pth, r in combos_e)
        notes = [x for x in notes if (x[0], json.dumps(x[2])) in valid_ptrs]
        if tier == "quick":
            rng.shuffle(combos_e)
            picked = notes + combos_e[:max(150, budget // 4)]
        else:
            picked = notes + combos_e
        for i, (name, base, path, repl) in enumerate(picked):
            what = "corrupt|%s|%s|%s" % (base, json.dumps(path), repl)
            k = KIND_OF_FILE[name]
            yield {"op": "tree", "args": {"layouts": {"": {name: what}}, "slash": i % 2 == 0, "seed": 40000, "accesses": [k, k]}}
        # C. invalid content: every kind of damage x every file name x layout
        i = 0
        for what in sorted(INVALID):
            for name in sorted(KIND_OF_FILE):
                sub = ["", "compose", "1.0"][i % 3]
                files = dict(rng.choice(combos))
                if sub == "compose":
                    files.setdefault("composeinfo.json", "valid")
                files[name] = what
                i += 1
                yield {"op": "tree", "args": {"layouts": {sub: files}, "slash": i % 2 == 0, "seed": 20000 + i, "accesses": self.accesses(rng)}}

    # ------------------------------------------------------------------ real side
    def real(self, case):
        checklib.use_repo()
        import productmd.compose, productmd.common as C
        a = case["args"]
        tmp = None
        if case["op"] == "url":
            return c20_url.real_url(case, content_bytes, cls_of, build_tree)
        if case["op"] == "load3":
            return c20_url.real_load3(case, content_bytes, cls_of)
        if case["op"] == "fixture":
            root, top = os.path.join(REPO, a["root"]), a["path"]
        else:
            tmp = tempfile.mkdtemp(prefix="c20-")
            root, top = tmp, a.get("top", "P")
            build_tree(root, a["layouts"], a["seed"], top, a.get("links"), a.get("noise", "plain"), a.get("special"))
        try:
            nodes, orders = walk(root, top) if os.path.lexists(os.path.join(root, top)) else ([], [])
            sp = a.get("spelling", "plain")
            given = {"plain": top, "dslash": top + "/", "dot": top + "/.", "dotdot": top + "/../" + top, "inner-dslash": "/" + top}[sp] + ("/" if a["slash"] else "")
            log = []
            orig_load = C.MetadataBase.load

            def logged(self, f):
                log.append([type(self).__name__, f])
                return orig_load(self, f)
            rel = lambda p: os.path.relpath(p, root) + ("/" if p.endswith("/") else "") if isinstance(p, str) and p.startswith(root) else p
            out = {"nodes": nodes, "orders": orders, "given": given, "top": top}
            # outcome of loading every candidate file directly (input of the model, and the oracle's reference) - taken
            # BEFORE the accesses, which may delete files
            direct = []
            for relp, isdir in nodes:
                name = os.path.basename(relp)
                if not isdir and name in KIND_OF_FILE and os.path.basename(os.path.dirname(relp)) == "metadata":
                    k = KIND_OF_FILE[name]
                    try:
                        o = cls_of(k)()
                        o.load(os.path.join(root, relp))
                        direct.append([k, relp, {"ok": o.dumps()}])
                    except Exception as e:
                        direct.append([k, relp, {"err": errname(e)}])
            C.MetadataBase.load = logged
            try:
                try:
                    comp = productmd.compose.Compose(root + "/" + given)
                    out["compose_path"] = {"ok": rel(comp.compose_path)}
                except Exception as e:
                    out["compose_path"] = {"err": errname(e)}
                    comp = None
                results, objs = [], []
                if comp is not None:
                    for k in a["accesses"]:
                        if k.startswith("mk:"):               # audit B2: failed call -> repair -> success (a failure is not cached)
                            fp = os.path.join(comp.compose_path, "metadata", FILES[k[3:]][0])
                            created = None
                            if tmp and os.path.isdir(os.path.dirname(fp)) and not os.path.lexists(fp):
                                with open(fp, "wb") as f:
                                    f.write(content_bytes(k[3:], "valid", "mk-%s" % a["seed"]))
                                o2 = cls_of(k[3:])()
                                o2.load(fp)
                                created = rel(fp)
                                direct.append([k[3:], os.path.normpath(created), {"ok": o2.dumps()}])
                            results.append({"mk": True, "created": created})
                            continue
                        if k.startswith("rm:"):
                            removed = []
                            if tmp:                                   # never in a fixture
                                for n in FILES[k[3:]]:
                                    fp = os.path.join(comp.compose_path, "metadata", n)
                                    if os.path.isfile(fp):
                                        os.remove(fp)
                                        removed.append(rel(fp))
                            results.append({"rm": True, "removed": removed})
                            continue
                        before = len(log)
                        try:
                            o = getattr(comp, k)
                            ident = [i for i, x in enumerate(objs) if x is o]
                            if not ident:
                                objs.append(o)
                                ident = [len(objs) - 1]
                            results.append({"ok": {"ident": ident[0], "text": o.dumps(), "loaded_now": [rel(p) for _, p in log[before:]]}})
                        except Exception as e:
                            r = {"err": errname(e)}
                            if isinstance(e, RuntimeError):
                                msg = str(e)
                                if msg.startswith("Failed to load metadata from "):
                                    r["named"] = rel(msg[len("Failed to load metadata from "):])
                                elif " can not be deserialized" in msg:
                                    r["named"] = rel(msg.split(" can not be deserialized")[0])
                                else:
                                    r["named"] = None
                            results.append(r)
                out["results"] = results
                out["loads"] = [[c, rel(p)] for c, p in log]
            finally:
                C.MetadataBase.load = orig_load
            out["direct"] = direct
            return out
        finally:
            if tmp:
                shutil.rmtree(tmp, ignore_errors=True)

    def real_and_stash(self, case):
        out = self._real(case)
        self._last = out
        return out

    # ------------------------------------------------------------------ model side
    def model_requests(self, case):
        a0 = case["args"]
        if case["op"] == "url":
            return c20_url.model_request(case, self._last)
        if case["op"] == "load3":
            return []
        if a0.get("spelling", "plain") != "plain" or any(k.startswith("mk:") for k in a0["accesses"]):
            return []                                # path spellings the tree model does not normalise ('..', '.') / a growing file system: oracle only
        r = self._last
        return [{"op": "cd_run", "args": {"nodes": r["nodes"], "orders": r["orders"], "loads": r["direct"], "compose_path": r["given"],
                                          "accesses": case["args"]["accesses"]}}]

    def compare(self, case, r, m):
        if case["op"] == "url":
            return c20_url.compare(case, r, m)
        cls_names = {"info": "ComposeInfo", "images": "Images", "rpms": "Rpms", "modules": "Modules"}
        rv = {"compose_path": r["compose_path"]}
        mv = {"compose_path": m["compose_path"]}
        if "ok" in r["compose_path"] and "ok" in m["compose_path"]:
            # identities: real `is`-classes vs model object ids, both renumbered by first appearance
            def renum(ids):
                seen = {}
                return [seen.setdefault(i, len(seen)) if i is not None else None for i in ids]
            rres, rid = [], []
            for x in r["results"]:
                if "ok" in x:
                    rres.append({"ok": x["ok"]["text"]}); rid.append(x["ok"]["ident"])
                elif "rm" in x or "mk" in x:
                    rres.append({"rm": True}); rid.append(None)
                else:
                    rres.append(x); rid.append(None)
            mres, mid = [], []
            for x in m["results"]:
                if "ok" in x:
                    mres.append({"ok": x["ok"]["text"]}); mid.append(x["ok"]["id"])
                else:
                    mres.append(x); mid.append(None)
            rv.update(results=rres, idents=renum(rid), loads=r["loads"])
            mv.update(results=mres, idents=renum(mid), loads=[[cls_names.get(k, k), p] for k, p in m["loads"]])
        if rv != mv:
            return {"real": rv, "model": mv}
        return None

    # ------------------------------------------------------------------ the property itself
    def oracle(self, case, r):
        a = case["args"]
        if case["op"] == "url":
            return c20_url.oracle(case, r)
        if case["op"] == "load3":
            return c20_url.oracle_load3(case, r)
        if case["op"] == "fixture":
            layouts = None
        else:
            layouts = a["layouts"]
        nodes = dict((p, d) for p, d in r["nodes"])
        top = r.get("top") or r["given"].rstrip("/")
        if "err" in r["compose_path"]:
            return {"observed": dict(r["compose_path"], special=a.get("special")), "required": "Compose(path) resolves; a missing compose surfaces as RuntimeError naming the location on access",
                    "kind": "constructor-raised"}
        resolved = os.path.normpath(r["compose_path"]["ok"])
        # 1. layout
        has_meta = lambda d: nodes.get(d + "/metadata") is True
        subdirs = sorted(p for p, d in nodes.items() if d and os.path.dirname(p) == top and has_meta(p))
        if nodes.get(top + "/compose/metadata/composeinfo.json") is False:
            allowed = [top + "/compose"]
        elif subdirs and not has_meta(top):
            allowed = subdirs
        elif subdirs:
            allowed = subdirs + [top]            # direct and sub-directory layouts together: precedence not specified
        else:
            allowed = [top]
        if resolved not in allowed:
            return {"observed": {"compose_path": r["compose_path"]["ok"]}, "required": {"one_of": allowed}, "kind": "wrong-layout"}
        # 2. accessors
        direct = dict(((k, p), out) for k, p, out in r["direct"])
        first_ok, loads_per_kind = {}, {}
        gone = set()
        for (k, res) in zip(a["accesses"], r["results"]):
            if k.startswith("rm:"):
                gone.update(resolved + "/metadata/" + n for n in FILES[k[3:]])
                continue
            if k.startswith("mk:"):
                if res.get("created"):
                    nodes[os.path.normpath(res["created"])] = False
                    gone.discard(os.path.normpath(res["created"]))
                    direct[(k[3:], os.path.normpath(res["created"]))] = dict(((kk, pp), oo) for kk, pp, oo in r["direct"]).get((k[3:], os.path.normpath(res["created"])))
                continue
            if k in first_ok:
                # already loaded successfully: the SAME object, whatever has happened to the file since
                if "ok" not in res or res["ok"]["ident"] != first_ok[k] or res["ok"]["loaded_now"]:
                    return {"observed": {"access": k, "result": res if "ok" not in res else {"identity": res["ok"]["ident"], "first": first_ok[k], "loaded_again": res["ok"]["loaded_now"]},
                                         "files_deleted_meanwhile": sorted(gone)},
                            "required": "loaded once and then reused: the same object on every later access (is), no further load", "kind": "not-cached"}
                continue
            present = [resolved + "/metadata/" + n for n in FILES[k] if nodes.get(resolved + "/metadata/" + n) is False and resolved + "/metadata/" + n not in gone]
            if not present:
                want = {"err": "RuntimeError", "named": resolved}
                got = dict(res)
                if got.get("named"):
                    got["named"] = os.path.normpath(got["named"])
                if got != want:
                    return {"observed": {"access": k, "result": res}, "required": want, "kind": "missing-not-runtime-error"}
                continue
            f = present[0]                       # the current name when it exists, else the legacy one
            ref = direct.get((k, f))
            if ref is None:
                continue
            if "ok" in ref:
                if "ok" not in res or res["ok"]["text"] != ref["ok"]:
                    return {"observed": {"access": k, "result": res if "ok" not in res else {"text_differs_from": f, "loaded": res["ok"]["loaded_now"]}},
                            "required": {"equals_direct_load_of": f}, "kind": "wrong-file-or-content"}
                loads_per_kind[k] = loads_per_kind.get(k, 0) + len(res["ok"]["loaded_now"])
                if k in first_ok and first_ok[k] != res["ok"]["ident"]:
                    return {"observed": {"access": k, "identity": res["ok"]["ident"], "first": first_ok[k]}, "required": "the same object on every access (is)", "kind": "not-cached"}
                first_ok.setdefault(k, res["ok"]["ident"])
                if loads_per_kind[k] != 1:
                    return {"observed": {"access": k, "loads": loads_per_kind[k]}, "required": "loaded once", "kind": "loaded-again"}
            else:
                want = {"err": "RuntimeError", "named": f}
                if dict(res, named=os.path.normpath(res["named"])) != want if res.get("named") else res != want:
                    shape = None
                    if layouts is not None:
                        sub = os.path.relpath(resolved, top) if resolved != top else ""
                        shape = layouts.get(sub if sub != "." else "", {}).get(os.path.basename(f))
                    return {"observed": {"access": k, "result": res, "file": f, "content": shape, "direct_load": ref},
                            "required": want, "kind": "wrong-shape-not-runtime-error" if (shape in WRONG_SHAPE or str(shape).startswith("corrupt|")) else "undecodable-not-runtime-error"}
        return None

    def nontrivial(self, case, real_out):
        return True

    def stats(self, case, r, dist):
        dist[case["op"]] = dist.get(case["op"], 0) + 1
        if case["op"] == "load3":
            for how, got in r.items():
                k = "load3 %s: %s" % (how, "ok" if "ok" in got else "err " + got["err"])
                dist[k] = dist.get(k, 0) + 1
            return
        if case["op"] == "url":
            a = case["args"]
            if "skipped" in r:
                dist["url skipped: " + r["skipped"][:40]] = dist.get("url skipped: " + r["skipped"][:40], 0) + 1
                return
            for k in ["url scheme:" + a.get("scheme", "http"), "url fetcher:" + a.get("fetcher", "fake"), "url response object:" + c20_url.resp_kind(a),
                      "url layouts:" + ("+".join(sorted(x or "direct" for x in a["layouts"])) or "none"), "url suffix:" + repr(a.get("suffix", "/" if a.get("slash") else "")),
                      "url compose_path: " + ("raised " + r["compose_path"].get("class", "?") if "err" in r["compose_path"] else
                                              "compose/" if r["compose_path"]["ok"].rstrip("/").endswith("/compose") and not a["base"].endswith("/compose") else "as given")] \
                    + ["url fault:" + f for fl in (a.get("faults") or {}).values() for f in fl] + (["url shadowed by a local directory"] if a.get("shadow") else []):
                dist[k] = dist.get(k, 0) + 1
            dist["url fetches"] = dist.get("url fetches", 0) + len(r.get("fetches") or r.get("init_fetches") or [])
            for res in r.get("results", []):
                k = "url access ok" if "ok" in res else "url access err:" + res.get("class", res["err"])
                dist[k] = dist.get(k, 0) + 1
            return
        if case["op"] == "tree":
            k = "layouts:" + "+".join(sorted(x or "direct" for x in case["args"]["layouts"])) if case["args"]["layouts"] else "layouts:none"
            dist[k] = dist.get(k, 0) + 1
        for res in r.get("results", []):
            k = "access ok" if "ok" in res else "file deleted between accesses" if "rm" in res else "file created between accesses" if "mk" in res else "access err:" + res["err"]
            dist[k] = dist.get(k, 0) + 1

    def shrink_candidates(self, case):
        if case["op"] not in ("tree", "url"):
            return []
        a, out = case["args"], []
        for fk in list(a.get("faults") or {}):
            c = json.loads(json.dumps(case)); del c["args"]["faults"][fk]; out.append(c)
        for sub in list(a["layouts"]):
            if len(a["layouts"]) > 1:
                c = json.loads(json.dumps(case)); del c["args"]["layouts"][sub]; out.append(c)
            for name in list(a["layouts"][sub]):
                c = json.loads(json.dumps(case)); del c["args"]["layouts"][sub][name]; out.append(c)
        for i in range(len(a["accesses"])):
            if len(a["accesses"]) > 1:
                c = json.loads(json.dumps(case)); del c["args"]["accesses"][i]; out.append(c)
        return out


C20._real = C20.real
C20.real = C20.real_and_stash
PROP = C20()

MANIFEST = dict(
    technique="Lean 4 proofs over an abstract world (exists / listdir order / load outcome universally quantified) + state machine logging loads; candidate names, probe names and caching shape regenerated from the AST; differential run on real directory trees with the real os.listdir orders",
    text="C20_compose_preferred / C20_direct / C20_legacy (for EVERY listing order the chosen sub-directory is the first listed one that has `metadata`) / C20_slash (same files with a trailing slash; C20_slash_tree: with no hypothesis on the world when it is a set of normalised paths) / C20_names + C20_current_before_legacy (current file name wins over the legacy one) / C20_equals_direct_load / C20_cached (over any further access sequence the same object, never loaded again) / C20_errors_missing, C20_wrapped_classes (decide on the except clause read from the source), _undecodable (RuntimeError naming compose path resp. file, for ValueError/KeyError/TypeError/AttributeError), _other_propagate.  Remote: C20_url_schemes (prefix tuples of _file_exists and open_file_obj, the except clause, the '://' mark: read from the source) / C20_url_compose_preferred / C20_url_no_legacy_scan / C20_url_names / C20_url_cached / C20_url_errors_runtime / C20_url_probe_error_propagates / C20_url_equals_direct_load / C20_url_slash.",
    note="'Undecodable' is an exception of a class in the except clause of _load_metadata, read from the source (ValueError: JSON syntax, bytes, wrong metadata type, validators; KeyError/TypeError/AttributeError: valid JSON of the wrong shape - F20, fixed). Direct metadata/ together with a sub-directory that has metadata/ resolves to the sub-directory (precedence not fixed by the property; oracle accepts either). Remote locations (http/https/ftp): Model `existsU/resolveU/findU/loadU/accessU` over an abstract net; theorems C20_url_*.",
    ref="7/C20")
