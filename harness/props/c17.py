"""C17 - the legacy [general] section mirrors the authoritative sections."""
import copy
import checklib
from checklib import Prop
from formats import treeinfo as TF
from props.c04 import PROP as C04PROP


class C17(Prop):
    id = "C17"
    lean_module = "ProductMD.Properties.C17"
    quick_budget = 900
    thorough_budget = 30000
    rule = ("trees generated per the quantifier (every choice of main variant incl. none, dashed UIDs, child paths as main variant, "
            "src trees with only source paths, integer and float timestamps, >= 2 top-level variants without main variant): the real "
            "dumps() is parsed by an independent minimal INI reader (not configparser) and its [general] section is compared with "
            "(a) the property evaluated on the same file's [release]/[tree]/[variant-*] sections, (b) the property evaluated on the "
            "input, (c) the model document; non-trivial = distinct inputs the library agreed to write")
    assumptions = ["int(x) of a float timestamp is evaluated by CPython and carried in the float token (floats are never computed in Lean)"]
    partial = {}

    def cases(self, rng, tier, budget):
        # every named class of the audit, round-robin (docs/audit_C17.md), integer and float timestamps alternating,
        # each with no main variant, its own choice and every top-level key in turn
        n_cls = 0
        for rnd in range(4 if tier == "quick" else 40):
            for ci, cls in enumerate(TF.CLASSES):
                spec, mv = TF.gen_class(rng, cls, tier, float_ts=((rnd + ci) % 2 == 1 and cls != "bool-timestamp!"))
                keys = [v["key"] for v in spec["variants"]]
                if rnd % 4 == 1:
                    mv = None
                elif rnd % 4 == 2 and keys:
                    mv = keys[(rnd + ci) % len(keys)]
                elif rnd % 4 == 3 and keys:
                    mv = sorted(keys)[-1]
                n_cls += 1
                yield {"op": "general", "args": {"spec": spec, "main_variant": mv, "cls": cls}}
        for i in range(max(0, budget - n_cls)):
            spec, mv = TF.gen(rng, tier, float_ts=(rng.random() < 0.35), dashed_by_id=0.3)
            keys = [v["key"] for v in spec["variants"]]
            r = rng.random()
            if r < 0.25:
                mv = None
            elif r < 0.8:
                mv = rng.choice(keys)
            elif r < 0.9:
                # a UID or a dashed path down to a child
                names = [v["uid"] for v in spec["variants"]]
                for v in spec["variants"]:
                    for c in v["variants"]:
                        names.append(v["key"] + "-" + c["key"])
                mv = rng.choice(names)
            else:
                mv = rng.choice(["Nope", "", "Server-missing"])
            yield {"op": "general", "args": {"spec": spec, "main_variant": mv}}

    def real(self, case):
        a = case["args"]
        try:
            ti = TF.build(a["spec"])
        except Exception as e:  # noqa
            return {"build": {"err": TF.err_name(e)}}
        out = {"dump": TF.guarded(TF.dumps, ti, a.get("main_variant"))}
        if "ok" in out["dump"]:
            out["doc"] = TF.guarded(TF.read_ini, out["dump"]["ok"])
        return out

    def model_requests(self, case):
        a = case["args"]
        return [{"op": "ti_dumps", "args": {"spec": TF.model_tree_spec(a["spec"]), "main_variant": a.get("main_variant")}}]

    def model_result(self, case, outs):
        return outs[0]

    @staticmethod
    def general_of(doc):
        return dict((k, v) for k, v in doc.get("general", {}).items() if not k.startswith("; WARNING"))

    def compare(self, case, real_out, model_out):
        if "build" in real_out:
            return None
        rd = real_out["dump"]
        if "ok" not in rd or "ok" not in model_out:
            r = rd if "ok" not in rd else "ok"
            m = model_out if "ok" not in model_out else "ok"
            return None if r == m else {"real": r, "model": m}
        if "ok" not in real_out["doc"]:
            return {"real": real_out["doc"], "model": "a readable file"}
        mdoc = dict((s, dict(map(tuple, opts))) for s, opts in model_out["ok"]["doc"])
        rg, mg = real_out["doc"]["ok"].get("general"), mdoc.get("general")
        if rg != mg:
            return {"real": rg, "model": mg}
        return None

    def oracle(self, case, real_out):
        if "build" in real_out or "ok" not in real_out.get("dump", {}):
            return None
        a = case["args"]
        if "ok" not in real_out["doc"]:
            return {"observed": real_out["doc"], "required": "a file of sections and `key = value` lines", "kind": "file-layout"}
        doc = real_out["doc"]["ok"]
        g = self.general_of(doc)
        # (b) the property on the input
        try:
            want = TF.expected_general(a["spec"], a.get("main_variant"))
        except (KeyError, IndexError):
            return {"observed": g, "required": "no such variant: the dump must be refused", "kind": "general-vs-tree"}
        if g != want:
            ks = sorted(k for k in set(g) | set(want) if g.get(k) != want.get(k))
            return {"observed": dict((k, g.get(k)) for k in ks), "required": dict((k, want.get(k)) for k in ks), "kind": "general-vs-tree"}
        # (a) the property inside the file: [general] against the authoritative sections of the same file
        rel, tree = doc.get("release", {}), doc.get("tree", {})
        ts = tree.get("build_timestamp", "")
        try:
            ts_int = str(int(ts))
        except ValueError:
            ts_int = "1" if ts == "True" else str(int(float(ts)))     # str(True): a bool is an int to the validator (F35)
        inside = {"family": rel.get("name"), "version": rel.get("version"), "name": "%s %s" % (rel.get("name"), rel.get("version")),
                  "arch": tree.get("arch"), "platforms": tree.get("platforms"), "timestamp": ts_int}
        var = TF.lookup_variant(a["spec"]["variants"], g["variant"])
        sec = doc.get(("addon-" if var["type"] == "addon" else "variant-") + var["uid"], {})
        pk = sec.get("packages", sec.get("source_packages") if tree.get("arch") == "src" else None)
        rp = sec.get("repository", sec.get("source_repository") if tree.get("arch") == "src" else None)
        if pk is not None:
            inside["packagedir"] = pk
        if rp is not None:
            inside["repository"] = rp
        got = dict((k, v) for k, v in g.items() if k not in ("variant", "variants"))
        if got != inside:
            ks = sorted(k for k in set(got) | set(inside) if got.get(k) != inside.get(k))
            return {"observed": dict((k, got.get(k)) for k in ks), "required": dict((k, inside.get(k)) for k in ks), "kind": "general-vs-sections"}
        return None

    def nontrivial(self, case, real_out):
        return "ok" in real_out.get("dump", {})

    def stats(self, case, real_out, dist):
        s, mv = case["args"]["spec"], case["args"].get("main_variant")
        d = dist.setdefault("general", {"cases": 0})
        d["cases"] += 1
        cls = case["args"].get("cls")
        if cls:
            dist.setdefault("classes", {})[cls] = dist.setdefault("classes", {}).get(cls, 0) + 1
        feats = {"written": "ok" in real_out.get("dump", {}), "refused": "ok" not in real_out.get("dump", {}),
                 "main_variant_none": mv is None, "main_variant_key": mv is not None and mv in [v["key"] for v in s["variants"]],
                 "src": s["tree"]["arch"] == "src", "float_ts": isinstance(s["tree"]["build_timestamp"], dict),
                 "tops>=2_no_main": mv is None and len(s["variants"]) >= 2,
                 "src_only_source_paths": s["tree"]["arch"] == "src" and any(
                     v["paths"] and all(f.startswith("source_") for f, _ in v["paths"]) for v in s["variants"]),
                 "dashed_top": any(v["uid"] != v["id"] for v in s["variants"])}
        for k, v in feats.items():
            if v:
                d[k] = d.get(k, 0) + 1

    def shrink_candidates(self, case):
        out = []
        for c in C04PROP.shrink_candidates({"op": "tree", "args": case["args"]}):
            c = copy.deepcopy(c)
            c["op"] = "general"
            if case["args"].get("main_variant") is not None and c["args"].get("main_variant") is None:
                # keep the main variant when it still designates something
                keep = copy.deepcopy(c)
                keep["args"]["main_variant"] = case["args"]["main_variant"]
                out.append(keep)
            out.append(c)
        return out


PROP = C17()

MANIFEST = dict(
    technique="Lean 4 proof over the executable model of TreeInfo.serialize (frame lemmas of the INI document: later writers never "
              "touch [release]/[tree]/[variant-*]); real dumps() parsed by an independent INI reader and compared with the property "
              "and with the model document",
    text="C17_mirror: for every tree and every main_variant the model writer accepts, each [general] option of the written document "
         "equals the stated function of [release], [tree] and the section of the chosen variant (src fallbacks included); the chosen "
         "variant is the requested one or the first container key in sorted order.",
    note="'first top-level variant' is first by container key, which for a dashed UID filed under its id differs from the UID order (F8).",
    ref="7/C17")
