"""C17 - the legacy [general] section mirrors the authoritative sections."""
import copy
import checklib
from checklib import Prop
from formats import treeinfo as TF
from props.c04 import PROP as C04PROP, no_parent
from formats import treeinfo_compat as TC


class C17(Prop):
    id = "C17"
    lean_module = "ProductMD.Properties.C17"
    quick_budget = 900
    thorough_budget = 30000
    rule = ("trees generated per the quantifier (every choice of main variant incl. none, dashed UIDs, child paths as main variant, "
            "src trees with only source paths, integer and float timestamps, >= 2 top-level variants without main variant): the real "
            "dumps() is parsed by an independent minimal INI reader (not configparser) and its [general] section is compared with "
            "(a) the property evaluated on the same file's [release]/[tree]/[variant-*] sections, (b) the property evaluated on the "
            "input, (c) the model document; op `legacy`: the written text is cut down to [general]/[stage2]/[checksums]/[images-*] by an "
            "independent line filter and loaded by the library's no-header (0.0) reader - compared with the model reader on compatDoc of "
            "the model text (and with legacyTree where the side conditions hold) and with what 'the same tree' requires, component by "
            "component (formats/treeinfo_compat.py: family table, milestone versions, RHEL 5 Server/Client, kept-section arches, legacy "
            "path shapes, absolute instimage, float timestamps below 1, integers beyond 2^53, dashed main variants); "
            "non-trivial = distinct inputs the library agreed to write")
    assumptions = ["int(x) of a float timestamp is evaluated by CPython and carried in the float token (floats are never computed in Lean)",
                   "C17_legacy_reader_partial: int(float(s)) of the written [general] timestamp is answered by CPython (hypothesis hfl; = the "
                   "integer itself up to 2^53); the stand-in for 'a pre-productmd reader' is the library's own no-header (0.0) reader"]
    partial = {
        "C17_legacy_reader_partial": "the last sentence of the property holds with side conditions (all decidable, necessity of the three substantial "
                                     "ones decided and replayed on the real code): [general] variant without a dash (F46), int(build_timestamp) != 0 "
                                     "(F45, inside the validity hypothesis) and exactly representable as a double (F17), tree arch not named like a "
                                     "kept section, RHEL 5 addon table not applicable, instimage not absolute; what the reader then builds is "
                                     "legacyTree - 'the same tree' up to the 0.0 reader's family table / milestone rule / platform list "
                                     "(C17_legacy_same, C17_legacy_paths)",
        "C17_legacy_reader_doc_partial": "as C17_legacy_reader_partial, on the written document instead of the bytes",
    }

    def cases(self, rng, tier, budget):
        # every named class of the audit, round-robin (docs/audit_C17.md), integer and float timestamps alternating,
        # each with no main variant, its own choice and every top-level key in turn
        n_cls = 0
        for rnd in range(4 if tier == "quick" else 40):
            for ci, cls in enumerate(TF.CLASSES):
                spec, mv = TF.gen_class(rng, cls, tier, float_ts=((rnd + ci) % 2 == 1 and cls != "bool-timestamp!"))
                keys = [v["key"] for v in spec["variants"]]
                if rnd % 4 == 1:
                    mv = None
                elif rnd % 4 == 2 and keys:
                    mv = keys[(rnd + ci) % len(keys)]
                elif rnd % 4 == 3 and keys:
                    mv = sorted(keys)[-1]
                n_cls += 1
                yield {"op": "general", "args": {"spec": spec, "main_variant": mv, "cls": cls}}
                # the same object written BEFORE with other main variants (also refused ones): "every .treeinfo the library
                # writes" includes the second and third write of one object; nothing of an earlier call may be remembered
                if len(keys) >= 2 and rnd % 2 == 0:
                    others = [k for k in sorted(keys, reverse=True) if k != mv] + ["Nope"]
                    hist = [others[(rnd + ci) % len(others)]] + ([None] if (rnd + ci) % 3 == 0 else [])
                    n_cls += 1
                    yield {"op": "general", "args": {"spec": spec, "main_variant": mv if rnd % 4 else None, "cls": cls, "history": hist}}
        # every architecture class (src, nosrc, noarch, binary) x every presence combination of packages / repository /
        # source_packages / source_repository on the main variant: the fallback of packagedir / repository is for `src` only
        for i in range(128 if tier == "quick" else 1280):
            spec, mv, label = TF.gen_arch_paths(rng, tier, i)
            n_cls += 1
            yield {"op": "general", "args": {"spec": spec, "main_variant": mv, "cls": "arch-x-paths", "combo": label}}
        for i in range(max(0, budget - n_cls)):
            spec, mv = TF.gen(rng, tier, float_ts=(rng.random() < 0.35), dashed_by_id=0.3)
            keys = [v["key"] for v in spec["variants"]]
            r = rng.random()
            if r < 0.25:
                mv = None
            elif r < 0.8:
                mv = rng.choice(keys)
            elif r < 0.9:
                # a UID or a dashed path down to a child
                names = [v["uid"] for v in spec["variants"]]
                for v in spec["variants"]:
                    for c in v["variants"]:
                        names.append(v["key"] + "-" + c["key"])
                mv = rng.choice(names)
            else:
                mv = rng.choice(["Nope", "", "Server-missing"])
            yield {"op": "general", "args": {"spec": spec, "main_variant": mv}}
            if len(keys) >= 2 and i % 3 == 0:
                hist = [rng.choice(keys + ["Nope"]) for _ in range(rng.randint(1, 3))]
                yield {"op": "general", "args": {"spec": spec, "main_variant": None if i % 2 == 0 else mv, "history": hist}}
        # the last sentence of the property: the library's no-header (0.0) reader on the compatibility sections of the written text
        for c in self.legacy_cases(rng, tier):
            yield c

    def legacy_cases(self, rng, tier):
        import random
        # the two decided witnesses of Properties/C17.lean, replayed on the real code (known findings F45 / F46)
        for spec, mv in self.witnesses():
            yield {"op": "legacy", "args": {"spec": spec, "main_variant": mv, "cls": "witness"}}
        r2 = random.Random(rng.getrandbits(64))
        for i in range(330 if tier == "quick" else 8000):
            spec, mv, cls = TC.gen(r2, tier, i)
            yield {"op": "legacy", "args": {"spec": spec, "main_variant": mv, "cls": cls}}

    @staticmethod
    def witnesses():
        v = lambda vid, uid, typ, paths, kids: {"key": uid if typ != "addon" else vid, "id": vid, "uid": uid, "name": vid, "type": typ,
                                                "paths": paths, "variants": kids}
        base = {"header_version": "0.0", "release": {"name": "Foo", "short": "F", "version": "1.0"}, "is_layered": False,
                "base_product": None, "checksums": [], "images": [], "stage2": {"mainimage": None, "instimage": None},
                "media": {"discnum": None, "totaldiscs": None}}
        zero = dict(base, tree={"arch": "x86_64", "build_timestamp": TF.ts_spec(0.5), "platforms": []},
                    variants=[v("Server", "Server", "variant", [["packages", "Packages"], ["repository", "repo"]], [])])
        dashed = dict(base, release={"name": "Foo", "short": "F", "version": "21"},
                      tree={"arch": "x86_64", "build_timestamp": 1417653911, "platforms": ["xen"]},
                      variants=[v("Server", "Server", "variant", [["packages", "Packages"], ["repository", "repo"]],
                                  [dict(v("HA", "Server-HA", "addon", [], []), key="HA")]),
                                v("Client", "Client", "variant", [["packages", "Client/Packages"], ["repository", "Client"]], [])],
                      checksums=[["images/boot.iso", "sha256", "00"]], images=[["xen", [["kernel", "images/xen/vmlinuz"]]]],
                      stage2={"mainimage": "images/install.img", "instimage": None}, media={"discnum": 1, "totaldiscs": 2})
        return [(zero, None), (dashed, "Server-HA"), (dashed, None)]

    def real(self, case):
        if case["op"] == "legacy":
            return self.real_legacy(case)
        a = case["args"]
        try:
            ti = TF.build(a["spec"])
        except Exception as e:  # noqa
            return {"build": {"err": TF.err_name(e)}}
        for h in a.get("history") or []:
            TF.guarded(TF.dumps, ti, h)          # earlier writes of the same object; their outcome is not observed here
        out = {"dump": TF.guarded(TF.dumps, ti, a.get("main_variant"))}
        if "ok" in out["dump"]:
            out["doc"] = TF.guarded(TF.read_ini, out["dump"]["ok"])
        return out

    def real_legacy(self, case):
        a = case["args"]
        try:
            ti = TF.build(a["spec"])
        except Exception as e:  # noqa
            return {"build": {"err": TF.err_name(e)}}
        out = {"dump": TF.guarded(TF.dumps, ti, a.get("main_variant"))}
        if "ok" in out["dump"]:
            out["compat_text"] = TC.compat_text(out["dump"]["ok"])
            out["legacy"] = TF.guarded(lambda: no_parent(TF.snap(TF.loads(out["compat_text"]))))
        return out

    @staticmethod
    def legacy_floats(spec):
        fl = TF.floats_for(spec)
        try:
            s = str(int(TF.ts_value(spec["tree"]["build_timestamp"])))
            fl[s] = TF.float_entry(s)
        except Exception:  # noqa
            pass
        return fl

    def model_requests(self, case):
        a = case["args"]
        if case["op"] == "legacy":
            return [{"op": "ti_legacy_compat", "args": {"spec": TF.model_tree_spec(a["spec"]), "main_variant": a.get("main_variant"),
                                                        "floats": self.legacy_floats(a["spec"])}}]
        return [{"op": "ti_dumps", "args": {"spec": TF.model_tree_spec(a["spec"]), "main_variant": a.get("main_variant")}}]

    def model_result(self, case, outs):
        return outs[0]

    @staticmethod
    def general_of(doc):
        return dict((k, v) for k, v in doc.get("general", {}).items() if not k.startswith("; WARNING"))

    def compare_legacy(self, case, real_out, model_out):
        rd, md = real_out["dump"], model_out.get("dump") or {}
        if "ok" not in rd or "ok" not in md:
            r = rd if "ok" not in rd else "ok"
            m = md if "ok" not in md else "ok"
            return None if r == m else {"real": {"dump": r}, "model": {"dump": m}}
        r, m = {}, {}
        # the restriction itself: the independent line filter against `compatDoc` of the parsed model text
        if "compat_doc" in model_out:
            try:
                r["compat sections"] = sorted((s_, sorted(o.items())) for s_, o in TF.read_ini(real_out["compat_text"]).items())
                # the INI reader drops comment lines and the blanks around a value (`name = Foo ` for an empty version)
                r["compat sections"] = [[s_, [[k, v_.strip()] for k, v_ in o if not k.startswith(("#", ";"))]] for s_, o in r["compat sections"]]
            except ValueError as e:
                r["compat sections"] = "unreadable: %s" % e
            m["compat sections"] = sorted([s_, sorted([list(kv) for kv in o])] for s_, o in model_out["compat_doc"])
        rl, ml = real_out["legacy"], model_out.get("legacy") or model_out.get("parse") or {}
        r["legacy"] = rl
        m["legacy"] = {"ok": TF.canon_spec(ml["ok"], with_parent=False)} if "ok" in ml else ml
        # the closed form of the theorem next to the reader model (executable pieces of C17_legacy_reader_partial)
        side = model_out.get("side")
        if side and all(side.values()) and "ok" in ml:
            r["theorem: reader model = legacyTree under the side conditions"] = True
            m["theorem: reader model = legacyTree under the side conditions"] = (ml["ok"] == model_out.get("predicted"))
        if checklib.canon(r) != checklib.canon(m):
            keys = [k for k in r if checklib.canon(r.get(k)) != checklib.canon(m.get(k))]
            return {"real": dict((k, r.get(k)) for k in keys), "model": dict((k, m.get(k)) for k in keys)}
        return None

    def oracle_legacy(self, case, real_out):
        if "build" in real_out or "ok" not in real_out.get("dump", {}):
            return None
        a = case["args"]
        try:
            must_load, want = TC.expect(a["spec"], a.get("main_variant"))
            f = TC.facts(a["spec"], a.get("main_variant"))
        except (KeyError, IndexError):
            return {"observed": "written", "required": "no such variant: the dump must be refused", "kind": "general-vs-tree"}
        got = real_out["legacy"]
        if "ok" not in got:
            if not must_load:
                return None
            return {"observed": dict(f, err=got.get("err")), "kind": "legacy-refused",
                    "required": "the no-header reader reads the compatibility sections of a written tree"}
        obs = TC.observe(got["ok"])
        if "build_timestamp" not in want and obs["build_timestamp"] != f["int_timestamp"]:
            return {"observed": dict(f, read_timestamp=obs["build_timestamp"]), "kind": "legacy-timestamp-differs",
                    "required": "the integer build timestamp"}
        bad = sorted(k for k in want if checklib.canon(obs.get(k)) != checklib.canon(want[k]))
        if bad:
            return {"observed": dict(f, **dict((k, obs.get(k)) for k in bad)), "required": dict((k, want[k]) for k in bad),
                    "kind": "legacy-differs"}
        return None

    def compare(self, case, real_out, model_out):
        if "build" in real_out:
            return None
        if case["op"] == "legacy":
            return self.compare_legacy(case, real_out, model_out)
        rd = real_out["dump"]
        if "ok" not in rd or "ok" not in model_out:
            r = rd if "ok" not in rd else "ok"
            m = model_out if "ok" not in model_out else "ok"
            return None if r == m else {"real": r, "model": m}
        if "ok" not in real_out["doc"]:
            return {"real": real_out["doc"], "model": "a readable file"}
        mdoc = dict((s, dict(map(tuple, opts))) for s, opts in model_out["ok"]["doc"])
        rg, mg = real_out["doc"]["ok"].get("general"), mdoc.get("general")
        if rg != mg:
            return {"real": rg, "model": mg}
        return None

    def oracle(self, case, real_out):
        if case["op"] == "legacy":
            return self.oracle_legacy(case, real_out)
        if "build" in real_out or "ok" not in real_out.get("dump", {}):
            return None
        a = case["args"]
        if "ok" not in real_out["doc"]:
            return {"observed": real_out["doc"], "required": "a file of sections and `key = value` lines", "kind": "file-layout"}
        doc = real_out["doc"]["ok"]
        g = self.general_of(doc)
        # (b) the property on the input
        try:
            want = TF.expected_general(a["spec"], a.get("main_variant"))
        except (KeyError, IndexError):
            return {"observed": g, "required": "no such variant: the dump must be refused", "kind": "general-vs-tree"}
        if g != want:
            ks = sorted(k for k in set(g) | set(want) if g.get(k) != want.get(k))
            return {"observed": dict((k, g.get(k)) for k in ks), "required": dict((k, want.get(k)) for k in ks), "kind": "general-vs-tree"}
        # (a) the property inside the file: [general] against the authoritative sections of the same file
        rel, tree = doc.get("release", {}), doc.get("tree", {})
        ts = tree.get("build_timestamp", "")
        try:
            ts_int = str(int(ts))
        except ValueError:
            ts_int = "1" if ts == "True" else str(int(float(ts)))     # str(True): a bool is an int to the validator (F35)
        inside = {"family": rel.get("name"), "version": rel.get("version"), "name": "%s %s" % (rel.get("name"), rel.get("version")),
                  "arch": tree.get("arch"), "platforms": tree.get("platforms"), "timestamp": ts_int}
        var = TF.lookup_variant(a["spec"]["variants"], g["variant"])
        sec = doc.get(("addon-" if var["type"] == "addon" else "variant-") + var["uid"], {})
        pk = sec.get("packages", sec.get("source_packages") if tree.get("arch") == "src" else None)
        rp = sec.get("repository", sec.get("source_repository") if tree.get("arch") == "src" else None)
        if pk is not None:
            inside["packagedir"] = pk
        if rp is not None:
            inside["repository"] = rp
        got = dict((k, v) for k, v in g.items() if k not in ("variant", "variants"))
        if got != inside:
            ks = sorted(k for k in set(got) | set(inside) if got.get(k) != inside.get(k))
            return {"observed": dict((k, got.get(k)) for k in ks), "required": dict((k, inside.get(k)) for k in ks), "kind": "general-vs-sections"}
        return None

    def nontrivial(self, case, real_out):
        return "ok" in real_out.get("dump", {})

    def stats(self, case, real_out, dist):
        s, mv = case["args"]["spec"], case["args"].get("main_variant")
        if case["op"] == "legacy":
            d = dist.setdefault("legacy", {"cases": 0})
            d["cases"] += 1
            cls = case["args"].get("cls") or "?"
            dist.setdefault("legacy_classes", {})[cls] = dist.setdefault("legacy_classes", {}).get(cls, 0) + 1
            lg = real_out.get("legacy") or {}
            for k, v in {"written": "ok" in real_out.get("dump", {}), "read": "ok" in lg, "refused_by_reader": "err" in lg}.items():
                if v:
                    d[k] = d.get(k, 0) + 1
            if "ok" in real_out.get("dump", {}):
                try:
                    f = TC.facts(s, mv)
                    for k in ("arch_is_kept_section", "rhel5_table"):
                        if f[k]:
                            d[k] = d.get(k, 0) + 1
                    for k, v in {"family_normalised": f["family"] != s["release"]["name"], "version_cut": f["version"] != s["release"]["version"],
                                 "absolute_paths": bool(f["absolute_paths"]), "timestamp_zero": f["int_timestamp"] == 0,
                                 "timestamp_beyond_2^53": not (-2 ** 53 <= f["int_timestamp"] <= 2 ** 53),
                                 "dashed_general_variant": "-" in f["general_variant"]}.items():
                        if v:
                            d[k] = d.get(k, 0) + 1
                except (KeyError, IndexError):
                    pass
            return
        d = dist.setdefault("general", {"cases": 0})
        d["cases"] += 1
        cls = case["args"].get("cls")
        if cls:
            dist.setdefault("classes", {})[cls] = dist.setdefault("classes", {}).get(cls, 0) + 1
        if case["args"].get("combo") and "ok" in real_out.get("dump", {}):
            dist.setdefault("arch_x_paths_written", {})[case["args"]["combo"]] = dist.setdefault("arch_x_paths_written", {}).get(case["args"]["combo"], 0) + 1
        feats = {"written": "ok" in real_out.get("dump", {}), "refused": "ok" not in real_out.get("dump", {}),
                 "after_earlier_dumps": bool(case["args"].get("history")),
                 "no_main_after_other_main": bool(case["args"].get("history")) and mv is None,
                 "main_variant_none": mv is None, "main_variant_key": mv is not None and mv in [v["key"] for v in s["variants"]],
                 "src": s["tree"]["arch"] == "src", "float_ts": isinstance(s["tree"]["build_timestamp"], dict),
                 "tops>=2_no_main": mv is None and len(s["variants"]) >= 2,
                 "src_only_source_paths": s["tree"]["arch"] == "src" and any(
                     v["paths"] and all(f.startswith("source_") for f, _ in v["paths"]) for v in s["variants"]),
                 "dashed_top": any(v["uid"] != v["id"] for v in s["variants"])}
        for k, v in feats.items():
            if v:
                d[k] = d.get(k, 0) + 1

    def shrink_candidates(self, case):
        out = []
        for c in C04PROP.shrink_candidates({"op": "tree", "args": case["args"]}):
            c = copy.deepcopy(c)
            c["op"] = case["op"]
            if case["args"].get("main_variant") is not None and c["args"].get("main_variant") is None:
                # keep the main variant when it still designates something
                keep = copy.deepcopy(c)
                keep["args"]["main_variant"] = case["args"]["main_variant"]
                out.append(keep)
            out.append(c)
        return out


PROP = C17()

MANIFEST = dict(
    technique="Lean 4 proof over the executable model of TreeInfo.serialize (frame lemmas of the INI document: later writers never "
              "touch [release]/[tree]/[variant-*]); real dumps() parsed by an independent INI reader and compared with the property "
              "and with the model document",
    text="C17_mirror: for every tree and every main_variant the model writer accepts, each [general] option of the written document "
         "equals the stated function of [release], [tree] and the section of the chosen variant (src fallbacks included); the chosen "
         "variant is the requested one or the first container key in sorted order.  C17_text: the same for the bytes dumps() returns, "
         "read by the INI reader model.  C17_platforms_include_arch: [tree]/[general] platforms = sorted, duplicate-free list of the "
         "platforms and the architecture.  C17_main_variant(+_refused), C17_default_main_variant: a requested main variant designates a "
         "variant (top-level key; UID or dashed child path only for dashed names), an unknown one is refused with KeyError, the default "
         "is the least container key.  C17_legacy_reader_partial (+C17_legacy_same, C17_legacy_paths, three decided witnesses): the "
         "library's no-header reader on the compatibility sections of the written bytes yields legacyTree.",
    note="'first top-level variant' is first by container key, which for a dashed UID filed under its id differs from the UID order (F8).",
    ref="7/C17")
