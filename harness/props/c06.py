"""C06 - only objects meeting every documented field constraint can be written."""
import sys
import copy, json, random
import checklib
from checklib import Prop
from formats import valid7 as V
from formats import rules7 as R

CONTAINER_NO_RULES = ("composeinfo.ComposeInfo", "images.Images", "rpms.Rpms", "modules.Modules", "extra_files.ExtraFiles", "treeinfo.TreeInfo",
                      "composeinfo.VariantPaths", "treeinfo.VariantPaths")


def current_version():
    p = V.L()
    return ".".join(str(i) for i in p.common.VERSION)


def written_snapshots(fmt, obj):
    """[(path, cls, snapshot)] of the parts the writer reaches, as WRITTEN (JSON headers carry the current version)"""
    out = []
    for pth, part in V.written_parts(fmt, obj):
        cls = V.cls_name(part)
        if cls in CONTAINER_NO_RULES:
            continue
        snap = V.snap_part(fmt, obj, pth, part)
        if cls == "common.Header":
            snap["version"] = current_version()
        if cls == "composeinfo.Release" and pth != "release":
            snap["is_layered"] = True          # Variant.serialize sets it before writing the release of a layered product
        out.append((pth, cls, snap))
    return out


def custom_mods(name, fmt, obj, pth, part, snap, rng):
    """modifications aimed at one hand-bound (custom) rule"""
    if name == "label":
        return [{"path": pth, "set": "label", "value": v} for v in ["GA", "RC-1", "Foo-1.0", "RC-1.0\n", "rc-1.0", "RC-1.0.0", " RC-1.0", "RC-1.0 ", 5, ["RC-1.0"], "Beta-١.٢x",
                                                                 "RC-1,0", "RC-1-0", "Beta-2x1", "RC-100", "Alpha-", "Update-2.0 final", "Beta-1.x", "RC", "SecurityFix-1", "EA-1.0x"]]
    if name == "ci_uid":
        uid, vid, par = snap.get("uid"), snap.get("id"), snap.get("parent")
        vals = [str(uid) + "x", None, 5, "", "%s-" % vid, ["a"], {"$float": "1.5"}, {"$other": True}, {"a": 1}, True]
        if par is not None:
            vals += ["%s_%s" % (par.get("uid"), vid), vid, "X-%s" % vid]
        return [{"path": pth, "set": "uid", "value": v} for v in vals]
    if name == "ci_parent_arch":
        if snap.get("parent") is None:
            return []
        mine = R.elems(snap.get("arches"))
        theirs = R.elems(snap["parent"].get("arches")) or []
        foreign = [a for a in V.ARCHES + ["sparc"] if a not in theirs]
        return [{"path": pth, "set": "arches", "value": {"$set": sorted(set(mine or []) | {foreign[0]})}},
                {"path": pth, "set": "arches", "value": {"$set": [foreign[-1]]}}]
    if name == "variant_keys":
        keys = [k for k in part.variants]
        if not keys:
            return []
        k = rng.choice(keys)
        return [{"path": pth, "rekey": [k, k + "x"]}, {"path": pth, "rekey": [k, "zz"]}]
    if name == "ti_uid":
        par = snap.get("parent")
        if par is None:
            return []
        return [{"path": pth, "set": "uid", "value": v} for v in [str(snap.get("uid")) + "x", 5, None, "%s_%s" % (par.get("uid"), snap.get("id")), snap.get("id"), ["a"]]]
    if name == "ti_image_paths":
        imgs = part.images
        if not imgs:
            return []
        nonempty = [q for q in sorted(imgs) if imgs[q]]
        if not nonempty:
            return [{"path": pth, "setitem": "images", "keys": [sorted(imgs)[0], "kernel"], "value": v} for v in ["/abs/x", 5]]
        p = rng.choice(nonempty); k = rng.choice(sorted(imgs[p]))
        return [{"path": pth, "setitem": "images", "keys": [p, k], "value": v} for v in ["/abs/x", "/", "//x", 5, None, ["x"], 0, False, [], {"$float": "0.0"}]]
    if name == "ti_platforms":
        if not part.images:
            return []
        return [{"path": pth, "setitem": "images", "keys": ["zzz"], "value": {"kernel": "images/zzz/kernel"}}]
    if name == "ti_checksum_paths":
        return [{"path": pth, "setitem": "checksums", "keys": ["/abs/file"], "value": ["md5", "00"]},
                {"path": pth, "setitem": "checksums", "keys": ["/"], "value": ["sha256", "11"]}]
    if name == "disc_timestamp":
        return [{"path": pth, "set": "timestamp", "value": v} for v in [5, 0, {"$float": "0.0"}, None, "1.0", True, [1.0]]]
    return []


def propose(fmt, spec, rng, T, target=None):
    """one modification that breaks one catalogue rule of one written part (position uniform over the parts), or None.
    `target` = (class, rule): corrupt exactly that rule (used when the source no longer contains it verbatim)"""
    obj = V.build(fmt, spec)
    snaps = [(p, c, s) for (p, c, s) in written_snapshots(fmt, obj) if R.catalogue(c)]
    # the header of a JSON format is rewritten by the writer: its stored version is not a field of what is written
    snaps = [x for x in snaps if x[1] != "common.Header"]
    if target is not None:
        snaps = [x for x in snaps if x[1] == target[0]]
        if not snaps:
            return None, None
    parts = dict(V.all_parts(fmt, obj))
    for _ in range(12):
        pth, cls, snap = rng.choice(snaps)
        rule = rng.choice(R.catalogue(cls)) if target is None else target[1]
        mods, exact = [], []
        if rule[0] == "custom":
            mods = custom_mods(rule[1], fmt, obj, pth, parts[pth], snap, rng)
            for m in mods:
                if "set" in m:
                    s2 = dict(snap); s2[m["set"]] = m["value"]
                    if len(R.violated(cls, s2, T)) == 1:
                        exact.append(m)
        if rule[0] != "custom" or R.rule_fields(rule):
            for f, v in R.candidates(rule, snap, T, rng):
                s2 = dict(snap); s2[f] = v
                if not R.holds(rule, s2, T):
                    mods.append({"path": pth, "set": f, "value": v})
                    # a value that breaks this rule and no other is the only way to see this very rule weakened
                    if len(R.violated(cls, s2, T)) == 1:
                        exact.append(mods[-1])
            if exact and rng.random() < 0.7:
                mods = exact
        if mods:
            return rng.choice(mods), "%s:%s" % (cls, json.dumps(rule)[:60])
    return None, None


def custom_rule_cases(fmt, spec, rng, T):
    """EVERY modification aimed at a hand-bound (custom) rule that breaks that rule and no other, for one part per (class, rule) of
    this object: the custom rules (label, UID alignment, child arches within the parent's, container keys, …) each have a few
    characteristic ways to be broken (e.g. a child arch set that OVERLAPS the parent's without being inside it), and drawing one
    modification at random per case left single ones out of whole runs (seed C06-t3a after the pools changed)"""
    try:
        obj = V.build(fmt, spec)
    except Exception:   # noqa
        return
    parts = dict(V.all_parts(fmt, obj))
    done = set()
    snaps = [(p_, c, s_) for (p_, c, s_) in written_snapshots(fmt, obj) if R.catalogue(c) and c != "common.Header"]
    rng.shuffle(snaps)
    for pth, cls, snap in snaps:
        for rule in R.catalogue(cls):
            if rule[0] != "custom" or (cls, rule[1]) in done:
                continue
            try:
                mods = custom_mods(rule[1], fmt, obj, pth, parts[pth], snap, rng)
            except Exception:   # noqa
                continue
            exact = []
            for m in mods:
                if "set" in m:
                    s2 = dict(snap); s2[m["set"]] = m["value"]
                    if len(R.violated(cls, s2, T)) == 1:
                        exact.append(m)
                else:
                    exact.append(m)
            if not exact:
                continue
            done.add((cls, rule[1]))
            for m in exact:
                yield m, "%s:%s" % (cls, json.dumps(rule)[:60])


class C06(Prop):
    id = "C06"
    lean_module = "ProductMD.Properties.C06"
    quick_budget = 2450
    thorough_budget = 42000
    rule = ("valid objects of the seven formats built through the public API from the library's own tables (every enumeration value round-robin) "
            "and one-field corruptions at a uniformly chosen written part with a value from the complement of a uniformly chosen catalogue rule; "
            "correspondence: real part.validate() vs generated rule lists (validate2), Python spec verdict vs Lean catalogue verdict per part, "
            "set of written parts, real dumps() outcome (ok / exception class) vs the model walk; oracle: corrupted => TypeError/ValueError, valid => text")
    assumptions = ["the object skeleton is well typed (string keys, parent pointers mirror containment, path tables/platform sets/payload of the types the API produces); "
                   "only catalogue fields are corrupted",
                   "model covers dump() up to the end of serialize(); text rendering is C01-C04's",
                   "C06_errclass_composeinfo/_treeinfo carry the decidable hypothesis StepsInDomain: no variant's parent uid is a list/dict/foreign object "
                   "(the model cannot compute '%s' of it), no parent arch container is a foreign object, treeinfo checksum/platform tables are dicts "
                   "(wrong-shape skeletons raise AttributeError in the real code; container shape is not a catalogue rule); F12 IndexError for a tree "
                   "with no variants and the non-finite build timestamp (F35: int(inf)/int(nan) in General.serialize) are the failures of `generalOk`, "
                   "a disjunct of C06_errclass_treeinfo and a hypothesis of C06_converse_treeinfo (C06_general_failures names them exactly)"]
    partial = {}

    def __init__(self):
        self._cache = {}
        self._T = None

    def T(self):
        if self._T is None:
            self._T = V.tables()
        return self._T

    def extra_checks(self, ctx):
        """a slice of the stream in a FRESH interpreter whose first validations run base classes first (harness/c06_fresh.py)"""
        import subprocess
        budget = 350 if ctx["tier"] == "quick" else 3000
        try:
            pr = subprocess.run([sys.executable, checklib.os.path.join(checklib.ROOT, "harness", "c06_fresh.py"), str(ctx["seed"]), str(budget)],
                                capture_output=True, text=True, timeout=1200, env=dict(checklib.os.environ, PRODUCTMD_REPO=checklib.REPO))
            out = json.loads(pr.stdout.strip().splitlines()[-1])
        except Exception as e:   # noqa
            raise checklib.Infra("c06_fresh worker: %s" % e)
        ctx["dist"]["fresh_process"] = {"cases": out["n"], "parts_validated_base_first": out["prelude"], "failures": len(out["fails"])}
        return out["fails"]

    # ------------------------------------------------------------------ generation
    HISTORIES = [("fresh", 25), ("dump-first", 15), ("load-first", 12), ("fail-repair", 10), ("dump-fail-repair", 8), ("two-corruptions", 10),
                 ("interleaved-twin", 10), ("reads-between", 10)]

    def history(self, rng, fmt, spec, mod, T):
        """the SEQUENCE of calls on ONE object: validation state hidden in the objects (memoised validate(), flags set by an earlier
        dump or load) is only exercised when the corrupted object has a past"""
        D, M, U, L = {"do": "dumps"}, {"do": "mod", "mod": mod}, {"do": "undo"}, {"do": "reload"}
        if isinstance(mod.get("value"), (dict, list)) and "set" in mod and rng.random() < 0.6:
            # a container value: make the change IN PLACE (no attribute assignment) in most histories
            M = dict(M, inplace=True)
        r = rng.randrange(100)
        acc = 0
        name = "fresh"
        for nm, w in self.HISTORIES:
            acc += w
            if r < acc:
                name = nm
                break
        if name == "fresh":
            return name, [M, D]
        if name == "dump-first":
            return name, [D, M, D]
        if name == "load-first":
            return name, [D, L, M, D]
        if name == "fail-repair":
            return name, [M, D, U, D]
        if name == "dump-fail-repair":
            return name, [D, M, D, U, D]
        if name == "interleaved-twin":
            # a second object built from the same spec in the same process, never modified: it must stay writable while its twin is corrupted
            return name, [{"do": "twin-dumps"}, M, {"do": "twin-dumps"}, D, {"do": "twin-dumps"}]
        if name == "reads-between":
            # every public read-only call between the mutation and the dump: the state must be unchanged by them
            return name, [{"do": "reads"}, D, M, {"do": "reads"}, D, U, {"do": "reads"}, D]
        mod2, _ = propose(fmt, spec, rng, T)
        if mod2 is None or (mod2.get("path"), mod2.get("set")) == (mod.get("path"), mod.get("set")):
            return "fail-repair", [M, D, U, D]
        return name, [M, D, U, {"do": "mod", "mod": mod2}, D]

    def mk(self, fmt, spec, steps, tag, hist):
        self._nvia = getattr(self, "_nvia", 0) + 1
        via = ["dumps", "dumps", "dump-new-path", "dumps", "dump-existing-path", "dumps", "dump-fileobj"][self._nvia % 7]
        return {"op": "c06", "args": {"fmt": fmt, "spec": spec, "steps": steps, "mods": [s["mod"] for s in steps if s["do"] == "mod"],
                                      "tag": tag, "history": hist, "via": via}}

    def cases(self, rng, tier, budget):
        T = self.T()
        n = 0
        i = 0
        quota = {"nl": 20}
        # targeted stream: rules of the catalogue that the regenerated validator inventory no longer contains verbatim
        try:
            gen = json.load(open(checklib.os.path.join(checklib.LEAN, "generated.json")))
            sus = R.suspects(gen, T)
        except Exception:   # noqa
            sus = []
        if sus:
            tries = 0
            while n < budget // 3 and tries < budget * 3:
                tries += 1
                cls_rule = sus[tries % len(sus)]
                fmt = V.FORMATS[(tries // len(sus)) % len(V.FORMATS)]
                spec = V.gen(rng, fmt, tries)
                try:
                    mod, tag = propose(fmt, spec, rng, T, target=cls_rule)
                except Exception:   # noqa
                    n += 1
                    yield self.mk(fmt, spec, [{"do": "dumps"}], "valid", "once")
                    continue
                if mod is None:
                    continue
                n += 1
                yield self.mk(fmt, spec, [{"do": "mod", "mod": mod}, {"do": "dumps"}], tag, "fresh")
        # every characteristic way to break each hand-bound rule, on a few objects per format (not drawn: enumerated)
        for rnd in range(2 if tier == "quick" else 12):
            for fmt in V.FORMATS:
                spec = V.gen(rng, fmt, 1000 + rnd)
                for mod, tag in custom_rule_cases(fmt, spec, rng, T):
                    n += 1
                    yield self.mk(fmt, spec, [{"do": "mod", "mod": mod}, {"do": "dumps"}], tag, "fresh")
        D, L = {"do": "dumps"}, {"do": "reload"}
        while n < budget:
            fmt = V.FORMATS[i % len(V.FORMATS)]
            k = i // len(V.FORMATS)
            i += 1
            if k % 4 == 0:
                # the converse stream: `k // 4` walks through every enumeration value; written once, twice, or written, read back and written
                spec = V.gen(rng, fmt, k // 4)
                n += 1
                hist, steps = [("once", [D]), ("twice", [D, D]), ("reloaded", [D, L, D])][(k // 4) % 3]
                yield self.mk(fmt, spec, steps, "valid", hist)
                continue
            spec = V.gen(rng, fmt, k)
            try:
                mod, tag = propose(fmt, spec, rng, T)
            except Exception:   # noqa: the VALID object cannot even be built through the public API (add() validates): shown by the valid case
                n += 1
                yield self.mk(fmt, spec, [D], "valid", "once")
                continue
            if mod is None:
                continue
            # the known finding F15 is met a bounded number of times per run
            v = mod.get("value")
            if isinstance(v, str) and v.endswith("\n"):
                quota["nl"] -= 1
                if quota["nl"] < 0:
                    continue
            hist, steps = self.history(rng, fmt, spec, mod, T)
            n += 1
            yield self.mk(fmt, spec, steps, tag, hist)

    # ------------------------------------------------------------------ real side
    def read_only_calls(self, fmt, obj):
        """the public read-only API of the object (exceptions are irrelevant here: only a state change would be)"""
        def t(f):
            try:
                f()
            except Exception:   # noqa
                pass
        if fmt == "composeinfo":
            t(lambda: str(obj)); t(lambda: obj.release_id); t(lambda: obj.get_variants()); t(lambda: obj.get_variants(arch="x86_64", recursive=True))
            t(lambda: obj.create_compose_id()); t(lambda: obj.compose.is_ga); t(lambda: obj.compose.full_label); t(lambda: obj.compose.label_major_version)
            for k in list(obj.variants.variants):
                t(lambda k=k: obj[k]); t(lambda k=k: obj[k].compose_id); t(lambda k=k: len(obj[k])); t(lambda k=k: list(obj[k]))
            t(lambda: obj.release.major_version); t(lambda: obj.release.minor_version); t(lambda: obj.release.type_suffix)
        elif fmt == "images":
            L_ = V.L()
            for v in list(obj.images):
                t(lambda v=v: obj[v])
                for a in list(obj.images[v]):
                    for i in list(obj.images[v][a]):
                        t(lambda i=i: L_.images.identify_image(i)); t(lambda i=i: repr(i))
        elif fmt in ("rpms", "modules", "extra_files"):
            t(lambda: obj["Server"]); t(lambda: obj.compose.type_suffix)
        elif fmt == "treeinfo":
            t(lambda: str(obj)); t(lambda: obj.images.platforms); t(lambda: obj.release.major_version)
            for k in list(obj.variants.variants):
                t(lambda k=k: obj[k]); t(lambda k=k: obj[k].arch); t(lambda k=k: obj[k]._section); t(lambda k=k: obj.variants.get_variants(recursive=True))
            for p_ in list(obj.images.images) if isinstance(obj.images.images, dict) else []:
                t(lambda p_=p_: obj.images[p_])
        for pth, part in V.all_parts(fmt, obj):
            t(part.validate)

    def write(self, fmt, obj, via):
        """dump()/dumps() through one of the documented entry points; the outcome is the same object either way"""
        if via in (None, "dumps"):
            return V.outcome(V.dumps, fmt, obj)
        import io, os, tempfile
        if via == "dump-fileobj":
            f = io.StringIO()
            r = V.outcome(obj.dump, f)
            return {"ok": f.getvalue()} if "ok" in r else r
        d = tempfile.mkdtemp(prefix="c06-")
        path = os.path.join(d, "out")
        try:
            if via == "dump-existing-path":
                open(path, "w").write("previous content\n")
            r = V.outcome(obj.dump, path)
            if "ok" in r:
                return {"ok": open(path).read()}
            return r
        finally:
            try:
                if os.path.exists(path):
                    os.unlink(path)
                os.rmdir(d)
            except OSError:
                pass

    def observe(self, fmt, obj, T, via=None):
        """everything C06 looks at, at one `dumps()` call: the written parts as the spec sees them (before the call), what each
        part's own validate() says, the outcome of the call"""
        model_obj = V.snap_obj(fmt, obj)
        parts, snaps = [], []
        strict_any = lenient_any = False
        partmap = dict(V.all_parts(fmt, obj))
        for pth, cls, snap in written_snapshots(fmt, obj):
            part = partmap[pth]
            # what the writer does to the part before validating it, done and undone around the part's own validate()
            restore = None
            if cls == "common.Header":
                old = part.version; part.set_current_version()
                restore = lambda part=part, old=old: setattr(part, "version", old)
            elif cls == "composeinfo.Release" and pth != "release":
                old = part.is_layered; part.is_layered = True
                restore = lambda part=part, old=old: setattr(part, "is_layered", old)
            vr = V.outcome(part.validate)
            if restore:
                restore()
            viol = R.violated(cls, snap, T)
            lviol = R.violated(cls, snap, T, lenient=True)
            strict_any = strict_any or bool(viol)
            lenient_any = lenient_any or bool(lviol)
            parts.append([pth, cls, "ok" if "ok" in vr else vr["err"], viol, lviol])
            snaps.append(snap)
        r = self.write(fmt, obj, via)
        return {"dumps": "ok" if "ok" in r else r["err"], "text": r.get("ok"), "parts": parts, "expect_reject": strict_any,
                "only_nl": strict_any and not lenient_any, "snaps": snaps, "obj": model_obj}

    def run_real(self, case):
        a = case["args"]
        fmt, T = a["fmt"], self.T()
        steps = a.get("steps") or ([{"do": "mod", "mod": m} for m in a.get("mods", [])] + [{"do": "dumps"}])
        obs, undo, text = [], [], None
        try:
            obj = V.build(fmt, a["spec"])
        except Exception as e:   # noqa
            return {"obs": [], "build": type(e).__name__, "msg": str(e)[:120]}
        twin = None
        via = a.get("via")
        for idx, st in enumerate(steps):
            try:
                if st["do"] == "twin-dumps":
                    if twin is None:
                        twin = V.build(fmt, a["spec"])
                    o = self.observe(fmt, twin, T, via)
                    o["step"] = idx; o["twin"] = True
                    obs.append(o)
                elif st["do"] == "reads":
                    before = json.dumps(V.snap_obj(fmt, obj), sort_keys=True, default=str)
                    self.read_only_calls(fmt, obj)
                    after = json.dumps(V.snap_obj(fmt, obj), sort_keys=True, default=str)
                    if before != after:
                        obs.append({"step": idx, "dumps": "READS-CHANGED-STATE", "parts": [], "expect_reject": False, "only_nl": False, "snaps": [], "obj": None})
                        break
                elif st["do"] == "mod":
                    undo.append(V.apply_mod(fmt, obj, st["mod"], inplace=bool(st.get("inplace"))))
                elif st["do"] == "undo":
                    undo.pop()()
                elif st["do"] == "reload":
                    if text is None:
                        break
                    obj = V.new(fmt); obj.loads(text); undo = []
                elif st["do"] == "dumps":
                    o = self.observe(fmt, obj, T, via)
                    o["step"] = idx
                    if o["text"] is not None:
                        text = o["text"]
                    obs.append(o)
            except Exception as e:   # noqa: a step of the scenario itself is not applicable (e.g. path gone after a reload)
                obs.append({"step": idx, "dumps": "STEP:" + type(e).__name__, "parts": [], "expect_reject": False, "only_nl": False, "snaps": [], "obj": None})
                break
        return {"obs": obs}

    def real(self, case):
        full = self.run_real(case)
        self._cache[checklib.key_of(case)] = full
        return {"obs": [{"step": o["step"], "dumps": o["dumps"], "parts": [[p[1], p[2], p[4]] for p in o["parts"]],
                         "expect_reject": o["expect_reject"], "only_nl": o["only_nl"]} for o in full["obs"]], "build": full.get("build"), "msg": full.get("msg")}

    # ------------------------------------------------------------------ model side (stateless: one walk per dumps() call of the sequence)
    def model_requests(self, case):
        full = self._cache.get(checklib.key_of(case)) or self.run_real(case)
        reqs = []
        for o in full["obs"]:
            if o["obj"] is None:
                continue
            reqs.append({"op": "c06_dumps", "args": {"fmt": case["args"]["fmt"], "obj": o["obj"]}})
            for (pth, cls, _, _, _), snap in zip(o["parts"], o["snaps"]):
                ms = V.to_model(snap)
                reqs.append({"op": "c06_validate", "args": {"cls": cls, "obj": ms}})
                reqs.append({"op": "c06_spec", "args": {"cls": cls, "obj": ms}})
        return reqs

    def model_result(self, case, outs):
        res, i = [], 0
        while i < len(outs):
            d = outs[i]
            i += 1
            parts = []
            while i < len(outs) and not (isinstance(outs[i], dict) and "out" in outs[i]):
                v, s = outs[i], outs[i + 1]
                parts.append(["ok" if "ok" in v else v.get("err"), s])
                i += 2
            res.append({"dumps": "ok" if "ok" in d.get("out", {}) else d.get("out", {}).get("err", "?"), "parts": parts,
                        "model_parts": sorted([p["cls"], bool(p["violated"])] for p in d.get("parts", []))})
        return res

    def compare_one(self, real_out, model_out):
        diffs = {}
        # `Other` = the model does not know (e.g. `"%s" % <foreign object>`): outside its domain, not compared
        if model_out["dumps"] == "Other" or any(mv == "Other" for mv, _ in model_out["parts"]):
            self.outside = getattr(self, "outside", 0) + 1
            return None
        if real_out["dumps"] != model_out["dumps"]:
            diffs["dumps"] = [real_out["dumps"], model_out["dumps"]]
        rp = real_out["parts"]
        if len(rp) != len(model_out["parts"]):
            diffs["nparts"] = [len(rp), len(model_out["parts"])]
        for (cls, rv, lviol), (mv, mviol) in zip(rp, model_out["parts"]):
            if rv != mv:
                diffs.setdefault("validate", []).append([cls, rv, mv])
            if lviol != mviol:     # the Lean catalogue carries CPython's `$` (lenient); the documented sense differs only by F15
                diffs.setdefault("spec", []).append([cls, lviol, mviol])
        mine = sorted([cls, bool(lviol)] for cls, _, lviol in rp)
        if mine != model_out["model_parts"]:
            diffs["written_parts"] = [mine, model_out["model_parts"]]
        return diffs or None

    def compare(self, case, real_out, model_out):
        robs = [o for o in real_out["obs"] if not o["dumps"].startswith("STEP:") and o["dumps"] != "READS-CHANGED-STATE"]
        if len(robs) != len(model_out):
            return {"real": {"n_dumps": len(robs)}, "model": {"n_dumps": len(model_out)}}
        for o, m in zip(robs, model_out):
            d = self.compare_one(o, m)
            if d:
                d["step"] = o["step"]
                return {"real": d, "model": "see real (pairs are [real, model])"}
        return None

    # ------------------------------------------------------------------ oracle (at EVERY dumps() of the sequence)
    def oracle(self, case, real_out):
        a = case["args"]
        steps = a.get("steps")
        if real_out.get("build"):
            # the spec is valid by construction: the public API (add() validates its argument) refused to build the object at all
            return {"observed": {"build": real_out["build"], "message": real_out.get("msg"), "spec": a["spec"]},
                    "required": "an object all of whose fields satisfy the documented rules can be assembled through the public API and written", "kind": "refused-valid"}
        for o in real_out["obs"]:
            d = o["dumps"]
            if d.startswith("STEP:"):
                return None
            seq = {"history": a.get("history"), "failing_step": o["step"], "steps": steps, "via": a.get("via")}
            if d == "READS-CHANGED-STATE":
                return {"observed": dict(seq, dumps=d), "required": "read-only calls between a mutation and a dump leave the object unchanged", "kind": "reads-changed-state"}
            spec = a["spec"]
            if a["fmt"] == "treeinfo" and isinstance(spec, dict):
                # the two places where a tree whose every FIELD satisfies its rule still cannot be written (known findings, by predicate on the input)
                ts = spec.get("tree", {}).get("build_timestamp")
                seq["nonfinite_build_timestamp"] = isinstance(ts, dict) and ts.get("$float") in ("inf", "-inf", "nan")
                seq["no_variants"] = spec.get("variants") == []
            if o["expect_reject"]:
                if d == "ok":
                    return {"observed": dict(seq, dumps="ok", only_trailing_newline=bool(o["only_nl"])),
                            "required": "this dumps() raises TypeError or ValueError: a written part breaks a catalogue rule at that point of the sequence",
                            "kind": "accepted-invalid"}
                if d not in ("TypeError", "ValueError"):
                    # (a value that is invalid only by the documented sense of `$` passes the validators, F15; the writer may then fail for another known reason)
                    return {"observed": dict(seq, dumps=d, only_trailing_newline=bool(o["only_nl"])),
                            "required": "dumps() raises TypeError or ValueError (not another class)", "kind": "wrong-class"}
            elif d != "ok":
                return {"observed": dict(seq, dumps=d), "required": "every written part satisfies the catalogue at that point of the sequence: dumps() returns text",
                        "kind": "refused-valid"}
        return None

    def nontrivial(self, case, real_out):
        return True

    def stats(self, case, real_out, dist):
        a = case["args"]
        k = "%s/%s/%s" % (a["fmt"], "valid" if not a["mods"] else "corrupt", ",".join(o["dumps"] for o in real_out["obs"]))
        dist[k] = dist.get(k, 0) + 1
        h = dist.setdefault("histories", {})
        h[a.get("history", "fresh")] = h.get(a.get("history", "fresh"), 0) + 1
        if a["mods"]:
            cls = a["tag"].split(":")[0]
            dist.setdefault("corrupted_class", {})
            dist["corrupted_class"][cls] = dist["corrupted_class"].get(cls, 0) + 1
        else:
            enum = dist.setdefault("enumeration_values_used", {})
            s = a["spec"]
            def note(name, v):
                if isinstance(v, str):
                    enum.setdefault(name, [])
                    if v not in enum[name]:
                        enum[name].append(v)
            if isinstance(s.get("compose"), dict):
                note("compose_type", s["compose"]["type"]); note("label", (s["compose"]["label"] or "").split("-")[0] or None)
            if isinstance(s.get("release"), dict):
                note("release_type", s["release"].get("type"))
            for e in s.get("images", []) if isinstance(s.get("images"), list) else []:
                note("image_type", e["fields"]["type"]); note("image_format", e["fields"]["format"]); note("image_cell_arch", e["arch"])

            def walk(vs):
                for v in vs:
                    note("variant_type", v["type"]); walk(v["kids"])
            if isinstance(s.get("variants"), list):
                walk(s["variants"])

    def shrink_candidates(self, case):
        a = case["args"]
        out = []
        s = a["spec"]
        used = set(m["path"] for m in a["mods"])
        if any(st["do"] == "reload" for st in a.get("steps", [])):
            return []

        def emit(s2):
            c = copy.deepcopy(case); c["args"]["spec"] = s2; out.append(c)
        if a["fmt"] in ("composeinfo", "treeinfo"):
            # drop a whole top-level variant / a leaf child that the modification does not touch
            for i, v in enumerate(s["variants"]):
                if len(s["variants"]) > 1 and not any(("variants/%s" % v["uid"]) in p or ("variants/%s" % v["id"]) in p for p in used):
                    s2 = copy.deepcopy(s); del s2["variants"][i]; emit(s2)
            for i, v in enumerate(s["variants"]):
                for j, c in enumerate(v["kids"]):
                    if not any(c["id"] in p for p in used):
                        s2 = copy.deepcopy(s); del s2["variants"][i]["kids"][j]; emit(s2)
        return out


PROP = C06()

MANIFEST = dict(
    technique="Lean 4 proof over a walk model of dump(): rule catalogue (hand-written spec) included in the validator inventory regenerated from the source (decide), validate() placement read from the regenerated call structure (decide), structural lemmas over forest/cells; differential correspondence of every part's validate() and of the whole dumps() outcome; oracle on the real library with one-field corruptions",
    text="C06_catalogue_enforced / C06_catalogue_complete: every documented rule is among the rules validate() runs for its class, and nothing else is (decide on Generated/Validators.lean). C06_flags: every nested writer calls self.validate() where the model assumes (decide on Generated/Structure.lean). C06_enforced_<format>: if any written part (any variant of the forest, any image of any cell, any section) breaks a catalogue rule, dumps fails; C06_errclass_<format>: ANY failure of the walk is TypeError or ValueError (images/rpms/modules/extra_files/discinfo: no hypothesis; composeinfo/treeinfo: for parts in the model domain StepsInDomain, treeinfo additionally IndexError when there is no variant, F12); C06_converse_<format> (all seven): all rules hold and the listed non-validator failure sources are absent => dumps succeeds.",
    note="Model = outcome of dump() up to the end of serialize() (not the text). Skeleton assumed well typed. Known finding: F15 (`$` accepts a trailing line feed). F23 (AttributeError for a non-string uid / image path) is repaired in /repo: the oracle accepts no class other than TypeError/ValueError.",
    ref="7/C06")
