import importlib


def load_prop(pid):
    mod = importlib.import_module("props." + pid.lower())
    return mod.PROP
