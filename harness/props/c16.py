"""C16 - checksums recorded in metadata are the true digests of the right files.

Real side: real files of sizes straddling the 1 MiB read chunk x every algorithm hashlib offers by name, hashed by
`compute_checksum` / `Checksums.add` and compared with one-shot hashlib (oracle), with the sizes returned by the
successive `fo.read()` calls compared with the model's chunk trace (correspondence); relative paths with redundant
components through `Checksums.add`; real TreeInfo loads of a minimal valid tree plus a `[checksums]` section mixing
typed and bare entries of recognised / unrecognised lengths in every order; write+read of tables; `add_checksum`
sequences with equal / different / empty values.  Op `hash`: the modelled hash objects (md5/sha1/sha2 of Model/HashMD.lean run through the
code's chunk loop, a loop of any chunk size, or arbitrary chunk sizes) vs hashlib one-shot, hashlib fed the same chunks and
`compute_checksum` on a real file, on every padding boundary, chunk size -1/+0/+1/x2, random / sparse / text-like contents.
"""
import builtins, hashlib, itertools, json, os, posixpath, random, re, shutil, tempfile
import checklib
from checklib import Prop, ROOT
import fmt7

MIB = 2 ** 20
SIZES = [0, 1, MIB - 1, MIB, MIB + 1, 2 * MIB - 1, 2 * MIB, 2 * MIB + 1, 3 * MIB + 5]
ERRS = ("TypeError", "ValueError", "KeyError", "AttributeError", "IndexError", "RuntimeError")


def algorithms():
    out = []
    for a in sorted(hashlib.algorithms_available):
        try:
            hashlib.new(a).hexdigest()          # shake_* need a length: skipped
            out.append(a)
        except Exception:
            pass
    return out


def errname(e):
    n = type(e).__name__
    return n if n in ERRS else "Other"


def content_of(size, salt=0):
    return random.Random(size * 7919 + salt).randbytes(size)


# ---- the modelled hash objects (Model/HashMD.lean): what the driver op `hash_digest` knows by name
MODELLED = ["md5", "sha1", "sha224", "sha256", "sha384", "sha512"]
BLOCK = {"md5": 64, "sha1": 64, "sha224": 64, "sha256": 64, "sha384": 128, "sha512": 128}
# padding boundaries of 64- and 128-byte blocks (length field 8 / 16 bytes): 55|56, 63|64, 111|112, 119|120, 127|128
BOUNDARY = [0, 1, 55, 56, 57, 63, 64, 65, 111, 112, 119, 120, 127, 128, 129]
BIG = 1 << 16            # above: content = a 4093-byte random pattern repeated (cheap to hand to the driver)
PATTERN = 4093


def hash_content(length, salt, kind="random"):
    """-> (bytes, driver content spec).  kinds: random bytes; zeros (a sparse file: every chunk equal to the previous one);
    text (lines ending in CR LF / LF, trailing newline and blanks: what a text-mode read or a strip() would change)"""
    if kind == "zeros":
        return b"\0" * length, {"hex": "00", "repeat": length}
    if kind == "text":
        unit = b"line one\r\nline two \n\ttab\r\n\n\x1a\xc3\xa9 \n"
        rep = length // len(unit)
        tail = (b"\r\n \n" * len(unit))[:length - rep * len(unit)]
        return unit * rep + tail, {"hex": unit.hex(), "repeat": rep, "tail_hex": tail.hex()}
    if length <= BIG:
        data = random.Random("h-%d-%d" % (length, salt)).randbytes(length)
        return data, {"hex": data.hex()}
    pat = random.Random("p-%d-%d" % (length, salt)).randbytes(PATTERN)
    rep = length // PATTERN
    tail = pat[:length - rep * PATTERN]
    return pat * rep + tail, {"hex": pat.hex(), "repeat": rep, "tail_hex": tail.hex()}


def feed(h, data, chunking):
    """a hashlib object fed the way the chunking says; -> number of update() calls"""
    mode, n_upd = chunking["mode"], 0
    if mode == "loop":                       # the library's loop shape over an in-memory file, chunk size n
        import io
        fo = io.BytesIO(data)
        while True:
            chunk = fo.read(chunking["n"])
            if not chunk:
                break
            h.update(chunk)
            n_upd += 1
    elif mode == "sizes":
        pos = 0
        for k in chunking["sizes"]:
            h.update(data[pos:pos + k])
            pos += k
            n_upd += 1
        h.update(data[pos:])
        n_upd += 1
    else:
        h.update(data)
        n_upd = 1
    return n_upd


class ReadSpy(object):
    """observe fo.read() on files opened 'rb' under `root` (wrapped from outside)"""
    def __init__(self, root):
        self.root, self.reads, self.opened = os.path.realpath(root), [], []

    def __enter__(self):
        self.orig = builtins.open
        me = self

        def opn(f, mode="r", *a, **k):
            fo = me.orig(f, mode, *a, **k)
            if isinstance(f, str) and "b" in mode and os.path.realpath(f).startswith(me.root):
                me.opened.append(f)
                real_read = fo.read

                class Proxy(object):
                    def read(self_, n=-1):
                        d = real_read(n)
                        me.reads.append(len(d))
                        return d

                    def __enter__(self_):
                        return self_

                    def __exit__(self_, *e):
                        fo.close()
                        return False

                    def __getattr__(self_, name):
                        return getattr(fo, name)
                return Proxy()
            return fo
        builtins.open = opn
        return self

    def __exit__(self, *e):
        builtins.open = self.orig
        return False


def base_treeinfo_text(seed, header):
    checklib.use_repo()
    ti = fmt7.treeinfo(random.Random(seed))
    ti.checksums.checksums.clear()
    t = ti.dumps()
    if not header:
        t = re.sub(r"\[header\]\n(.*\n)*?\n", "", t)
    return t


def spec_typed(raw):
    """the property's reading of ONE raw value: (type, value) or None = must be rejected; 'any' = not specified"""
    if ":" in raw:
        parts = raw.split(":")
        return (parts[0], parts[1]) if len(parts) == 2 else "any"
    if not all(c in "0123456789abcdefABCDEF" for c in raw):
        return "nonhex"                          # "32/40/64 hex digits ... anything else rejected": not a digest at all
    return {32: ("md5", raw), 40: ("sha1", raw), 64: ("sha256", raw)}.get(len(raw))


class C16(Prop):
    id = "C16"
    lean_module = "ProductMD.Properties.C16"
    quick_budget = 900
    thorough_budget = 12000
    rule = ("digests: real files of 9 sizes around multiples of the 1 MiB chunk x every hashlib algorithm usable by name vs one-shot "
            "hashlib, each file hashed twice with a content change in between (same size and mtime / new mtime / new size), read sizes "
            "vs the model's trace; add (incl. x/../ over real, symlinked and missing directories): relative paths with ./ // x/../ (and absolute ones) with and without a given "
            "value; sections: typed/bare entries of lengths 31..65 in every order loaded by the real TreeInfo, bare values of the three lengths that are not hex digits (foreign letters, non-ASCII digits, one foreign character or a line feed inside a digest: refused) and upper/mixed-case hex (accepted); tables written and read "
            "back; add_checksum sequences over mixed-case / same-name-two-spellings type names; hash: md5/sha1/sha224/sha256/sha384/sha512 "
            "of the MODEL (block-buffered absorber run through the code's chunk loop, a loop of any chunk size, or arbitrary chunk sizes) vs "
            "hashlib one-shot, hashlib fed the same chunks and compute_checksum on a real file, lengths on every padding boundary "
            "(0,1,55..57,63..65,111,112,119,120,127..129), chunk size -1/+0/+1/x2 (incl. the code's 1 MiB) and random; non-trivial = distinct case")
    assumptions = ["hashlib: md5, sha1, sha224, sha256, sha384, sha512 are MODELLED (Model/HashMD.lean, streaming law PROVED for every block-buffered "
                   "hash in Proofs/HashMD.lean) and compared with hashlib.new(name) on every run (op 'hash'); for the other names hashlib offers "
                   "(sha3_*, blake2*, sm3, ripemd160, ...) the generic theorem C16_chunked_md applies to any hash of the block-buffered shape with "
                   "the compression/finalisation functions left abstract - that a given OpenSSL algorithm HAS this shape is not proved, it is "
                   "exercised by the digest cases (library on real files vs one-shot hashlib, every algorithm usable by name)",
                   "the INI layer delivers the [checksums] section as (path, raw value) pairs; the model is fed parser.items() of the "
                   "real parser on the same text"]
    partial = {}

    def __init__(self):
        self._gen = None
        self._dir = None
        self._files = {}

    def gen(self):
        if self._gen is None:
            self._gen = json.load(open(os.path.join(ROOT, "lean", "generated.json")))
        return self._gen

    @staticmethod
    def algo_ok(a):
        try:
            hashlib.new(a).hexdigest()
            return True
        except Exception:
            return False

    def workdir(self):
        if self._dir is None:
            self._dir = tempfile.mkdtemp(prefix="c16-")
            import atexit
            atexit.register(shutil.rmtree, self._dir, True)
        return self._dir

    def file_of_size(self, size):
        if size not in self._files:
            p = os.path.join(self.workdir(), "blob-%d" % size)
            with open(p, "wb") as f:
                f.write(content_of(size))
            self._files[size] = p
        return self._files[size]

    # ------------------------------------------------------------------ generators
    def cases(self, rng, tier, budget):
        algos = algorithms()
        # 1. digests
        if tier == "quick":
            pairs = [(s, a) for s in SIZES for a in ("md5", "sha1", "sha256")]
            pairs += [(s, a) for a in algos for s in (0, 1, MIB + 1)]
            pairs += [(rng.choice(SIZES[2:]), a) for a in algos]
            pairs += [(MIB + 1, a) for a in ("SHA256", "Md5", "SHA1") if self.algo_ok(a)]        # audit A4: case variants of the same name
        else:
            pairs = [(s, a) for s in SIZES for a in algos]
            pairs += [(rng.randrange(0, 4 * MIB), rng.choice(algos)) for _ in range(40)]
        seen = set()
        for s, a in pairs:
            if (s, a) not in seen:
                seen.add((s, a))
                yield {"op": "digest", "args": {"size": s, "algo": a, "via": "add" if (s + len(a)) % 3 == 0 else "compute",
                                                "change": ["same-size-same-mtime", "same-size-same-mtime", "same-size-new-mtime", "new-size"][len(seen) % 4]}}
        # 1c. the MODELLED hash objects: model (chunk loop over the block-buffered absorber) vs hashlib vs the library on a real file
        for c in self.hash_cases(rng, tier, budget):
            yield c
        # 2b. `x/../` where x is a real directory / a symlink to a directory elsewhere / missing; digest always computed
        templates = [("images/%s/../boot.iso", 1), ("%s/../a/Z.img", 1), ("a/%s/../b/%s/../Z.img", 2), ("./%s/..//images/./%s/../initrd.img", 2),
                     ("a/b/%s/../../c", 1), ("%s/../%s/../top.img", 2)]
        names = {"dir": ["sub", "subdir2"], "symlink": ["lnk", "previous"], "missing": ["gone", "nonexistent"]}
        for i in range(max(36, budget // 12)):
            tpl, n = templates[i % len(templates)]
            modes = [["dir", "symlink", "missing"][(i // len(templates) + j) % 3] for j in range(n)]
            comps = [names[m][j] for j, m in enumerate(modes)]
            yield {"op": "add", "args": {"path": tpl % tuple(comps), "type": rng.choice(["sha256", "md5", "sha1"]), "value": rng.choice([None, None, ""]),
                                         "root": True, "size": rng.choice([1, 5, 1000]), "before": [], "links": dict(zip(comps, modes))}}
        # 2. add with redundant path components
        comps = ["a", "b", "Z.img", ".", "..", "", "x y", "...", " ", "a b ", "\t", "\u00a0x", "a:b", "a=b", "#x", "%s", "[x]", "a\\b", "\"q\"", "a,b;c",
                 "\u00e9\u0663\uff17", "\U0001F600", "n" * 120, "None", "0", "tree", "a"]          # audit A1, A2, A3, A5
        n_add = max(60, budget // 6)
        fixed = ["./x//y/../Z.img", "a/./b", "a//b", "x/../a", "x/../../a", "..", ".", "", "a/", "/abs/p", "//abs2", "///abs3", "a/..", "./", "../x/..", "a/b/../../c"]
        for i in range(n_add):
            if i < len(fixed):
                rel = fixed[i]
            else:
                rel = "/".join(rng.choice(comps) for _ in range(rng.randint(1, 6)))
                if rng.random() < 0.1:
                    rel = "/" + rel
            value = rng.choice([None, "", "%032x" % rng.getrandbits(128), "cafe", 0, False, [], " ", "None", "0"])          # audit A8: every falsy value computes
            before = [[posixpath.normpath(rng.choice(fixed[:6])), [rng.choice(["md5", "sha1"]), "%08x" % rng.getrandbits(32)]] for _ in range(rng.randint(0, 2))]
            if rel and not rel.startswith("/") and rng.random() < 0.3:
                before.append([posixpath.normpath(rel), ["md5", "00"]])           # audit A10: two spellings normalising to the same key
            before = [e for j, e in enumerate(before) if e[0] not in [x[0] for x in before[:j]]]
            yield {"op": "add", "args": {"path": rel, "type": rng.choice(["sha256", "md5", "sha512", "no-such-algo"]) if rng.random() < 0.9 else "sha1",
                                         "value": value, "root": rng.random() < 0.85, "size": rng.choice([0, 5, 1000]), "before": before}}
        # 3. [checksums] sections
        lens = [0, 1, 31, 32, 33, 39, 40, 41, 63, 64, 65, 128]

        def raw(kind):
            if kind == "typed":
                return "%s:%s" % (rng.choice(["sha256", "md5", "sha1", "sha512", "SHA256", "x"]), "%x" % rng.getrandbits(rng.choice([8, 128, 256])))
            if kind == "bare-ok":                    # lower, upper and mixed case: A-F are hex digits too
                return "".join(rng.choice(rng.choice(["0123456789abcdef", "0123456789abcdef", "0123456789ABCDEF", "0123456789abcdefABCDEF"]))
                               for _ in range(rng.choice([32, 40, 64])))
            if kind == "bare-bad":
                return "".join(rng.choice("0123456789abcdef") for _ in range(rng.choice([l for l in lens if l not in (0, 32, 40, 64)])))
            if kind == "multi":
                return "sha256:ab:cd"
            if kind == "blank":
                return ""
            if kind == "inner-blank":
                return "sha256: ab cd"
            if kind == "nonhex":                     # right length, not hex digits (audit A5: looks like a digest by length only)
                n = rng.choice([32, 40, 64])
                h = "".join(rng.choice("0123456789abcdefABCDEF") for _ in range(n))
                k = rng.randrange(n)
                return rng.choice(["z" * 32, "\u0663" * 40, "g" * 64, "0" * 31 + "-", "\uff17" * 32, "\uff21" * 64, "\u0966" * 40,       # full-width / Arabic-Indic / Devanagari digits
                                   h[:k] + rng.choice("gGzZ-_ .xX\u00e9\uff10\u0661") + h[k + 1:],                                        # one foreign character anywhere in a digest
                                   "0x" + h[2:], h[:-1] + "h", "G" + h[1:], h[:n // 2 - 1] + "  " + h[n // 2 + 1:],
                                   h[:n // 2] + "\n " + h[n // 2 + 1:],                                                                 # an INI continuation line: a line feed inside the value
                                   "zz", "not-a-digest", "\uff17" * 7])                                                                 # ... and of no recognised length
            if kind == "near-length":                # digests of other algorithms: sha224 / sha384 / sha512 lengths
                return "".join(rng.choice("0123456789abcdef") for _ in range(rng.choice([56, 96, 128])))
            return "sha1:"
        # every order of a small mixed set (exhaustive), then random mixes
        base_sets = [["typed", "bare-ok", "bare-bad"], ["bare-bad", "typed"], ["bare-ok", "bare-ok", "typed"], ["typed", "typed", "bare-bad", "bare-ok"],
                     ["bare-bad"], ["multi", "typed"], ["empty-value", "bare-ok"], ["blank", "typed"], ["inner-blank", "bare-ok"], ["nonhex", "typed"],
                     ["near-length", "bare-ok"], []]
        n_sec = 0
        for kinds in base_sets:
            vals = [raw(k) for k in kinds]
            for perm in itertools.permutations(range(len(vals))):
                # the reader iterates in sorted key order: assign the keys so that this permutation IS the iteration order
                entries = [["p%02d/%s" % (pos, "file.img"), vals[i]] for pos, i in enumerate(perm)]
                yield {"op": "load_section", "args": {"entries": entries, "header": True, "seed": n_sec % 5}}
                n_sec += 1
        # keys as another tool / a hand / `checksums.checksums[...] = ...` writes them: spellings normpath would change, and PAIRS of keys with
        # the same normal form in both sort orders - the reader must keep every key exactly as it is in the file (add() never records these)
        SPELLED = ["./images/boot.iso", "images//boot.iso", "images/./boot.iso", "images/pxeboot/../boot.iso", "images/", "./a", "a/.", "x/../x/../z", "a/b/../../c/"]
        PAIRS = [("images/efiboot.img", "images/pxeboot/../efiboot.img"), ("z/../a/file", "a/file"), ("./k", "k"), ("k", "k/"), ("d//e", "d/e"), ("d/./e", "d/e"),
                 ("./a/../b", "b"), ("b", "c/../b"), ("m/n", "m/n/."), ("./q//r/", "q/r")]
        n_sp = 0
        for header in (True, False):
            for key in SPELLED:
                for kind in ("typed", "bare-ok"):
                    n_sp += 1
                    entries = [[key, raw(kind)]] + ([["other/file", raw("typed")]] if n_sp % 2 else [])
                    yield {"op": "load_section", "args": {"entries": entries, "header": header, "seed": n_sp % 5, "preload": []}}
            for k1, k2 in PAIRS:
                for kinds in (("typed", "typed"), ("bare-ok", "typed"), ("typed", "bare-ok")):
                    n_sp += 1
                    yield {"op": "load_section", "args": {"entries": [[k1, raw(kinds[0])], [k2, raw(kinds[1])]], "header": header, "seed": n_sp % 5, "preload": []}}
        for _ in range(max(40, budget // 6)):
            k = rng.randint(1, 5)
            entries, keys = [], set()
            for _ in range(k):
                key = rng.choice(["images/boot.iso", "images/efiboot.img", "LiveOS/squashfs.img", "repodata/repomd.xml", "UP/low", "a b/c", "z"]) + rng.choice(["", "0", "1"])
                if rng.random() < 0.25:
                    key = rng.choice(SPELLED + [x for pr in PAIRS for x in pr])
                if key in keys:
                    continue
                keys.add(key)
                entries.append([key, raw(rng.choice(["typed", "typed", "bare-ok", "bare-ok", "bare-bad", "multi", "empty-value", "inner-blank", "nonhex", "near-length"]))])
            if rng.random() < 0.2:                   # audit A4: keys that differ only in case
                entries += [["UP/low", raw("typed")], ["up/LOW", raw("bare-ok")]]
                entries = [e for j, e in enumerate(entries) if e[0] not in [x[0] for x in entries[:j]]]
            header = rng.random() < 0.8
            if not header and rng.random() < 0.6:    # audit C2: the literal "/os/", an extension and a proper prefix of it
                entries.append([rng.choice(["/mnt/tree/os/images/pxe.img", "/abs/no-os-dir/file", "//mnt/os/x/os/y", "/mnt/os2/x", "/mnt/o/s/x", "/os/", "/os"]), raw("typed")])
            preload = [[rng.choice(["images/boot.iso", "stale/entry"]), ["md5", "0" * 32]]] if rng.random() < 0.2 else []       # audit B2: load into a NON-EMPTY object
            yield {"op": "load_section", "args": {"entries": entries, "header": header, "seed": rng.randrange(5), "preload": preload}}
        # 4. write + read
        safe_keys = ["images/boot.iso", "images/efiboot.img", "LiveOS/squashfs.img", "UP/low", "up/LOW", "a b/c", "\u00e9/\u0663", "a;b", "x" * 200, "None", "0", "a/a/a", "%s"]
        unsafe_keys = ["a:b/c", "a=b", "#x", ";x", "[x]", " lead", "trail ", "a = b"]            # audit A2/A1: the INI format's own delimiters in a PATH
        tpool = ["sha256", "md5", "sha1", "sha512", "MiXed", "SHA256", "m d", "a=b", "a#b", "a;b", "%(x)s", "None", ""]
        spelled_keys = ["./images/boot.iso", "images//boot.iso", "images/./boot.iso", "images/pxeboot/../boot.iso", "images/", "a/.", "z/../a/file", "./q//r/"]
        for i, keys in enumerate([[k] for k in spelled_keys] + [["images/efiboot.img", "images/pxeboot/../efiboot.img"], ["z/../a/file", "a/file"], ["./k", "k"],
                                                               ["k", "k/"], ["d//e", "d/e", "d/./e"], ["b", "c/../b", "./a/../b"]]):
            table = dict((k, [rng.choice(["sha256", "md5", "sha512"]), "%x" % rng.getrandbits(rng.choice([64, 128]))]) for k in keys)
            for style in ("item", "assign"):
                yield {"op": "roundtrip", "args": {"table": sorted(table.items()), "seed": i % 5, "unsafe": False, "style": style, "second": i % 2 == 0}}
        for i in range(max(60, budget // 5)):
            unsafe = i % 6 == 5
            table = {}
            for _ in range(rng.randint(0, 4)):
                key = rng.choice(safe_keys) + rng.choice(["", "0"])
                if rng.random() < 0.15:
                    key = rng.choice(spelled_keys)
                if unsafe and rng.random() < 0.6:
                    key = rng.choice(unsafe_keys)
                t = rng.choice(tpool + ["a:b"]) if rng.random() < 0.15 else rng.choice(tpool)
                v = rng.choice(["%x" % rng.getrandbits(rng.choice([8, 128, 256])), "a=b", "a#b", "a ;b", "1 1", "None", "0", "", "f" * 300, "\u00e9"])
                if unsafe and rng.random() < 0.3:
                    v = rng.choice([" 11", "11 ", "\t11"])
                if rng.random() < 0.05:
                    v = v[:2] + ":" + v[2:]
                table[key] = [t, v]
            yield {"op": "roundtrip", "args": {"table": sorted(table.items()), "seed": rng.randrange(5), "unsafe": unsafe,
                                               "style": ["item", "assign", "add"][i % 3], "second": i % 4 == 0}}
        # 5b. non-string falsy values (audit A8): outside the model's universe (str | None), oracle only
        for _ in range(20):
            ops = [[rng.choice(["md5", "sha1"]), rng.choice(["aa", "bb", 0, False, [], {}, 0.0, None, ""])] for _ in range(rng.randint(2, 6))]
            yield {"op": "add_checksum_seq", "args": {"initial": [], "ops": ops, "no_model": True}}
        # 5. add_checksum sequences
        for ops, initial in [([["SHA256", "aa"], ["SHA256", "bb"]], []), ([["sha256", "aa"], ["SHA256", "bb"]], []), ([["SHA256", ""]], [["sha256", "aa"]]),
                             ([["Md5", "aa"], ["md5", "bb"], ["MD5", "cc"], ["Md5", "aa"], ["Md5", "dd"]], []), ([["SHA256", "bb"], ["SHA256", None]], [["sha256", "aa"]])]:
            yield {"op": "add_checksum_seq", "args": {"initial": initial, "ops": ops}}
        for _ in range(max(60, budget // 5)):
            vals = ["aa", "bb", "", None, "%032x" % rng.getrandbits(128), " ", "None", "0", "f" * 300, "AA"]
            # algorithm names as hashlib accepts them: mixed case, the same name in two spellings within one sequence, names
            # that differ only in case - the library treats every exact spelling as its own key
            pool = rng.choice([["md5", "sha1", "sha256"], ["sha256", "SHA256"], ["Md5", "md5", "MD5"], ["SHA256"], ["sha1", "Sha1", "sha256", "SHA256"],
                               ["md5", "sha1", "sha256", "SHA256", "Md5", "sha512", "SHA512"], ["", " ", "md5"], ["sha256", "sha256 ", "\uff53ha256"]])
            ops = [[rng.choice(pool), rng.choice(vals)] for _ in range(rng.randint(1, 7))]
            initial = [[t, rng.choice(vals[:3])] for t in rng.sample(sorted(set(x.lower() for x in pool)), rng.randint(0, min(2, len(set(x.lower() for x in pool)))))]
            yield {"op": "add_checksum_seq", "args": {"initial": initial, "ops": ops}}

    def hash_cases(self, rng, tier, budget):
        chunk = int(self.gen().get("checksums", {}).get("chunk_size", MIB)) if isinstance(self.gen().get("checksums"), dict) else MIB
        if chunk <= 0:
            chunk = MIB

        def chunking(length):
            k = rng.randrange(4)
            if k == 0:
                return {"mode": "code"}
            if k == 1:
                return {"mode": "loop", "n": rng.choice([1, 2, 7, 55, 56, 63, 64, 65, 100, 127, 128, 129, 1000, max(1, length - 1), length + 1, max(1, length)])}
            sizes, left = [], length
            while left > 0 and len(sizes) < 12:
                k = rng.choice([0, 1, 3, 63, 64, 65, 128, rng.randint(0, max(1, left)), rng.randint(0, 200)])
                sizes.append(k)
                left -= k
            if rng.random() < 0.3:
                sizes.append(rng.randint(0, 70))          # sizes running past the end: empty chunks
            return {"mode": "sizes", "sizes": sizes}
        n = 0
        # every modelled algorithm x every padding boundary: once through the code's loop (real file), once through another chunking
        for alg in MODELLED:
            for length in BOUNDARY:
                n += 1
                yield {"op": "hash", "args": {"alg": alg, "length": length, "salt": n % 3, "chunking": {"mode": "code"}}}
                ch = chunking(length)
                if ch["mode"] == "code":
                    ch = {"mode": "loop", "n": [1, 63, 64, 65, 128][n % 5]}
                yield {"op": "hash", "args": {"alg": alg, "length": length, "salt": n % 3, "chunking": ch}}
        # chunk size -1 / +0 / +1 / x2 (+1) for small chunk sizes, through the loop shape of the code
        for alg in MODELLED:
            for cs in ([64, 100] if tier == "quick" else [1, 2, 63, 64, 65, 100, 128, 1000, 4096]):
                for length in (cs - 1, cs, cs + 1, 2 * cs - 1, 2 * cs, 2 * cs + 1):
                    yield {"op": "hash", "args": {"alg": alg, "length": length, "salt": 1, "chunking": {"mode": "loop", "n": cs}}}
        # ... and for the code's own chunk size (real files of 1 MiB -1/+0/+1, 2 MiB) through the code's loop
        big_algs = ["md5", "sha1", "sha256"] if tier == "quick" else MODELLED
        for alg in big_algs:
            for length in (chunk - 1, chunk, chunk + 1, 2 * chunk):
                yield {"op": "hash", "args": {"alg": alg, "length": length, "salt": 2, "chunking": {"mode": "code"}}}
        if tier == "quick":
            for alg in ("sha224", "sha384", "sha512"):
                yield {"op": "hash", "args": {"alg": alg, "length": chunk + 1, "salt": 2, "chunking": {"mode": "code"}}}
        # sparse files (consecutive chunks identical) and text-like files (CR LF, trailing newline/blank, ^Z) through the code's loop and others
        for i, alg in enumerate(MODELLED if tier != "quick" else ["md5", "sha256", "sha512"]):
            yield {"op": "hash", "args": {"alg": alg, "length": [2 * chunk, 3 * chunk + 5, 2 * chunk + 1][i % 3], "salt": 0, "kind": "zeros", "chunking": {"mode": "code"}}}
        for alg in MODELLED:
            for length in (1, 2, 3, 41, 64, 130, 1000):
                yield {"op": "hash", "args": {"alg": alg, "length": length, "salt": 0, "kind": "text", "chunking": {"mode": "code"}}}
            yield {"op": "hash", "args": {"alg": alg, "length": rng.randrange(100, 3000), "salt": 0, "kind": rng.choice(["text", "zeros"]), "chunking": chunking(100)}}
        yield {"op": "hash", "args": {"alg": "sha1", "length": chunk + 2, "salt": 0, "kind": "text", "chunking": {"mode": "code"}}}
        # the same name in other letter cases (hashlib.new / OpenSSL accept them)
        for alg in ("SHA256", "Md5", "SHA1", "Sha512"):
            if self.algo_ok(alg):
                yield {"op": "hash", "args": {"alg": alg, "length": 129, "salt": 0, "chunking": {"mode": "code"}}}
        # random contents, lengths and chunkings
        for _ in range(max(90, budget // 8) if tier == "quick" else max(600, budget // 6)):
            length = rng.choice([rng.randrange(0, 300), rng.randrange(0, 5000), rng.choice(BOUNDARY) + 128 * rng.randrange(0, 20)])
            yield {"op": "hash", "args": {"alg": rng.choice(MODELLED), "length": length, "salt": rng.randrange(1000), "chunking": chunking(length)}}

    # ------------------------------------------------------------------ real side
    def real(self, case):
        checklib.use_repo()
        import productmd.treeinfo as T
        op, a = case["op"], case["args"]
        if op == "digest":
            # every file is hashed TWICE on the same path in the same process, with a content change in between that keeps
            # the size and (by default) the modification time: a digest is a function of the content, nothing else
            size, change = a["size"], a.get("change", "same-size-same-mtime")
            d = tempfile.mkdtemp(prefix="c16d-", dir=self.workdir())
            path = os.path.join(d, "blob-%d" % size)
            rounds, salt = [], 0
            try:
                data = content_of(size, salt)
                with open(path, "wb") as f:
                    f.write(data)
                for rnd in (0, 1):
                    expected = hashlib.new(a["algo"], data).hexdigest()
                    with ReadSpy(d) as spy:
                        try:
                            if a["via"] == "add":
                                ti = T.TreeInfo()
                                ti.checksums.add("./" + os.path.basename(path), a["algo"], None, d)
                                got = ti.checksums.checksums[os.path.basename(path)][1]
                            else:
                                got = T.compute_checksum(path, a["algo"])
                        except Exception as e:
                            got = {"err": errname(e)}
                    rounds.append({"digest": got, "expected": expected, "reads": spy.reads, "size": len(data)})
                    if rnd == 0:
                        st = os.stat(path)
                        new_size = size if change != "new-size" else size + 1
                        while True:
                            salt += 1
                            new = content_of(new_size, salt)
                            if new != data or new_size == 0:
                                break
                        data = new
                        with open(path, "wb") as f:
                            f.write(data)
                        if change == "same-size-same-mtime":
                            os.utime(path, ns=(st.st_atime_ns, st.st_mtime_ns))
            finally:
                shutil.rmtree(d, ignore_errors=True)
            return {"rounds": rounds, "digest": rounds[0]["digest"], "expected": rounds[0]["expected"], "reads": rounds[0]["reads"]}
        if op == "hash":
            data, _ = hash_content(a["length"], a["salt"], a.get("kind", "random"))
            one = hashlib.new(a["alg"], data).hexdigest()
            h = hashlib.new(a["alg"])
            n_upd = feed(h, data, a["chunking"])
            d = tempfile.mkdtemp(prefix="c16h-", dir=self.workdir())
            path = os.path.join(d, "blob")
            try:
                with open(path, "wb") as f:
                    f.write(data)
                try:
                    lib = T.compute_checksum(path, a["alg"])
                except Exception as e:
                    lib = {"err": errname(e)}
            finally:
                shutil.rmtree(d, ignore_errors=True)
            return {"oneshot": one, "fed": h.hexdigest(), "updates": n_upd, "lib": lib, "length": len(data)}
        if op == "add":
            root = tempfile.mkdtemp(prefix="c16r-", dir=self.workdir())
            ti = T.TreeInfo()
            for k, tv in a["before"]:
                ti.checksums.checksums[k] = list(tv)
            before = dict((k, list(v)) for k, v in ti.checksums.checksums.items())
            norm = posixpath.normpath(a["path"]) if a["path"] else "."
            target = os.path.join(root, "tree", norm)
            treeroot = os.path.join(root, "tree")
            os.makedirs(treeroot)
            expected_digest = None
            inside = os.path.realpath(target).startswith(os.path.realpath(treeroot) + os.sep)
            if inside and not a["path"].startswith("/"):
                os.makedirs(os.path.dirname(target), exist_ok=True)
                data = content_of(a["size"], 3)
                with open(target, "wb") as f:
                    f.write(data)
                try:
                    expected_digest = hashlib.new(a["type"], data).hexdigest()
                except Exception:
                    expected_digest = None
                # components that `x/../` cancels: a real directory, a SYMLINK to a directory elsewhere (below which the
                # un-normalised spelling reaches a DIFFERENT file), or nothing at all
                lex, comps = [], [c for c in a["path"].split("/")]
                for i, c in enumerate(comps):
                    if c in ("", "."):
                        continue
                    if c == "..":
                        if lex:
                            lex.pop()
                        continue
                    mode = a.get("links", {}).get(c)
                    here = os.path.join(treeroot, *(lex + [c]))
                    if mode == "dir":
                        os.makedirs(here, exist_ok=True)
                    elif mode == "symlink" and not os.path.lexists(here):
                        os.makedirs(os.path.dirname(here), exist_ok=True)
                        elsewhere = os.path.join(root, "elsewhere", "d%d" % i, "sub")
                        os.makedirs(elsewhere)
                        os.symlink(elsewhere, here)
                    lex.append(c)
                if "symlink" in a.get("links", {}).values():
                    os_target = os.path.join(treeroot, a["path"])
                    try:
                        if os.path.realpath(os_target) != os.path.realpath(target):
                            os.makedirs(os.path.dirname(os_target), exist_ok=True)
                            with open(os_target, "wb") as f:
                                f.write(content_of(a["size"], 4) + b"decoy")
                    except OSError:
                        pass
            with ReadSpy(root) as spy:
                try:
                    ti.checksums.add(a["path"], a["type"], a["value"], treeroot if a["root"] else None)
                    res = "ok"
                except Exception as e:
                    res = {"err": errname(e)}
            after = dict((k, list(v)) for k, v in ti.checksums.checksums.items())
            opened = [p[len(treeroot) + 1:] if p.startswith(treeroot + "/") else p for p in spy.opened]
            shutil.rmtree(root, ignore_errors=True)
            return {"result": res, "before": before, "after": after, "order": list(after), "opened": opened, "expected_digest": expected_digest,
                    "digest_ok": expected_digest is not None and bool(a["root"])}
        if op == "load_section":
            import productmd.common as C
            text = base_treeinfo_text(a["seed"], a["header"]) + "\n[checksums]\n" + "".join("%s = %s\n" % (k, v) for k, v in a["entries"])
            cp = C.SortedConfigParser()
            try:
                cp.read_string(text)
                items = [[k, v] for k, v in cp.items("checksums")]
            except Exception as e:
                return {"ini_error": type(e).__name__}
            ti = T.TreeInfo()
            for k, tv in a.get("preload", []):
                ti.checksums.checksums[k] = tuple(tv)
            again = None
            try:
                ti.loads(text)
                res = {"ok": dict((k, list(v)) for k, v in ti.checksums.checksums.items())}
                try:                                 # audit B2/B5: what was read is written (current header now) and read again
                    t3 = T.TreeInfo()
                    t3.loads(ti.dumps())
                    again = {"ok": dict((k, list(v)) for k, v in t3.checksums.checksums.items())}
                except Exception as e:
                    again = {"err": errname(e)}
            except Exception as e:
                res = {"err": type(e).__name__ if type(e).__name__ in ERRS or type(e).__name__ == "UnboundLocalError" else "Other"}
            return {"items": items, "result": res, "again": again}
        if op == "roundtrip":
            import productmd.common as C
            ti = fmt7.treeinfo(random.Random(a["seed"]))
            style = a.get("style", "item")
            if style == "assign":                    # audit B4: a fresh container assigned vs the default one filled in place
                ti.checksums.checksums = dict((k, tuple(tv)) for k, tv in a["table"])
            else:
                ti.checksums.checksums.clear()
                for k, tv in a["table"]:
                    if style == "add" and tv[1] and posixpath.normpath(k) == k and not k.startswith("/"):
                        ti.checksums.add(k, tv[0], tv[1])
                    else:
                        ti.checksums.checksums[k] = tuple(tv)
            try:
                text = ti.dumps()
                # audit B3/B1: read-only calls between the steps change nothing; the same dump twice gives the same bytes
                snapshot = dict((k, list(v)) for k, v in ti.checksums.checksums.items())
                for k in list(ti.checksums.checksums):
                    ti.checksums[k]
                if ti.dumps() != text or dict((k, list(v)) for k, v in ti.checksums.checksums.items()) != snapshot:
                    return {"result": {"err": "Other", "at": "read-only-calls-changed-state"}, "items": None}
            except Exception as e:
                return {"result": {"err": errname(e), "at": "dump"}, "items": None}
            cp = C.SortedConfigParser()
            try:
                cp.read_string(text)
                items = [[k, v] for k, v in cp.items("checksums")] if cp.has_section("checksums") else []
            except Exception:
                items = None                         # the INI reader itself refuses the written text
            t2 = T.TreeInfo()
            try:
                t2.loads(text)
                res = {"ok": dict((k, list(v)) for k, v in t2.checksums.checksums.items())}
                if a.get("second"):                  # audit B2: load -> modify -> dump -> load
                    t2.checksums.add("second/cycle.img", "sha256", "ab" * 32)
                    t3 = T.TreeInfo()
                    t3.loads(t2.dumps())
                    res["second"] = dict((k, list(v)) for k, v in t3.checksums.checksums.items())
            except Exception as e:
                res = {"err": errname(e), "at": "load"}
            return {"result": res, "items": items}
        if op == "add_checksum_seq":
            from productmd.images import Images, Image
            img = Image(Images())
            img.checksums = dict((t, v) for t, v in a["initial"])
            steps, snaps = [], [dict(img.checksums)]
            for t, v in a["ops"]:
                try:
                    steps.append({"ok": img.add_checksum(None, t, v)})
                except Exception as e:
                    steps.append({"err": errname(e)})
                snaps.append(dict(img.checksums))
            return {"steps": steps, "snaps": snaps, "table": [[t, v] for t, v in img.checksums.items()]}
        raise ValueError(op)

    # ------------------------------------------------------------------ model side
    def model_requests(self, case):
        op, a = case["op"], case["args"]
        if op == "digest":
            return [{"op": "ck_read_trace", "args": {"size": rd["size"]}} for rd in self._last["rounds"]]
        if op == "hash":
            _, spec = hash_content(a["length"], a["salt"], a.get("kind", "random"))
            return [{"op": "hash_digest", "args": dict(spec, alg=a["alg"], chunking=a["chunking"], oneshot=a["length"] <= BIG)}]
        if op == "add":
            r = self._last
            dg = {"ok": r["expected_digest"]} if r.get("expected_digest") is not None else {"err": "Other" if a["type"] != "no-such-algo" else "ValueError"}
            return [{"op": "ck_add", "args": {"table": a["before"], "path": a["path"], "type": a["type"], "value": a["value"] if isinstance(a["value"], str) else None,
                                             "root": "R" if a["root"] else None, "digest": dg}}]
        if op == "load_section":
            r = self._last
            if "ini_error" in r:
                return []
            return [{"op": "ck_deserialize", "args": {"legacy": not a["header"], "section": r["items"], "initial": a.get("preload", [])}}]
        if op == "roundtrip":
            r = self._last
            reqs = [{"op": "ck_serialize", "args": {"table": [[k, tv] for k, tv in a["table"]]}}]
            if r["items"] is not None:
                reqs.append({"op": "ck_deserialize", "args": {"legacy": False, "section": r["items"]}})
            return reqs
        if op == "add_checksum_seq":
            return [] if a.get("no_model") else [{"op": "ck_add_checksums", "args": {"table": a["initial"], "ops": a["ops"]}}]
        return []

    def real_and_stash(self, case):
        out = self._real(case)
        self._last = out
        return out

    def model_result(self, case, outs):
        return outs

    def compare(self, case, real_out, outs):
        op, a = case["op"], case["args"]
        if op == "digest":
            for i, (rd, m) in enumerate(zip(real_out["rounds"], outs)):
                if isinstance(rd["digest"], dict):
                    continue
                if rd["reads"] != m:
                    return {"real": {"round": i, "reads": rd["reads"]}, "model": {"round": i, "reads": m}}
            return None
        if op == "hash":
            m = outs[0]
            # the model's chunk loop vs: the library on the real file (the code's loop) / hashlib fed the same chunks
            want = real_out["lib"] if a["chunking"]["mode"] == "code" else real_out["fed"]
            rv = {"digest": want, "oneshot": real_out["oneshot"], "length": real_out["length"]}
            if "err" in m:
                mv = m
            else:
                mv = {"digest": m["digest"], "oneshot": m["oneshot"] if a["length"] <= BIG else real_out["oneshot"], "length": m["length"]}
            if rv != mv:
                return {"real": rv, "model": mv}
            return None
        if op == "add":
            m = outs[0]
            mres = m["result"] if m["result"] == "ok" else {"err": m["result"]["err"]}
            mtable = dict((k, tv) for k, tv in m["table"])
            rv = {"result": real_out["result"], "table": real_out["after"], "order": real_out["order"]}
            mv = {"result": mres, "table": mtable, "order": [k for k, _ in m["table"]]}
            if real_out["result"] == "ok" and real_out["opened"]:
                rv["opened"] = list(real_out["opened"])          # the exact spelling handed to open()
                mv["opened"] = [m["digest_path"][2:] if m["digest_path"].startswith("R/") else m["digest_path"]] if m["digest_path"] else None
            if rv != mv:
                return {"real": rv, "model": mv}
            return None
        if op == "load_section":
            m = outs[0]
            rres = real_out["result"]
            if "ok" in m:
                mv = {"ok": dict((k, tv) for k, tv in m["ok"])}
            else:
                mv = {"err": m["err"]}
            rv = rres if "ok" in rres else {"err": rres["err"] if rres["err"] != "UnboundLocalError" else "Other"}
            if rv != mv:
                return {"real": rv, "model": mv}
            return None
        if op == "roundtrip":
            ser = outs[0]
            rres = real_out["result"]
            if "err" in ser:
                ok = "err" in rres and rres.get("at") == "dump" and rres["err"] == ser["err"]
                return None if ok else {"real": rres, "model": ser}
            if rres.get("at") == "dump":
                return {"real": rres, "model": ser}
            if not a.get("unsafe") and real_out["items"] is not None and sorted(map(list, ser["ok"])) != sorted(real_out["items"]):
                return {"real": {"section": sorted(real_out["items"])}, "model": {"section": sorted(map(list, ser["ok"]))}}
            if len(outs) < 2:
                return None
            m = outs[1]
            mv = {"ok": dict((k, tv) for k, tv in m["ok"])} if "ok" in m else {"err": m["err"]}
            rv = {"ok": rres["ok"]} if "ok" in rres else {"err": rres["err"]}
            if rv != mv:
                return {"real": rv, "model": mv}
            return None
        if op == "add_checksum_seq":
            m = outs[0]
            rv = {"steps": real_out["steps"], "table": real_out["table"]}
            mv = {"steps": m["steps"], "table": m["table"]}
            if rv != mv:
                return {"real": rv, "model": mv}
            return None
        return None

    # ------------------------------------------------------------------ the property itself, on the real output
    def oracle(self, case, r):
        op, a = case["op"], case["args"]
        if op == "digest":
            for i, rd in enumerate(r["rounds"]):
                if rd["digest"] != rd["expected"]:
                    what = "hashlib.new(algo, whole content).hexdigest()" if i == 0 else \
                        "digest of the CURRENT content after the file was rewritten (%s)" % a.get("change", "same-size-same-mtime")
                    return {"observed": {"round": i, "digest": rd["digest"], "reads": rd["reads"], "size": rd["size"], "algo": a["algo"],
                                         "first_round_digest": r["rounds"][0]["digest"]},
                            "required": {"digest": rd["expected"], "what": what}, "kind": "wrong-digest" if i == 0 else "stale-digest"}
            return None
        if op == "hash":
            if r["lib"] != r["oneshot"]:
                return {"observed": {"digest": r["lib"], "algo": a["alg"], "size": r["length"]},
                        "required": {"digest": r["oneshot"], "what": "hashlib.new(algo, whole content).hexdigest()"}, "kind": "wrong-digest"}
            if r["fed"] != r["oneshot"]:             # hashlib itself: chunks fed one by one vs at once (the law PROVED of the model)
                return {"observed": {"fed_in_chunks": r["fed"], "chunking": a["chunking"], "algo": a["alg"]},
                        "required": {"digest": r["oneshot"], "what": "update(a); update(b) == update(a + b)"}, "kind": "hashlib-streaming"}
            return None
        if op == "add":
            if a["path"].startswith("/"):
                if r["result"] != {"err": "ValueError"} or r["after"] != r["before"]:
                    return {"observed": {"result": r["result"], "table": r["after"]}, "required": "absolute path refused with ValueError, table unchanged", "kind": "absolute-accepted"}
                return None
            if r["result"] != "ok":
                if r["after"] != r["before"]:
                    return {"observed": {"result": r["result"], "table": r["after"]}, "required": "a refused add leaves the table unchanged", "kind": "refused-add-changed-table"}
                if not a["value"] and a["root"] and r["expected_digest"] is not None:
                    return {"observed": {"result": r["result"], "links": a.get("links")},
                            "required": {"what": "the file at root/normpath(path) exists: its digest is computed and recorded", "digest": r["expected_digest"]},
                            "kind": "unexpected-refusal"}
                return None
            key = posixpath.normpath(a["path"]) if a["path"] else "."
            want = dict(r["before"])
            want[key] = [a["type"], a["value"] if a["value"] else r["expected_digest"]]
            if r["after"] != want or any(k.startswith("/") for k in r["after"]):
                return {"observed": {"table": r["after"]}, "required": {"table": want, "what": "entry under the normalised relative path, given value or true digest"},
                        "kind": "wrong-entry"}
            return None
        if op == "load_section":
            if "ini_error" in r:
                return None
            res = r["result"]
            specs = [(k, v, spec_typed(v)) for k, v in a["entries"]]
            if "ok" in res:
                for k, v, sp in specs:
                    if not a["header"] and k.startswith("/"):
                        continue                                   # legacy path rewriting: correspondence only
                    got = res["ok"].get(k)
                    if sp is None:
                        return {"observed": {"loaded": True, "path": k, "raw": v, "got": got}, "required": "a bare value whose length is not 32/40/64 is rejected", "kind": "unrecognised-accepted"}
                    if sp == "nonhex":
                        return {"observed": {"loaded": True, "path": k, "raw": v, "got": got},
                                "required": "a bare value that is not 32/40/64 HEX digits is rejected", "kind": "nonhex-bare-accepted"}
                    if sp == "any":
                        continue
                    if got != list(sp):
                        return {"observed": {"path": k, "raw": v, "got": got}, "required": {"path": k, "entry": list(sp)}, "kind": "wrong-type-or-value"}
                in_file = set(k for k, _ in a["entries"]) | set(k for k, _ in a.get("preload", []))
                foreign = sorted(k for k in res["ok"] if k not in in_file and not (not a["header"] and any(e[0].startswith("/") for e in a["entries"])))
                if foreign:
                    return {"observed": {"paths_not_in_the_file": foreign, "loaded": res["ok"]}, "required": {"paths": sorted(in_file)},
                            "kind": "path-not-in-file"}
                clean = all(":" not in x for tv in res["ok"].values() for x in tv) and all(not re.search(r"^\s|\s$|[:=]|^[#;\[]", k) for k in res["ok"])
                if clean and r.get("again") is not None and r["again"] != {"ok": res["ok"]} and not any(k.startswith("/") for k, _ in a["entries"]):
                    return {"observed": {"loaded": res["ok"], "after_dump_and_reload": r["again"]}, "required": "what was read survives a write + read", "kind": "reload-differs"}
                return None
            if all(sp not in (None, "any", "nonhex") for _, _, sp in specs) and not any(k.startswith("/") for k, _ in a["entries"]) \
                    and not any(k.startswith("/") for k, _ in a.get("preload", [])):
                return {"observed": res, "required": "a section of well-formed entries loads", "kind": "valid-section-refused"}
            if res["err"] != "ValueError":
                return {"observed": res, "required": "a malformed entry is rejected with ValueError", "kind": "wrong-error-class"}
            return None
        if op == "roundtrip":
            res = r["result"]
            clean = all(":" not in t and ":" not in v for _, (t, v) in a["table"])
            want = dict((k, list(tv)) for k, tv in a["table"])
            if res.get("at") == "read-only-calls-changed-state":
                return {"observed": res, "required": "__getitem__ / dumps change nothing", "kind": "read-only-call-mutates"}
            if "ok" in res:
                if res["ok"] != want:
                    return {"observed": res["ok"], "required": want, "kind": "roundtrip-differs"}
                if "second" in res:
                    want2 = dict(want)
                    want2["second/cycle.img"] = ["sha256", "ab" * 32]
                    if res["second"] != want2:
                        return {"observed": res["second"], "required": want2, "kind": "second-cycle-differs"}
            elif clean:
                return {"observed": res, "required": "table survives write + read", "kind": "roundtrip-refused"}
            return None
        if op == "add_checksum_seq":
            for i, (prev, cur, st) in enumerate(zip(r["snaps"], r["snaps"][1:], r["steps"])):
                for t, v in prev.items():
                    if t not in cur or cur[t] != v:
                        return {"observed": {"step": i, "op": a["ops"][i], "before": prev, "after": cur}, "required": "a recorded (type, value) is never replaced", "kind": "checksum-replaced"}
                if "err" in st and cur != prev:
                    return {"observed": {"step": i, "before": prev, "after": cur}, "required": "a refused add_checksum changes nothing", "kind": "refused-changed"}
                t, v = a["ops"][i]
                if "ok" in st and t in prev and v and v != prev[t]:
                    return {"observed": {"step": i, "op": a["ops"][i], "recorded": prev[t], "returned": st}, "required": "a different value for a recorded type raises ValueError", "kind": "conflict-silent"}
            return None
        return None

    def nontrivial(self, case, real_out):
        return True

    def stats(self, case, r, dist):
        op = case["op"]
        dist[op] = dist.get(op, 0) + 1
        if op == "digest":
            dist["digest change:" + case["args"].get("change", "")] = dist.get("digest change:" + case["args"].get("change", ""), 0) + 1
            k = "digest reads=%d" % len(r["reads"])
            dist[k] = dist.get(k, 0) + 1
            dist.setdefault("algorithms", [])
            if case["args"]["algo"] not in dist["algorithms"]:
                dist["algorithms"].append(case["args"]["algo"])
        elif op == "hash":
            a = case["args"]
            bs = BLOCK.get(a["alg"].lower(), 64)
            for k in ("hash alg:" + a["alg"], "hash chunking:" + a["chunking"]["mode"],
                      "hash length: %s" % ("0" if a["length"] == 0 else "< 1 block" if a["length"] < bs else "code's chunk size -1 and above" if a["length"] >= MIB - 1
                                           else "multiple of the block" if a["length"] % bs == 0 else "several blocks + rest"),
                      "hash padding: %s" % ("second block needed" if a["length"] % bs >= bs - bs // 8 else "fits"),
                      "hash updates: %s" % ("1" if r["updates"] == 1 else "2-9" if r["updates"] < 10 else "10+")):
                dist[k] = dist.get(k, 0) + 1
            dist["hash content:" + a.get("kind", "random")] = dist.get("hash content:" + a.get("kind", "random"), 0) + 1
            if a["length"] in BOUNDARY:
                dist.setdefault("hash boundary lengths", [])
                if a["length"] not in dist["hash boundary lengths"]:
                    dist["hash boundary lengths"] = sorted(dist["hash boundary lengths"] + [a["length"]])
        elif op in ("load_section", "roundtrip"):
            res = r.get("result", {})
            k = "%s %s" % (op, "ok" if "ok" in res else "ini-error" if "ini_error" in r else "err:" + str(res.get("err")))
            dist[k] = dist.get(k, 0) + 1
        elif op == "add":
            for m in sorted(set(case["args"].get("links", {}).values())):
                dist["add cancelled component: " + m] = dist.get("add cancelled component: " + m, 0) + 1
            k = "add %s" % (r["result"] if r["result"] == "ok" else "err:" + r["result"]["err"])
            dist[k] = dist.get(k, 0) + 1

    def shrink_candidates(self, case):
        op, a = case["op"], case["args"]
        out = []
        if op == "load_section" and len(a["entries"]) > 1:
            for i in range(len(a["entries"])):
                c = json.loads(json.dumps(case)); del c["args"]["entries"][i]; out.append(c)
        if op == "add_checksum_seq" and len(a["ops"]) > 1:
            for i in range(len(a["ops"])):
                c = json.loads(json.dumps(case)); del c["args"]["ops"][i]; out.append(c)
        if op == "hash":
            for L in (0, 1, a["length"] // 2, a["length"] - 1):
                if 0 <= L < a["length"]:
                    c = json.loads(json.dumps(case)); c["args"]["length"] = L; out.append(c)
        if op == "roundtrip" and len(a["table"]) > 1:
            for i in range(len(a["table"])):
                c = json.loads(json.dumps(case)); del c["args"]["table"][i]; out.append(c)
        return out


C16._real = C16.real
C16.real = C16.real_and_stash
PROP = C16()

MANIFEST = dict(
    technique="Lean 4 proofs by induction (block-buffered hash objects: streaming law for every block size and compression function; executable md5/sha1/sha2; read loop over them and over an abstract streaming hash, POSIX normpath, dict-assignment loop of the section reader, add_checksum histories) + decide on constants regenerated from the AST; differential run on real files, real TreeInfo loads and real Image objects",
    text="C16_chunked/C16_compute: for an abstract streaming hash with the concatenation law, ANY content and ANY chunk size > 0 the read-until-empty loop returns the one-shot digest (chunk size and loop shape come from the source). C16_streaming_md/C16_chunked_md/C16_any_chunking_md/C16_compute_md: hashlib objects MODELLED as block-buffered absorbers (chaining value, pending bytes, length; update compresses complete blocks, digest pads and finalises) - update(update h a) b = update h (a++b) and update h [] = h PROVED for every block size > 0 and every compression function, hence the code's loop (any chunk size, any chunking) returns the one-shot digest with NO hypothesis about the hash; C16_chunked_md5/_sha1/_sha224/_sha256/_sha384/_sha512, C16_compute_by_name: the same for the executable md5/sha1/sha2 instances (test vectors checked by the kernel: C16_test_vectors; compared with hashlib on every run); C16_add_computes_md / C16_add_computes_by_name: add without a value records that digest (by name: the digest of the algorithm the type names); C16_md_padding: for every pending buffer and length the Merkle-Damgard padding is the smallest whole number of blocks holding pending + 0x80 + length and is compressed completely; C16_oneshot_md: the one-shot digest = all complete blocks compressed in order, length mod blockSize bytes and the total length given to the finaliser. C16_add/_absolute/_refusal/_invariant: the key is normpath(path), never absolute; absolute paths and failures leave the table alone. C16_pointwise: if a [checksums] section loads, every path maps to `typed` of ITS OWN raw value (type:value, or a bare digest of 32/40/64 hex digits typed md5/sha1/sha256, anything else rejected). C16_bare_typed_iff: a bare value is accepted IFF it consists of 32, 40 or 64 characters of string.hexdigits (then md5/sha1/sha256, value verbatim); C16_bare_nonhex_refused: a bare value containing any non-hex character is refused whatever its length, and no section (current or header-less) holding it loads (F36 fixed; guard and digit table regenerated from the source: C16_legacy_table). C16_add_computes: add without a value records the one-shot digest of the full content of root/normpath(path). C16_roundtrip: write then read is the identity on tables free of ':'; C16_roundtrip_refuses: a table with ':' in a type or value is refused on read, never read as something else. C16_pointwise_legacy: the same pointwise reading for header-less files with relative keys. C16_image_monotone: over any add_checksum history a recorded value never changes.",
    note="hashlib: md5/sha1/sha224/sha256/sha384/sha512 are modelled and compared with hashlib.new(name) (one-shot, fed in chunks, and through compute_checksum on real files); for other algorithm names the generic block-buffered theorem applies with the compression function abstract (that OpenSSL's sha3/blake2/... have this shape is exercised on real files, not proved). The INI reader is not modelled here (the section is an association list fed from the real parser). Legacy header-less path rewriting (_fix_path) is modelled and compared but not part of the pointwise theorem.",
    ref="7/C16")
