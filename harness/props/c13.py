"""C13 - RPM name-epoch:version-release.arch strings are parsed back to their parts.

The Lean model consists of pure functions: a result depends on the argument only and every call yields a fresh value.
That the real `parse_nvra` / `Rpms._check_nevra` behave like that (no result object shared between calls, nothing a
caller does to a returned dict leaks into a later call) is not a theorem but is OBSERVED on the real code by the
`purity` probe below: call, snapshot, overwrite every key of the returned dict and clear it, call again with the same
argument, require the un-mutated first answer again (kind 'result-aliased') and distinct objects (kind 'result-shared').
The replay case carries the call sequence."""
import hashlib, itertools, json, os
import checklib
from checklib import Prop, ROOT, guarded

import string
NAME_CH = string.ascii_letters + string.digits + "._+"          # the documented name alphabet, complete ('-' joins segments)
VR_CH = string.ascii_letters + string.digits + "._+~^"          # the documented version/release alphabet, complete
DIRS = ["", "", "", "/", "./", "Packages/g/", "/mnt/compose/Server/x86_64/os/Packages/", "../rel-1.0/", "a-b/c.d/e:f/",
        "http://host/pub/f-23/", "dir with space/", "//", "x/", "-/", ".rpm/", "1:2-3.4/"]
# --- boundary pools (docs/GENERATOR_AUDIT.md A1-A9), each value used once per run with default other parts.
# All of them satisfy the hypotheses of C13_parse_partial (name: no '/', no line feed; version/release: no '-', '/', line feed;
# version without ':' unless an epoch is given), so "parts recovered" is required of the real code for every one of them.
NAME_POOL = [NAME_CH, "", " ", "a b", " lead", "trail ", "\t", "\u00a0x", "--", "a--b", "-a", "a-", "a.", ".a", "..", "1", "007", "1-2-3", "0-0",
             "a:b", "a:1", "1:2", "a@b,c;d=e#f%g[h]i\"j'k\\l", "None", "null", "0", "False", "1.0", "\u00fc-\u00f1", "n\u0663",
             "\uff11\uff12", "\U0001F600", "x" * 300, "seg-" * 80 + "end", "foo.rpm", "foo.rpm-x", "x86_64", "a-noarch", "a-1.0-1.src",
             "+", "~", "^", "_", "a+b_c.d", "Pkg-PKG-pkg"]
VERSION_POOL = [VR_CH, "", " ", "1 2", "\t", "\u00a01", "..", "1..2", "1.", ".1", "1:2", ":", "1::2", "a@b,c;d=e#f%g[h]i\"j'k\\l", "None", "null", "0",
                "False", "1.0", "\u0663", "\uff11\uff12", "\U0001F600", "v" * 300, "+", "~", "^", "_", "1+2~3^4_5", "20160101", "1.rpm", "rpm"]
RELEASE_POOL = [VR_CH, "", " ", "1 el7", "\t", "..", "1..el7", "1.", ".1", "a:b", "1:2", "a@b,c;d=e#f%g[h]i\"j'k\\l", "None", "0", "1.0",
                "\u0663", "\U0001F600", "r" * 300, "+", "~", "^", "_", "1.module+el8.1.0+2~3^4", "1.rpm", "rpm", ".rpm", "1.r", "1.rp"]
DIR_POOL = ["/abs/path/", "/", "//", "///", "a//b/", "./", "../", "../../x/", "a/../b/", "a/a/a/", "Packages/Packages/",
            "http://host:8080/pub/f-23/x86_64/os/Packages/g/", "ftp://u:p@h/x/", "file:///mnt/", "dir-1:2/", "a-b-c/", "1:2-3.4/", "x.rpm/",
            ".rpm/", "glibc-2.17-78.el7.x86_64/", "glibc-0:2.17-78.el7.x86_64.rpm/", " /", "a b/", "\t/", "\u00a0/", "\u00fc/", "\U0001F600/",
            "d" * 300 + "/", "None/", "-/", ":/", "././/"]
EPOCH_POOL = ["0", "1", "9", "10", "99", "2147483648", "4294967303", "9007199254740993", "9223372036854775807", "10000000", "100000000"]
BASE = {"dir": "", "name": "pkg-lib-2", "epoch": None, "version": "1.0", "release": "1.el7", "arch": "x86_64", "rpm": False}
ENUM_ALPHABET = "a1-.:/"
INT_LIMIT = 4300


def generated():
    return json.load(open(os.path.join(ROOT, "lean", "generated.json")))


def fmt(a):
    """name-[epoch:]version-release.arch, with directory and .rpm as asked"""
    s = a.get("dir", "") + a["name"] + "-"
    if a.get("epoch") is not None:
        s += a["epoch"] + ":"
    s += a["version"] + "-" + a["release"] + "." + a["arch"]
    if a.get("rpm"):
        s += ".rpm"
    return s


def expected(a):
    e = a.get("epoch")
    # beyond CPython's int<->str limit the number cannot even be built from its decimal form here: keep the digits
    ev = 0 if e is None else int(e) if len(e) <= INT_LIMIT else {"decimal": e}
    return {"name": a["name"], "epoch": ev,
            "version": a["version"], "release": a["release"], "arch": a["arch"]}


def ascii_digits(s):
    return s != "" and all("0" <= c <= "9" for c in s)


PURITY_SEQUENCE = ["r1 = f(s)", "first = deepcopy(r1)", "overwrite every key of every dict in r1 with 'MUTATED', then clear it",
                   "r2 = f(s)", "second = deepcopy(r2)", "r3 = f(s)", "shared = (r2 is r3) or a dict inside r2 is the same object inside r3"]


def mutable_parts(x):
    """every dict / list reachable in a returned value (tuples are walked, not mutated)"""
    out = []
    if isinstance(x, dict):
        out.append(x)
        for v in list(x.values()):
            out.extend(mutable_parts(v))
    elif isinstance(x, (list, tuple)):
        if isinstance(x, list):
            out.append(x)
        for v in x:
            out.extend(mutable_parts(v))
    return out


def mutate_all(x):
    for part in mutable_parts(x):
        if isinstance(part, dict):
            for k in list(part):
                part[k] = "MUTATED"
            part.clear()
        else:
            part[:] = ["MUTATED"]
            del part[:]


def purity_probe(f, s):
    """the call sequence PURITY_SEQUENCE on the real function f"""
    import copy
    out = {"first": None, "second": None, "shared": False}
    try:
        r1 = f(s)
        out["first"] = {"ok": checklib.canon(copy.deepcopy(r1))}
    except Exception as e:  # noqa
        out["first"] = checklib.err_class(e)
        r1 = None
    if r1 is not None:
        mutate_all(r1)
    try:
        r2 = f(s)
        out["second"] = {"ok": checklib.canon(copy.deepcopy(r2))}
        r3 = f(s)
        ids2 = set(id(p_) for p_ in mutable_parts(r2))
        out["shared"] = bool(ids2 & set(id(p_) for p_ in mutable_parts(r3))) or (r2 is r3 and bool(mutable_parts(r2)))
    except Exception as e:  # noqa
        out["second"] = checklib.err_class(e)
    return out


def spec_split(s):
    """Reference decomposition written from the property text (no regex): the parts of
    [dir/]name-[epoch:]version-release.arch[.rpm], or None when s does not have that documented shape."""
    if "\n" in s:
        return None
    if s.endswith(".rpm"):
        s = s[:-4]
    base = s[s.rfind("/") + 1:]
    if base.count("-") < 2:
        return None
    nev, rel_arch = base.rsplit("-", 1)
    name, ev = nev.rsplit("-", 1)
    if "." not in rel_arch:
        return None
    release, arch = rel_arch.rsplit(".", 1)
    epoch, version = 0, ev
    if ":" in ev:
        e, v = ev.split(":", 1)
        if not ascii_digits(e) or len(e) > INT_LIMIT:
            return None                  # ':' inside a version without epoch: outside the documented alphabet
        epoch, version = int(e), v
    return {"name": name, "epoch": epoch, "version": version, "release": release, "arch": arch}


def canon_str(d):
    return "%(name)s-%(epoch)s:%(version)s-%(release)s.%(arch)s" % d


class C13(Prop):
    id = "C13"
    lean_module = "ProductMD.Properties.C13"
    quick_budget = 2200
    thorough_budget = 60000
    exhaustive = True
    rule = ("domain stream: names of 1-4 dash-separated segments over [A-Za-z0-9._+] (all-digit segments included), epoch absent / 0 / "
            "1-9 / >=10 / up to 40 digits / beyond the interpreter's 4300-digit limit, versions and releases over [A-Za-z0-9._+~^], every "
            "architecture of RPM_ARCHES round-robin, 16 directory prefixes, with and without .rpm; raw stream: one mutation of a domain "
            "string (delimiter removed/doubled, newline, Unicode digits, ':' without epoch, arch 'rpm', '.rpm' variants); exhaustive: "
            "EVERY string over {a,1,-,.,:,/} up to length 6 (quick) / 8 (thorough). Each case: real parse_nvra vs the Lean model "
            "(correspondence), parts recovered, canonical re-format + parse is a fixed point (Rpms._check_nevra); for raw/exhaustive "
            "strings the oracle is a regex-free reference decomposition (rsplit) wherever the string has the documented shape, and the "
            "canonical fixed point for EVERY string that parses (arch 'rpm' excepted). "
            "purity probe on a share of both streams (parse_nvra and Rpms._check_nevra): call, mutate every key of the "
            "returned dict and clear it, call again, require the first answer and fresh objects; "
            "non-trivial = distinct case whose real parse succeeded")
    assumptions = ["CPython `re` is modelled by the list-of-successes engine (validated differentially on every case)",
                   "`int()` on a `\\d+` capture = positional decimal value with the generated digit table; ValueError beyond 4300 digits"]
    partial = {
        "C13_parse_partial": "holds for every epoch whose decimal form has at most 4300 digits (CPython's int/str conversion limit, "
                             "sys.get_int_max_str_digits); beyond it parse_nvra raises ValueError (C13_parse_epoch_limit; known finding F19)",
        "C13_parse_table_partial": "the same statement with the property's alphabets and the regenerated RPM_ARCHES; same epoch limit",
        "C13_fixpoint_partial": "same epoch limit (the canonical form prints the epoch in decimal)",
        "C13_check_nevra_partial": "same epoch limit; Rpms._check_nevra only (the rest of Rpms.add belongs to C12)",
    }

    def __init__(self):
        self._arches = None
        self._enum = {}
        self._tier = "quick"

    def arches(self):
        if self._arches is None:
            self._arches = list(generated()["tables"]["RPM_ARCHES"])
        return self._arches

    # ------------------------------------------------------------------ generators
    def seg(self, rng, alphabet, lo=1, hi=6):
        return "".join(rng.choice(alphabet) for _ in range(rng.randint(lo, hi)))

    def gen_name(self, rng):
        n = rng.choice([1, 2, 2, 2, 3, 3, 4])
        segs = []
        for _ in range(n):
            k = rng.random()
            if k < 0.3:
                segs.append(self.seg(rng, "0123456789", 1, 4))          # all-digit segment
            elif k < 0.4:
                segs.append(rng.choice(["1.0", "2.17", "0", "1", "el7", "x86_64", "noarch", "i686", "1:2", "src"][:8]))
            else:
                segs.append(self.seg(rng, NAME_CH))
        return "-".join(segs)

    def gen_epoch(self, rng, i, tier):
        k = (i // 4) % 8
        if k in (0, 1):
            return None
        if k == 2:
            return "0"
        if k == 3:
            return str(rng.randint(1, 9))
        if k in (4, 5):
            return str(rng.randint(10, 99999))
        if k == 6:
            return str(rng.randint(10 ** 9, 10 ** 40))
        return str(rng.randint(10, 10 ** 6))

    def gen_domain(self, rng, i, tier):
        arches = self.arches()
        a = {"dir": DIRS[(i // 3) % len(DIRS)], "name": self.gen_name(rng), "epoch": self.gen_epoch(rng, i, tier),
             "version": self.seg(rng, VR_CH, 1, 8) if rng.random() < 0.7 else rng.choice(["1.0", "2.17", "20160101", "0", "1~rc1", "2^git", "1.2.3"]),
             "release": self.seg(rng, VR_CH, 1, 8) if rng.random() < 0.6 else rng.choice(["78.el7", "1", "0.1.fc23", "3.el7_2.1", "1.module+el8"]),
             "arch": arches[i % len(arches)], "rpm": bool(i % 2)}
        if rng.random() < 0.1 and a["dir"]:
            a["dir"] = self.seg(rng, NAME_CH + "-:/ ", 1, 12) + "/"
        return {"op": "parse", "args": a}

    def gen_raw(self, rng, i, tier):
        a = self.gen_domain(rng, i, tier)["args"]
        s = fmt(a)
        k = rng.randrange(16)
        if k == 0:
            s = s + "\n"
        elif k == 1:
            j = rng.randrange(len(s) + 1); s = s[:j] + "\n" + s[j:]
        elif k == 2 and a["epoch"] is not None:
            uni = "".join(chr(rng.choice([0x660, 0x6F0, 0x966, 0xFF10, 0x1D7CE, 0x1D7D8]) + int(c)) for c in a["epoch"])
            s = fmt(dict(a, epoch=uni))
        elif k == 3:
            s = fmt(dict(a, epoch=None, version=str(rng.randint(0, 99)) + ":" + a["version"]))
        elif k == 4:
            s = fmt(dict(a, epoch=None, version="a:" + a["version"]))
        elif k == 5:
            s = fmt(dict(a, arch="rpm", rpm=bool(rng.randrange(2))))
        elif k == 6:
            s = s + rng.choice([".rpm", ".RPM", ".rpm.rpm", "rpm", ".rp"])
        elif k == 7:
            idx = [j for j, c in enumerate(s) if c in "-.:/"]
            if idx:
                j = rng.choice(idx); s = s[:j] + s[j + 1:]
        elif k == 8:
            idx = [j for j, c in enumerate(s) if c in "-.:/"]
            if idx:
                j = rng.choice(idx); s = s[:j] + s[j] + s[j:]
        elif k == 9:
            s = fmt(dict(a, epoch="0" * rng.randint(1, 3) + (a["epoch"] or "7")))
        elif k == 10:
            s = fmt(dict(a, **{rng.choice(["name", "version", "release", "arch"]): ""}))
        elif k == 11:
            s = fmt(dict(a, epoch=""))
        elif k == 12:
            s = "".join(rng.choice("a1-.:/ \n") for _ in range(rng.randint(0, 14)))
        elif k == 13:
            s = fmt(dict(a, release=a["release"] + "-" + self.seg(rng, VR_CH)))
        elif k == 14:
            s = fmt(dict(a, arch=a["arch"] + rng.choice([".x", "-x", "/x", "\n"])))
        return {"op": "parse_raw", "args": {"s": s}}

    def enum_cases(self, maxlen):
        for n in range(0, maxlen + 1):
            if n <= 5:
                yield {"op": "enum", "args": {"alphabet": ENUM_ALPHABET, "n": n, "prefix": ""}}
            else:
                for pre in itertools.product(ENUM_ALPHABET, repeat=n - 5):
                    yield {"op": "enum", "args": {"alphabet": ENUM_ALPHABET, "n": 5, "prefix": "".join(pre)}}

    def pool_cases(self):
        """every boundary value once, all other parts at their defaults; every architecture with and without .rpm"""
        def mk(j, **kw):
            return {"op": "parse", "args": dict(BASE, rpm=bool(j % 2), **kw)}
        for j, arch in enumerate(self.arches()):
            yield {"op": "parse", "args": dict(BASE, arch=arch, rpm=False)}
            yield {"op": "parse", "args": dict(BASE, arch=arch, rpm=True, dir="Packages/p/", epoch="1")}
        for j, v in enumerate(NAME_POOL):
            yield mk(j, name=v)
        for j, v in enumerate(VERSION_POOL):
            yield mk(j, version=v, epoch="3" if ":" in v else (None if j % 3 else "0"))
        for j, v in enumerate(RELEASE_POOL):
            yield mk(j, release=v)
        for j, v in enumerate(DIR_POOL):
            yield mk(j, dir=v)
        for j, v in enumerate(EPOCH_POOL):
            yield mk(j, epoch=v)
        # decoupled / look-alike combinations: a directory that is itself an NVRA, a name that ends like one, everything empty
        yield {"op": "parse", "args": dict(BASE, dir="a-1-1.x86_64/", name="b")}
        yield {"op": "parse", "args": dict(BASE, name="", version="", release="", arch="src")}
        yield {"op": "parse", "args": dict(BASE, name="noarch", version="noarch", release="noarch", arch="noarch")}
        yield {"op": "parse", "args": dict(BASE, name="a", epoch="1", version="1", release="1", arch="src", rpm=True, dir="1:1-1.src.rpm/")}

    def cases(self, rng, tier, budget):
        self._tier = tier
        for c in self.pool_cases():
            yield c
        # boundary cases first
        arch = self.arches()[0]
        for ep in (None, "0", "9", "10", "4294967296", "9" * INT_LIMIT, "1" + "0" * INT_LIMIT):
            for d in ("", "a/b-1/"):
                yield {"op": "parse", "args": {"dir": d, "name": "glibc-common-2", "epoch": ep, "version": "2.17", "release": "78.el7",
                                                "arch": arch, "rpm": True}}
        for n in (1, 2, 19, 20, 4299, INT_LIMIT, INT_LIMIT + 1, 5000):
            yield {"op": "int", "args": {"s": "".join(rng.choice("0123456789") for _ in range(n))}}
            yield {"op": "int", "args": {"s": "".join(chr(rng.choice([0x30, 0x660, 0x6F0, 0x966, 0xFF10, 0x1D7CE, 0x1D7D8, 0x1D7F6]) + rng.randrange(10)) for _ in range(n))}}
        for fn in ("parse_nvra", "Rpms._check_nevra"):
            yield {"op": "purity", "args": {"fn": fn, "s": "glibc-common-0:2.17-78.el7.x86_64.rpm", "sequence": PURITY_SEQUENCE}}
        # the third regex-driven parser that hands out match.groupdict(): Modules.parse_uid (staticmethod, driven directly;
        # it has no model op here, so only the probe's own oracle applies)
        for uid in ("mod:stream", "mod:stream:20180101", "mod:stream:20180101:deadbeef", "dir/sub/mod:s:1:c", "no-colon", "a:b:c:d:e",
                    "perl-App:1.0:8010020190322:6b9b1e2d", ":x", "m:\u0661"):
            yield {"op": "purity", "args": {"fn": "Modules.parse_uid", "s": uid, "sequence": PURITY_SEQUENCE}}
        for j in range(40 if tier == "quick" else 400):
            parts = ["".join(rng.choice("abcXYZ019._-+") for _ in range(rng.randint(1, 8))) for _ in range(rng.randint(1, 5))]
            yield {"op": "purity", "args": {"fn": "Modules.parse_uid", "s": rng.choice(["", "", "d/", "a:b/"]) + ":".join(parts),
                                              "sequence": PURITY_SEQUENCE}}
        for s in ("", "-", "--.", "a-1-1", "a-1-1.rpm", "foo:bar", "a-1:-.", "a-:1-1.x", "a--1:1-1.x", "a-1-1.x\n", "a-1-1.x.rpm\n",
                  "a/-1-1.x", "/", "a-1-1.rpm.rpm", ".rpm", "a-1-1.x\n.rpm"):
            yield {"op": "parse_raw", "args": {"s": s}}
        n = budget if tier != "search" else budget
        for i in range(n):
            c = self.gen_raw(rng, i, tier) if i % 4 == 3 else self.gen_domain(rng, i, tier)
            yield c
            if i % 8 in (1, 7):       # purity / freshness of results, on the same string (a share of both streams)
                sarg = fmt(c["args"]) if c["op"] == "parse" else c["args"]["s"]
                if len(sarg) <= 1500:
                    yield {"op": "purity", "args": {"fn": "parse_nvra" if i % 16 < 8 else "Rpms._check_nevra", "s": sarg,
                                                      "sequence": PURITY_SEQUENCE}}
        if tier != "search":
            for c in self.enum_cases(8 if tier == "thorough" else 6):
                yield c

    # ------------------------------------------------------------------ real side
    def real(self, case):
        checklib.use_repo()
        import productmd.common, productmd.rpms
        a = case["args"]
        if case["op"] == "enum":
            items = []
            fixfail = []
            count = 0
            for w in itertools.product(a["alphabet"], repeat=a["n"]):
                s = a["prefix"] + "".join(w)
                count += 1
                r = guarded(productmd.common.parse_nvra, s)
                if r != {"err": "ValueError"}:
                    items.append([s, r])
                    # C13_fixpoint_exact: EVERY parse result re-formats to a string that parses to the same parts (arch 'rpm' excepted)
                    if "ok" in r and r["ok"].get("arch") != "rpm" and len(fixfail) < 3:
                        again = guarded(productmd.common.parse_nvra, canon_str(r["ok"]))
                        if again != r:
                            fixfail.append({"input": s, "parts": r, "canonical": canon_str(r["ok"]), "reparse": again})
            key = checklib.key_of(case)
            self._enum[("real", key)] = items
            self._enum[("fixfail", key)] = fixfail
            return {"strings": count, "parsed": len(items), "digest": hashlib.sha1(json.dumps(items, sort_keys=True).encode()).hexdigest()}
        if case["op"] == "int":
            return guarded(int, a["s"])
        if case["op"] == "purity":
            if a["fn"] == "Modules.parse_uid":
                import productmd.modules
                f = productmd.modules.Modules.parse_uid
            elif a["fn"] == "parse_nvra":
                f = productmd.common.parse_nvra
            else:
                f = lambda x: list(productmd.rpms.Rpms()._check_nevra(x))   # noqa
            return purity_probe(f, a["s"])
        s = fmt(a) if case["op"] == "parse" else a["s"]
        out = {"parse": guarded(productmd.common.parse_nvra, s), "canon": None, "reparse": None,
               "check": guarded(lambda: list(productmd.rpms.Rpms()._check_nevra(s)))}     # the key Rpms.add files the package under
        if "ok" in out["parse"]:
            d = out["parse"]["ok"]
            try:
                canon = canon_str(d)
                out["canon"] = canon
                # the library's own canonical re-formatting: Rpms._check_nevra returns (canonical string, parts)
                def again():
                    nevra, d2 = productmd.rpms.Rpms()._check_nevra(canon)
                    out["refmt"] = nevra
                    return d2
                out["reparse"] = guarded(again)
            except Exception as e:  # noqa
                out["reparse"] = checklib.err_class(e)
        return out

    # ------------------------------------------------------------------ model side
    def model_requests(self, case):
        a = case["args"]
        if case["op"] == "enum":
            return [{"op": "parse_nvra_enum", "args": a}]
        if case["op"] == "int":
            return [{"op": "py_int_digits", "args": a}]
        if case["op"] == "purity" and a["fn"] == "Modules.parse_uid":
            return []
        if case["op"] == "purity":      # the model is a pure function: its single answer must be the FIRST real answer
            return [{"op": "parse_nvra" if a["fn"] == "parse_nvra" else "check_nevra", "args": {"s": a["s"]}}]
        s = fmt(a) if case["op"] == "parse" else a["s"]
        if len(s) > 1500 and self._tier != "thorough":
            return []          # the list-of-successes model is quadratic in Lean on very long inputs: thorough tier only
        if len(s) > 200 and self._tier != "thorough":
            return [{"op": "parse_nvra", "args": {"s": s}}]     # long inputs: one model parse only in the quick tier (the model is cubic)
        return [{"op": "nvra_roundtrip", "args": {"s": s}}, {"op": "check_nevra", "args": {"s": s}}]

    def model_result(self, case, outs):
        o = outs[0]
        if case["op"] == "enum":
            self._enum[("model", checklib.key_of(case))] = o
            n = len(case["args"]["alphabet"]) ** case["args"]["n"]
            return {"strings": n, "parsed": len(o), "digest": hashlib.sha1(json.dumps(o, sort_keys=True).encode()).hexdigest()}
        if case["op"] in ("int", "purity"):
            return o
        if len(outs) == 1:
            return {"parse": o}
        return dict(o, check=outs[1])

    def compare(self, case, real_out, model_out):
        if case["op"] == "enum":
            if real_out == model_out:
                return None
            key = checklib.key_of(case)
            r = dict((s, v) for s, v in self._enum.get(("real", key), []))
            m = dict((s, v) for s, v in self._enum.get(("model", key), []))
            diff = sorted(s for s in set(r) | set(m) if r.get(s) != m.get(s))[:3]
            return {"real": dict((s, r.get(s, {"err": "ValueError"})) for s in diff),
                    "model": dict((s, m.get(s, {"err": "ValueError"})) for s in diff)}
        if case["op"] == "int":
            return Prop.compare(self, case, real_out, model_out)
        if case["op"] == "purity":
            return Prop.compare(self, case, real_out["first"], model_out)
        r = dict((k, real_out.get(k)) for k in ("parse", "canon", "reparse", "check") if k in model_out)
        return Prop.compare(self, case, r, model_out)

    # ------------------------------------------------------------------ the property itself, on the real output
    def check_string(self, s, parse, want):
        if parse != {"ok": want}:
            return {"observed": {"input": s, "parse_nvra": parse}, "required": {"parts": want}, "kind": "parts-not-recovered"}
        return None

    def oracle(self, case, real_out):
        a = case["args"]
        if case["op"] == "enum":
            items = dict((s, v) for s, v in self._enum.get(("real", checklib.key_of(case)), []))
            for ff in self._enum.get(("fixfail", checklib.key_of(case)), []):
                return {"observed": ff, "required": "the canonical re-formatting of any parse result parses to the same parts",
                        "kind": "canonical-form-not-fixed-point", "single": {"op": "parse_raw", "args": {"s": ff["input"]}}}
            for w in itertools.product(a["alphabet"], repeat=a["n"]):
                s = a["prefix"] + "".join(w)
                want = spec_split(s)
                if want is not None:
                    f = self.check_string(s, items.get(s, {"err": "ValueError"}), want)
                    if f:
                        f["single"] = {"op": "parse_raw", "args": {"s": s}}
                        return f
            return None
        if case["op"] == "int":
            return None
        if case["op"] == "purity":
            if real_out["second"] != real_out["first"]:
                return {"observed": {"function": a["fn"], "argument": a["s"], "first call": real_out["first"],
                                     "same call after the caller edited the first result": real_out["second"]},
                        "required": "a call returns the same parts whatever an earlier caller did to an earlier result",
                        "kind": "result-aliased"}
            if real_out["shared"]:
                return {"observed": {"function": a["fn"], "argument": a["s"], "two calls returned the same dict object": True},
                        "required": "every call returns a fresh dict", "kind": "result-shared"}
            return None
        if case["op"] == "parse":
            s, want = fmt(a), expected(a)
        else:
            s, want = a["s"], spec_split(a["s"])
        if want is None:
            # outside the documented shape only the general fixed point is claimed (C13_fixpoint_exact)
            pr = real_out["parse"]
            if "ok" in pr and pr["ok"].get("arch") != "rpm" and (real_out["reparse"] != pr or real_out.get("refmt") != real_out["canon"]):
                return {"observed": {"input": s, "parts": pr, "canonical": real_out["canon"], "reparse": real_out["reparse"],
                                     "re-formatted": real_out.get("refmt")},
                        "required": "the canonical re-formatting of any parse result parses to the same parts",
                        "kind": "canonical-form-not-fixed-point"}
            return None
        f = self.check_string(s, real_out["parse"], want)
        if f:
            return f
        if ":" in s and real_out["check"] != {"ok": [canon_str(want), want]} and len(str(want["epoch"])) <= INT_LIMIT:
            return {"observed": {"input": s, "_check_nevra": real_out["check"]}, "required": {"key": canon_str(want), "parts": want},
                    "kind": "canonical-key"}
        if want["arch"] == "rpm":
            return None      # "x.rpm" re-parsed loses its last component: 'rpm' is not an architecture, outside the claim
        if real_out["reparse"] != {"ok": want} or real_out.get("refmt") != real_out["canon"]:
            return {"observed": {"input": s, "canonical": real_out["canon"], "reparse": real_out["reparse"], "re-formatted": real_out.get("refmt")},
                    "required": {"fixed point": want}, "kind": "canonical-form-not-fixed-point"}
        return None

    def nontrivial(self, case, real_out):
        if case["op"] == "enum":
            return real_out["parsed"] > 0
        if case["op"] == "int":
            return "ok" in real_out
        if case["op"] == "purity":
            return "ok" in real_out["first"]
        return "ok" in real_out["parse"]

    def stats(self, case, real_out, dist):
        op = case["op"]
        dist[op] = dist.get(op, 0) + 1
        if op == "int":
            return
        if op == "purity":
            dist["purity:" + case["args"]["fn"]] = dist.get("purity:" + case["args"]["fn"], 0) + 1
            return
        if op == "enum":
            dist["enum_strings"] = dist.get("enum_strings", 0) + real_out["strings"]
            dist["enum_parsed"] = dist.get("enum_parsed", 0) + real_out["parsed"]
            dist["enum_maxlen"] = max(dist.get("enum_maxlen", 0), case["args"]["n"] + len(case["args"]["prefix"]))
            return
        k = "ok" if "ok" in real_out["parse"] else real_out["parse"]["err"]
        dist["result:" + k] = dist.get("result:" + k, 0) + 1
        if op == "parse":
            a = case["args"]
            e = a["epoch"]
            ek = "none" if e is None else "0" if e == "0" else "1-9" if len(e) == 1 else ">=10" if len(e) <= INT_LIMIT else ">limit"
            dist["epoch:" + ek] = dist.get("epoch:" + ek, 0) + 1
            dist["name_segments:%d" % (a["name"].count("-") + 1)] = dist.get("name_segments:%d" % (a["name"].count("-") + 1), 0) + 1
            if any(seg.isdigit() for seg in a["name"].split("-")):
                dist["name_has_digit_segment"] = dist.get("name_has_digit_segment", 0) + 1
            dist.setdefault("arches", {})[a["arch"]] = dist.setdefault("arches", {}).get(a["arch"], 0) + 1
            if a["dir"]:
                dist["with_dir"] = dist.get("with_dir", 0) + 1
            if a["rpm"]:
                dist["with_rpm"] = dist.get("with_rpm", 0) + 1

    def shrink_candidates(self, case):
        a = case["args"]
        out = []
        if case["op"] in ("enum", "int"):
            return out
        if case["op"] == "purity":
            for t in ("g-0:2-7.src", "g-2-7.src"):
                if a["s"] != t and len(t) < len(a["s"]):
                    out.append({"op": "purity", "args": dict(a, s=t)})
            return out
        if case["op"] == "parse":
            def mk(**kw):
                c = json.loads(json.dumps(case)); c["args"].update(kw); return c
            if a["dir"]:
                out.append(mk(dir=""))
            if a["rpm"]:
                out.append(mk(rpm=False))
            segs = a["name"].split("-")
            if len(segs) > 2:
                out.append(mk(name="-".join(segs[:2]))); out.append(mk(name="-".join(segs[1:])))
            if len(segs) > 1:
                out.append(mk(name=segs[0])); out.append(mk(name=segs[-1]))
            for f in ("name", "version", "release"):
                if len(a[f]) > 1 and "-" not in a[f]:
                    out.append(mk(**{f: a[f][:1]}))
            if len(segs) > 1 and any(len(x) > 1 for x in segs):
                out.append(mk(name="-".join(x[:1] for x in segs)))
            e = a["epoch"]
            if e is not None:
                if len(e) > INT_LIMIT + 1:
                    out.append(mk(epoch="1" + "0" * INT_LIMIT))
                elif len(e) > 2 and len(e) <= INT_LIMIT:
                    out.append(mk(epoch=e[:2]))
                if len(e) <= INT_LIMIT:
                    out.append(mk(epoch=None))
            if a["arch"] != "src":
                out.append(mk(arch="src"))
            return out
        s = a["s"]
        for i in range(len(s)):
            out.append({"op": "parse_raw", "args": {"s": s[:i] + s[i + 1:]}})
        return out


PROP = C13()

MANIFEST = dict(
    technique="Lean 4 proof about the first success of a greedy backtracking matcher on the regenerated RPM_NVRA_RE (greedy class-star "
              "followed by a continuation = longest class-prefix after which the continuation matches; optional group: present first); "
              "exhaustive + generated correspondence of the model with parse_nvra; regex-free reference oracle on the real code",
    text="Theorem C13_parse_partial: for every directory prefix without line feed, every name without '/' and line feed (dashes, digit "
         "segments, anything else allowed), epoch absent or any natural number with at most 4300 digits, version/release without '-', '/', "
         "line feed (version without ':' when no epoch is given) and every architecture of the regenerated RPM_ARCHES, parseNvra of "
         "dir+name-[epoch:]version-release.arch[.rpm] returns exactly those parts (epoch 0 when absent) - no length bound. C13_fixpoint: the "
         "canonical re-formatting parses to the same parts. The model runs the regenerated pattern through the engine model "
         "(parseNvra = strip .rpm, pyMatch Gen.re_common_RPM_NVRA_RE, groupdict, `or 0`, int()). C13_parser_exact: on EVERY string "
         "(no domain hypothesis) parseNvra equals the directly written parser Spec.parseNvraDirect (first line only; directory through "
         "the last '/' after which the rest still parses; name up to the last '-' after which [epoch:]version-release.arch can still be "
         "found; epoch = leading digit run + ':' when the rest still splits; version up to the last '-' with a '.' to its right; release "
         "up to the last '.'), which also describes what Rpms.add does with names outside the documented shape. C13_fixpoint_exact: for "
         "EVERY string that parses (arch literally 'rpm' excepted) the canonical re-formatting parses to the same parts.",
    note="Epochs of more than 4300 digits raise ValueError (CPython int/str limit): theorem C13_parse_epoch_limit, known finding F19. "
         "Unicode decimal digits in the epoch position are accepted by the code (\\d, int()); modelled and compared, not part of the claim.",
    ref="7/C13")
