"""C05 - older format versions are upgraded faithfully and idempotently."""
import copy, glob, json, os, re
import checklib
from checklib import Prop, REPO
from formats import composeinfo as CF
from formats import images as IF
from formats import treeinfo as TF
from formats import legacy as L

try:
    from formats import rpms as RF            # builder `builders` (C03/C12); optional until merged
except Exception:  # noqa
    RF = None

JSON_ERRS = {"TypeError", "ValueError", "KeyError", "AttributeError", "IndexError", "RuntimeError"}


def err_name(e):
    import configparser
    if isinstance(e, configparser.Error):
        return "ParserError"
    if isinstance(e, RecursionError):
        return "RuntimeError"
    n = type(e).__name__
    return n if n in JSON_ERRS else "Other"


def current_version():
    checklib.use_repo()
    import productmd.common
    return ".".join(str(i) for i in productmd.common.VERSION)


# ------------------------------------------------------------------------------------------------ fixtures
def fixture_list():
    """every historical file shipped under <repo>/tests: (format, path relative to tests/)"""
    base = os.path.join(REPO, "tests")
    out = []
    for p in sorted(glob.glob(os.path.join(base, "treeinfo", "*"))):
        out.append(("treeinfo", os.path.relpath(p, base)))
    for p in sorted(glob.glob(os.path.join(base, "images", "*.json"))):
        out.append(("images", os.path.relpath(p, base)))
    for p in sorted(glob.glob(os.path.join(base, "compose*", "**", "composeinfo*.json"), recursive=True)):
        out.append(("composeinfo", os.path.relpath(p, base)))
    for p in sorted(glob.glob(os.path.join(base, "compose*", "**", "rpm*.json"), recursive=True)):
        out.append(("rpms", os.path.relpath(p, base)))
    return out


def fixture_text(name):
    with open(os.path.join(REPO, "tests", name)) as f:
        return f.read()


# ------------------------------------------------------------------------------------------------ real-side cycles
class Fmt(object):
    """load(text) -> object, snap(obj) -> canonical snapshot, header(text) -> header of a written file"""
    name = None
    header_type = None

    def new(self):
        raise NotImplementedError

    def snap(self, obj):
        raise NotImplementedError

    def header(self, text):
        return json.loads(text)["header"]

    def cycle(self, text):
        out = {}
        try:
            x = self.new()
            x.loads(text)
        except Exception as e:  # noqa
            return {"load": {"err": err_name(e)}}
        out["load"] = {"ok": self.snap(x)}
        out["version_after_load"] = x.header.version
        try:
            t1 = x.dumps()
        except Exception as e:  # noqa
            out["dump"] = {"err": err_name(e)}
            return out
        out["dump"] = {"ok": t1}
        try:
            out["dump_again"] = {"ok": x.dumps()}             # the same object written twice (the first write may mutate it)
        except Exception as e:  # noqa
            out["dump_again"] = {"err": err_name(e)}
        try:
            out["header"] = self.header(t1)
        except Exception as e:  # noqa
            out["header"] = {"err": err_name(e)}
        try:
            y = self.new()
            y.loads(t1)
        except Exception as e:  # noqa
            out["reload"] = {"err": err_name(e)}
            return out
        out["reload"] = {"ok": self.snap(y)}
        try:
            out["dump2"] = {"ok": y.dumps()}
        except Exception as e:  # noqa
            out["dump2"] = {"err": err_name(e)}
        return out


class CIFmt(Fmt):
    name, header_type = "composeinfo", "productmd.composeinfo"

    def new(self):
        from productmd.composeinfo import ComposeInfo
        return ComposeInfo()

    def snap(self, obj):
        return CF.canon(CF.snap(obj))


class ImgFmt(Fmt):
    name, header_type = "images", "productmd.images"

    def new(self):
        from productmd.images import Images
        return Images()

    def snap(self, obj):
        return IF.enc(IF.snap(obj))


class RpmsFmt(Fmt):
    name, header_type = "rpms", "productmd.rpms"

    def new(self):
        from productmd.rpms import Rpms
        return Rpms()

    def snap(self, obj):
        c = obj.compose
        return {"version": obj.header.version,
                "compose": {"id": c.id, "type": c.type, "date": c.date, "respin": c.respin, "label": c.label, "final": c.final},
                "rpms": copy.deepcopy(obj.rpms)}


class TIFmt(Fmt):
    name, header_type = "treeinfo", "productmd.treeinfo"

    def new(self):
        from productmd.treeinfo import TreeInfo
        return TreeInfo()

    def snap(self, obj):
        return TF.snap(obj)

    def header(self, text):
        return TF.read_ini(text)["header"]


FMTS = {"composeinfo": CIFmt(), "images": ImgFmt(), "rpms": RpmsFmt(), "treeinfo": TIFmt()}

TS_LINE = re.compile(r"^\s*(?:timestamp|build_timestamp)\s*[=:](.*)$", re.M)


def floats_of_text(*texts):
    """the float oracle for every timestamp a reader may meet in these texts (and in what is written from them)"""
    out = {}
    for text in texts:
        for m in TS_LINE.finditer(text or ""):
            s = m.group(1).strip()
            e = TF.float_entry(s)
            out[s] = e
            if "int" in e:
                s2 = str(e["int"])
                out[s2] = TF.float_entry(s2)
    return out


# ------------------------------------------------------------------------------------------------ pre-productmd generator
FAMILIES = ["Fedora", "Fedora-Server", "Fedora 20", "Red Hat Enterprise Linux", "Red Hat Enterprise Linux Server",
            "Red Hat Enterprise Linux Client", "CentOS", "CentOS Linux", "EulerOS V2.0SP5", "Subscription Asset Manager",
            "Red Hat Storage", "JBEAP", "Red Hat Storage Software Appliance", "Spacewalk", "openSUSE Leap", "fedora"]
VERSIONS00 = ["7", "21", "5.11", "5.0", "5", "6.5", "3.9", "4.8", "7.0", "Rawhide", "21_Alpha", "6.5-Beta", "20-1.2", "7.1_x", "a-b"]
ARCHES00 = ["i386", "x86_64", "ppc", "s390x", "ia64", "src", "armhfp", "ppc64"]
TOPS00 = ["Server", "Client", "Fedora", "Workstation", "Everything", "optional", "Server-optional", "AS"]
ADDONS00 = ["VT", "Cluster", "ClusterStorage", "HighAvailability", "ResilientStorage", "optional", "LB"]


def gen00(rng):
    """a pre-productmd .treeinfo (no [header]): [general] plus whatever sections such files carried"""
    g = {}
    fam = rng.choice(FAMILIES)
    g["family"] = fam
    g["version"] = rng.choice(VERSIONS00)
    arch = rng.choice(ARCHES00)
    g["arch"] = arch
    r = rng.random()
    if r < 0.06:
        g["timestamp"] = rng.choice(["-5.75", "0.5", "1e9", " 12 "])       # negative / fraction >= .5 / exponent (int(float()) truncates)
    elif r < 0.5:
        g["timestamp"] = "%d.%02d" % (rng.randint(10 ** 9, 2 * 10 ** 9), rng.randint(0, 99))
    elif r < 0.8:
        g["timestamp"] = str(rng.randint(1, 2 * 10 ** 9))
    if rng.random() < 0.5:
        g["name"] = "%s %s" % (fam, g["version"]) if rng.random() < 0.9 else "N" * 300
    top = rng.choice(TOPS00)
    r = rng.random()
    if r < 0.6:
        g["variant"] = top
    elif r < 0.75:
        g["variant"] = ""
    secs = {"general": g}
    if rng.random() < 0.05:
        secs["header"] = {"type": "productmd.treeinfo"}       # a header without `version`: still read as 0.0
    r = rng.random()
    if r < 0.6:
        g["packagedir"] = rng.choice(["", "Packages", "Server", "Server/", "Fedora", "/mnt/redhat/os/Packages", "/abs/Packages", "."])
    elif r < 0.7:
        g["packagedirs"] = "Packages"
    if rng.random() < 0.4:
        g["repository"] = rng.choice([".", "repodata", "Server/repodata", "repo/", "/repodata", "/", "x//"])
    if rng.random() < 0.15:
        g["identity"] = "product.pem"
    r = rng.random()
    if r < 0.3:
        g["discnum"] = str(rng.randint(1, 3)); g["totaldiscs"] = str(rng.randint(1, 5))
    elif r < 0.4:
        g["discnum"] = str(rng.randint(1, 3))
    elif r < 0.5:
        g["totaldiscs"] = str(rng.randint(1, 3))
    addons = []
    if rng.random() < 0.35:
        addons = rng.sample(ADDONS00, rng.randint(1, 3))
    # variant / addon sections
    if rng.random() < 0.45:
        tops = [top] if rng.random() < 0.7 else rng.sample(TOPS00, rng.randint(1, 3))
        for t in tops:
            sec = {}
            if rng.random() < 0.4:
                sec["type"] = rng.choice(["variant", "optional", "variant", "addon", ""])
            if rng.random() < 0.5:
                sec["name"] = "Name of %s" % t
            if addons and rng.random() < 0.7:
                sec[rng.choice(["addons", "variants"])] = ",".join(rng.choice([a, "%s-%s" % (t, a)]) for a in addons)
            for f, vals in (("repository", [".", "%s/repodata" % t, t]), ("packages", ["%s/Packages" % t, "Packages/"]),
                            ("packagedir", [t]), ("identity", ["%s/%s.pem" % (t, t)])):
                if rng.random() < 0.3:
                    sec[f] = rng.choice(vals)
            secs["variant-" + t] = sec
        for a in addons:
            if rng.random() < 0.6:
                owner = rng.choice(tops)
                name = rng.choice(["addon-%s-%s" % (owner, a), "addon-%s" % a, "variant-%s-%s" % (owner, a)])
                sec = {}
                if rng.random() < 0.4:
                    sec["type"] = rng.choice(["addon", "variant", "optional"])
                if rng.random() < 0.5:
                    sec["name"] = a + " name"
                if rng.random() < 0.4:
                    sec["repository"] = "addons/%s" % a
                if rng.random() < 0.3:
                    sec["packages"] = "addons/%s/Packages" % a
                secs[name] = sec
    elif addons and rng.random() < 0.3:
        g["addons"] = ",".join(addons)            # no section of its own: unbounded nesting when the top level has none either
    # images
    plats = [arch] if rng.random() < 0.8 else []
    if rng.random() < 0.4:
        plats.append("xen")
    if rng.random() < 0.1:
        plats.append("xen-" + arch)
    for p in plats:
        imgs = {}
        for k in rng.sample(["kernel", "initrd", "boot.iso", "diskboot.img", "upgrade"], rng.randint(1, 4)):
            imgs[k] = rng.choice(["images/pxeboot/%s", "images/%s", "/mnt/os/images/%s", "/images/%s", "//x/%s"]) % k
        secs["images-" + p] = imgs
    if rng.random() < 0.15:
        secs[arch] = {"platforms": rng.choice(["%s,xen" % arch, "xen", "", "a,,b"])}
    if rng.random() < 0.4:
        st = {}
        if rng.random() < 0.8:
            st["mainimage"] = rng.choice(["images/install.img", "LiveOS/squashfs.img", "/mnt/os/images/stage2.img", "/images/stage2.img"])
        if rng.random() < 0.3:
            st["instimage"] = rng.choice(["images/instimage.img", "/x/os/images/inst.img"])
        secs["stage2"] = st
    if rng.random() < 0.3:
        cs = {}
        for p in rng.sample(["images/boot.iso", "repodata/repomd.xml", "/mnt/os/images/boot.iso", "/images/x.img"], rng.randint(1, 3)):
            w = rng.choice([32, 40, 64])
            h = ("%x" % rng.getrandbits(w * 4)).rjust(w, "0")
            cs[p] = h if rng.random() < 0.4 else "%s:%s" % (rng.choice(["sha256", "md5", "sha1"]), h)
        secs["checksums"] = cs
    return secs


# ------------------------------------------------------------------------------------------------ pre-productmd: literals and mapping table
def literals00():
    """every string literal the `deserialize_0_0` readers of the tree under test compare against (==, in, startswith), by class"""
    import ast
    src = open(os.path.join(REPO, "productmd", "treeinfo.py")).read()
    out = {}
    for cls in [n for n in ast.parse(src).body if isinstance(n, ast.ClassDef)]:
        for fn in [n for n in cls.body if isinstance(n, ast.FunctionDef) and n.name == "deserialize_0_0"]:
            lits = []
            for node in ast.walk(fn):
                if isinstance(node, ast.Compare):
                    for c in [node.left] + list(node.comparators):
                        for x in ast.walk(c):
                            if isinstance(x, ast.Constant) and isinstance(x.value, str):
                                lits.append(x.value)
                elif isinstance(node, ast.Call) and isinstance(node.func, ast.Attribute) and node.func.attr in ("startswith", "endswith"):
                    for x in node.args:
                        if isinstance(x, ast.Constant) and isinstance(x.value, str):
                            lits.append(x.value)
            out[cls.name] = list(dict.fromkeys(lits))
    return out


# The documented mapping of pre-productmd files (the table of the unchanged code IS the documentation; written out here so
# that a changed branch is an oracle failure on the real library, not only a disagreement with the model).
FAMILY_EXACT = {"Subscription Asset Manager": "SAM", "Red Hat Storage": "RHS", "JBEAP": "JBEAP",
                "Red Hat Storage Software Appliance": "SSA"}
FAMILY_PREFIX = [("Red Hat Enterprise Linux", "RHEL"), ("Fedora", "Fedora"), ("CentOS", "CentOS"), ("EulerOS", "EulerOS")]
FAMILY_VARIANT = {"Red Hat Enterprise Linux Server": "Server", "Red Hat Enterprise Linux Client": "Client", "CentOS": "CentOS"}
RHEL5_ADDONS = {"Client": lambda arch, minor: ["VT", "Workstation"],
                "Server": lambda arch, minor: (["Cluster", "ClusterStorage", "VT"] if arch in ("i386", "ia64", "x86_64") else
                                               ([] if minor == "0" else ["Cluster", "ClusterStorage"]) if arch == "ppc" else [])}


def release00(family):
    """family -> (release name, short name)"""
    if family in FAMILY_EXACT:
        return family, FAMILY_EXACT[family]
    for pre, short in FAMILY_PREFIX:
        if family.startswith(pre):
            return pre, short
    return family, ""


def expect00_table(g):
    """expected variant facts of a table case: [general] only, no variant/addon sections, no `addons` option.
    -> None (refused by design) or {"uid", "kids": [...], "packages", "repository"}"""
    name, short = release00(g["family"])
    major = g["version"].split(".")[0]
    parts = g["version"].split(".")
    minor = parts[1] if len(parts) > 1 else None
    uid = g.get("variant") or FAMILY_VARIANT.get(g["family"]) if "variant" not in g else (g["variant"] or short)
    if not uid:
        return None
    vid = uid.split("-")[-1]
    rhel = lambda majors: short == "RHEL" and major in majors
    repo = "."
    if rhel(("5", "6")):
        repo = vid
    if rhel(("3", "4")):
        repo = None
    pk = g["packagedir"] if "packagedir" in g else repo
    pk = (pk or "").rstrip("/") or "."
    if rhel(("5",)):
        pk = vid
    elif rhel(("3", "4")):
        pk = "RedHat/RPMS"
    elif short == "Fedora" and pk == ".":
        pk = "Packages"
    kids = []
    if rhel(("5",)) and uid in RHEL5_ADDONS:
        kids = RHEL5_ADDONS[uid](g["arch"], minor)
    paths = {}
    pre = "source_" if g["arch"] == "src" else ""
    if pk is not None:
        paths[pre + "packages"] = pk
    if repo is not None:
        paths[pre + "repository"] = repo
    return {"uid": uid, "kids": ["%s-%s" % (uid, k) for k in kids], "paths": paths}


def table00_cases():
    """one pre-productmd file per literal of the 0.0 readers: every family of the chain, with an extension and a proper prefix of
    each (first-match traps), RHEL majors 3-7, the arches of the RHEL 5 addon table, minor version 0"""
    lit = literals00()
    fams = list(lit.get("Release", [])) + list(lit.get("Variants", []))
    fams = [f for f in dict.fromkeys(fams) if f and f[0].isupper() and f not in ("Server", "Client")]
    pool = []
    for f in fams:
        pool += [f, f + " X", f + "7", f[:-1]]
    pool += ["Spacewalk", "openSUSE Leap", "fedora"]
    pool = list(dict.fromkeys(pool))
    digits = sorted(set(x for v in lit.values() for x in v if x.isdigit()))
    majors = sorted(set([d for d in digits if d != "0"] + ["7"]))
    arches = [a for a in dict.fromkeys(lit.get("Variant", [])) if a and a.islower() and a not in ("variant", "addon", "optional")]
    arches += ["src", "aarch64"]
    out = []
    i = 0
    for f in pool:
        g = {"family": f, "version": ["7.0", "21", "5.8", "6.5"][i % 4], "arch": arches[i % len(arches)]}
        if f not in FAMILY_VARIANT or i % 2:
            g["variant"] = ["Server", "Client", "Workstation", ""][i % 4]
        if i % 3 == 0:
            g["packagedir"] = ["", "Server", "Packages/"][(i // 3) % 3]
        out.append(g); i += 1
    for f in ("Red Hat Enterprise Linux Server", "Red Hat Enterprise Linux Client", "Red Hat Enterprise Linux"):
        for major in majors:
            for minor in ("0", "8", None):
                for arch in (arches if major == "5" else arches[i % len(arches):][:1]):
                    g = {"family": f, "version": major if minor is None else "%s.%s" % (major, minor), "arch": arch}
                    if f == "Red Hat Enterprise Linux":
                        g["variant"] = ["Server", "Client"][i % 2]
                    if i % 4 == 0:
                        g["packagedir"] = ["Server", ""][(i // 4) % 2]
                    out.append(g); i += 1
    return out


# ------------------------------------------------------------------------------------------------ rpms content
R_NAMES = ["bash", "glibc", "python3-foo", "gtk2", "a-b-c", "x", "lib-2"]
R_VERSIONS = ["4.3.30", "2.17", "1", "0.9_rc1", "20150101"]
R_RELEASES = ["2.fc21", "1.el7", "3", "0.1.rc9"]
R_SIGKEYS = [None, "95a43f54", "fd431d51", "f5282ee4"]


def gen_rpms(rng):
    """current-format rpms content that a 0.3 manifest can carry: a source RPM is filed (category `source`, same path and
    signing key) next to its binaries in every arch of the variant where it has binaries, or nowhere in the variant"""
    checklib.use_repo()
    import productmd.common
    arches = [a for a in productmd.common.RPM_ARCHES if a not in ("src", "nosrc")]
    rpms, upper, upper_srpms = {}, [], []
    for variant in rng.sample(["Server", "Client", "Server-optional", "Workstation", "x"], rng.randint(1, 3)):
        varches = rng.sample(arches, rng.randint(1, 3))
        if rng.random() < 0.5:
            varches[0] = rng.choice(["x86_64", "i386", "ppc64le", "aarch64", "s390x"])
        for _ in range(rng.randint(1, 3)):
            name, epoch = rng.choice(R_NAMES), rng.choice([0, 0, 1, 12])
            ver, rel = rng.choice(R_VERSIONS), rng.choice(R_RELEASES)
            srcarch = rng.choice(["src", "src", "nosrc"])
            reused = False
            if upper_srpms and rng.random() < 0.5:
                # the SAME source package as in an earlier variant (other path, other signing key there): each variant has its
                # own src table, nothing of another variant's may be filed here (seed C05-x5b)
                name, epoch, ver, rel, srcarch = rng.choice(upper_srpms)
                reused = True
            upper_srpms.append((name, epoch, ver, rel, srcarch))
            srpm = "%s-%d:%s-%s.%s" % (name, epoch, ver, rel, srcarch)
            if any(srpm in cell for cell in rpms.get(variant, {}).values()):
                continue                                # one source package, one entry in the variant's src table
            sdata = {"path": "%s/source/SRPMS/%s/%s-%s-%s.%s.rpm" % (variant, name[0], name, ver, rel, srcarch),
                     "sigkey": rng.choice(R_SIGKEYS), "category": "source"}
            with_src = rng.random() < (0.5 if reused else 0.75)
            for arch in rng.sample(varches, rng.randint(1, len(varches))):
                cell = rpms.setdefault(variant, {}).setdefault(arch, {}).setdefault(srpm, {})
                for sub in rng.sample(["", "-libs", "-devel", "-doc", "-debuginfo"], rng.randint(1, 3)):
                    parch = rng.choice([arch, arch, "noarch"])
                    key = "%s%s-%d:%s-%s.%s" % (name, sub, epoch, ver, rel, parch)
                    cell[key] = {"path": "%s/%s/os/Packages/%s/%s%s-%s-%s.%s.rpm" % (variant, arch, name[0], name, sub, ver, rel, parch),
                                 "sigkey": rng.choice(R_SIGKEYS), "category": "debug" if sub == "-debuginfo" else "binary"}
                if with_src:
                    cell[srpm] = dict(sdata)
    comp = IF.gen_compose(rng)
    c = dict((k, comp[k]) for k in ("id", "type", "date", "respin"))
    if comp.get("label"):
        c["label"], c["final"] = comp["label"], comp["final"]
    return {"header": {"type": "productmd.rpms", "version": "1.2"}, "payload": {"compose": c, "rpms": rpms}}


# ------------------------------------------------------------------------------------------------ ids with several 8-digit runs
ID_PREFIXES = ["rolling-20240101", "x-20240101.n.1", "r-123456789", "a-20200101-20200202", "a_20200101.20200202", "20240101",
               "p.19990101.t.7_q", "v1234567890123456"]
SUFFIX_OF = {"production": "", "nightly": ".n", "test": ".t", "ci": ".ci", "development": ".d"}


def tricky_id(comp, k):
    """a compose id whose release part already holds 8-digit runs (a date-like version, `<8 digits>.<letters>.<digits>` look-alikes,
    9+ digits, two dates separated by - . _): below 0.3 date/type/respin are what FOLLOWS THE LAST run of eight digits"""
    if comp.get("type") not in SUFFIX_OF or not isinstance(comp.get("respin"), int) or not (0 <= comp["respin"] < 10 ** 7):
        return
    date = comp["date"]
    if not (isinstance(date, str) and len(date) == 8 and date.isdigit()):
        return
    comp["id"] = "%s-%s%s.%d" % (ID_PREFIXES[k % len(ID_PREFIXES)], date, SUFFIX_OF[comp["type"]], comp["respin"])


# ------------------------------------------------------------------------------------------------ the property
class C05(Prop):
    id = "C05"
    lean_module = "ProductMD.Properties.C05"
    quick_budget = 700
    thorough_budget = 14000
    rule = ("every file shipped under tests/ (treeinfo, images, composeinfo[, rpms]) and generated current-format content "
            "down-converted per the format documentation to every older version incl. the boundary versions "
            "(composeinfo 0.0/0.2/0.3/0.4/0.9/1.0/1.1/1.10/1.2/2.0; images 0.0..2.0; rpms 0.0..1.2; treeinfo 0.1..2.0; generated "
            "pre-productmd treeinfos): real loads -> snapshot = documented expectation (faithful), dumps -> header is the current "
            "version with the proper type, loads again -> same snapshot, second dumps byte-identical (idempotent); correspondence: "
            "the same four steps through the legacy-aware Lean readers (snapshots, bytes, refusal classes); non-trivial = loaded "
            "and written")
    assumptions = ["json.load / configparser invert the printers on what the writers produce (exercised on every case)",
                   "documents reach both sides with object keys in sorted order (json.dumps(sort_keys=True)); key order is observable "
                   "only through which of several errors is raised first",
                   "treeinfo 0.0 (pre-productmd) has no documented mapping: idempotence, the shipped fixtures, the literal mapping table, "
                   "per-section closed forms (C05_ti_00_*) and correspondence with the model of the heuristics are claimed",
                   "int(float(text)) of CPython is supplied to the model as an oracle table (floats are never computed in Lean)"]
    partial = {
        "C05_images_idempotent_partial": "hypothesis Uniq (identity collisions): automatic from 1.1 on (C05_images_uniq_from_1_1), a real "
                                         "restriction for <= 1.0 documents (F11, C05_images_F11_witness); equality of the re-read manifest is "
                                         "as multisets of filings (C02), byte equality of the second text is validated per case",
        "C05_ci_loaded_is_normal_partial": "proved for every version and depth: sections and base product valid, every variant valid against "
                                           "its parent (ValidVs), variant releases valid, WellKeyed; C01's Normal (final only with a label, "
                                           "sorted children) is false of what the reader returns (C05_ci_loaded_not_normal_witness) and is "
                                           "settled by the first write",
        "C05_ti_loaded_is_normal_partial": "per-section validity and current header for every version incl. 0.0; per-variant validity below "
                                           "the container is not stated (C05_ti_idempotent carries ReadValid of the normal form instead)",
        "C05_ti_idempotent": "full statement for every header version; hypotheses are the decidable side conditions of C04_tree_bytes that a "
                             "load does not establish (F17 timestamp, F24 top-level addon, F25 platform name, comma-free non-empty distinct "
                             "UIDs / platforms, text representability, ReadValid of the normal form); timestamp integrality, UID keying, "
                             "ChecksumsOK and image keys are discharged from the legacy reader",
        "C05_ci_faithful_down": "general: Legacy.deserialize (CI.down vs ver keep ci) = ok (CI.expected ver keep ci) for every WellKeyed ci, "
                                "every version; side conditions exact and decidable - IdDerivable below 0.3 (date/type/respin are decoded "
                                "from the id: F10/F24), LegacyDomain below 1.0 (KidsExact and TopsExact on the uid-keyed table: depth <= 2 "
                                "and no top-level UID a dash-extension of another; F32 shows necessity, C05_ci_down_domain_needed); "
                                "CI.down / CI.expected are tied to legacy.ci_down / ci_expect on every ci case",
        "C05_ti_faithful_down": "general for every header version but 0.0: Legacy.deserialize (TI.down vs ver ck t) = ok (norm t); hypotheses "
                                "are those of C04_tree_readback plus, only for <= 0.3, ChainOK (option_lookup chain meets no other "
                                "variant's section) and SrcRepresentable (no binary paths on a source tree), both decidable and shown "
                                "necessary (C05_ti_down_conditions_needed); TI.down is tied to legacy.ti_sections on every ti case",
        "C05_rpms_faithful_witness": "the general re-filing statement for 0.3 manifests is C10's (C10_rpms_refile); here a witness",
        "C05_ti_upgrade_0_0_witness": "treeinfo 0.0 has no documented mapping other than the code: per-section closed forms for any file "
                                      "(C05_ti_00_tree / _release / _media / _relative_paths / _top_variant / _general_variant / "
                                      "_general_paths), idempotence, the 60 shipped pre-productmd fixtures, the literal-table oracle and "
                                      "correspondence of the modelled heuristics; no TI.down for 0.0 (the layout loses facts)",
    }

    def __init__(self):
        self._cur = None

    def cur(self):
        if self._cur is None:
            self._cur = current_version()
        return self._cur

    # ---------------------------------------------------------------- generators
    def cases(self, rng, tier, budget):
        checklib.use_repo()
        for fmt, name in fixture_list():
            yield {"op": "fixture", "args": {"fmt": fmt, "name": name}}
        tab = table00_cases()
        for g0 in tab:
            yield {"op": "ti00", "args": {"text": L.ini_text({"general": g0}), "table": g0}}
        g = CF.Gen(rng, tier)
        cnt = {"ci": 0, "img": 0, "ti": 0, "rpms": 0}

        VERS = dict((f, L.versions_for(REPO, f)) for f in ("ci", "img", "rpms", "ti"))
        L.CI_VERSIONS, L.IMG_VERSIONS, L.RPMS_VERSIONS, L.TI_VERSIONS = VERS["ci"], VERS["img"], VERS["rpms"], VERS["ti"]

        def nxt(which, table):
            cnt[which] += 1
            return table[cnt[which] % len(table)]

        def flags(which, names):
            """option flags round-robin: each flag alone, all off, all on (period coprime with the version pools)"""
            k = cnt[which] % (len(names) + 2)
            if k == len(names):
                return {}
            if k == len(names) + 1:
                return dict((n, True) for n in names)
            return {names[k]: True}
        RESPINS = [0, 9, 10, 9999999, 10000000, 3]
        for i in range(budget):
            k = i % 20
            if k < 7:
                ver = nxt("ci", L.CI_VERSIONS)
                spec = g.spec()
                mode = rng.random()
                if mode < 0.12:
                    spec = self.dashed_beside_prefix(rng, spec)
                if L.vt(ver) < (0, 3) and spec["compose"]["respin"] < 0:
                    spec["compose"]["respin"] = -spec["compose"]["respin"]      # the id carries no sign: not derivable, outside the quantifier
                if L.vt(ver) < (0, 3):
                    # below 0.3 date/type/respin exist only inside the id: a compose id that was generated decoupled from
                    # them (composeinfo adapter, audit) is not a down-conversion of this content - rebuild the coupled id
                    import re as _re
                    c = spec["compose"]
                    suffix = {"production": "", "nightly": ".n", "test": ".t", "ci": ".ci", "development": ".d"}.get(c["type"], "")
                    if not _re.search(r"\d{8}(\.[a-z]+)?\.\d+$", str(c["id"])) or not str(c["id"]).endswith("%s%s.%s" % (c["date"], suffix, c["respin"])):
                        c["id"] = "%s-%s-%s%s.%s" % (spec["release"]["short"], spec["release"]["version"], c["date"], suffix, c["respin"])
                if L.vt(ver) < (0, 3):
                    # "date derivable only from the id": a date the id decoder cannot give back (the shared pool has `20200101\n`,
                    # accepted by `$` - F15) is not content of a < 0.3 document; the id is rebuilt around the clean date
                    c = spec["compose"]
                    clean = "".join(ch for ch in c["date"] if ch.isdigit())[:8].rjust(8, "0")
                    if clean != c["date"]:
                        c["id"] = c["id"].replace(c["date"], clean)
                        c["date"] = clean
                if L.vt(ver) < (0, 3) and cnt["ci"] % 2:
                    # respin boundaries of the id decoder: one digit, two digits, 10^7 - 1 (last good), 10^7 (F10)
                    r = RESPINS[(cnt["ci"] // 2) % len(RESPINS)]
                    c = spec["compose"]
                    c["id"] = c["id"][:c["id"].rindex(".") + 1] + str(r)
                    c["respin"] = r
                if L.vt(ver) < (0, 3) and cnt["ci"] % 3 == 0:
                    tricky_id(spec["compose"], cnt["ci"] // 3)
                yield {"op": "ci", "args": {"spec": spec, "version": ver, "keep_internal": rng.random() < 0.4,
                                            "opts": flags("ci", ["no_final", "explicit_defaults", "upper_type", "type_mismatch"])}}
            elif k < 11:
                ver = nxt("img", L.IMG_VERSIONS)
                ispec = self.img_spec(rng, tier, ver)
                if L.vt(ver) < (0, 3) and cnt["img"] % 2 == 0:
                    tricky_id(ispec["compose"], cnt["img"] // 2)
                yield {"op": "img", "args": {"spec": ispec, "version": ver,
                                             "opts": flags("img", ["empty_cell", "no_final", "type_mismatch", "keep_defaults"])}}
            elif k < 14:
                ver = nxt("rpms", L.RPMS_VERSIONS)
                doc = gen_rpms(rng)
                if L.vt(ver) < (0, 3) and cnt["rpms"] % 2 == 0:
                    tricky_id(doc["payload"]["compose"], cnt["rpms"] // 2)
                fl = flags("rpms", ["no_final", "type_mismatch", "empty_bucket"])
                if fl.get("empty_bucket") and L.vt(ver) > (0, 3):
                    # an empty variant and an empty arch bucket: stored verbatim by the >= 0.4 readers (a 0.3 manifest cannot say it)
                    doc["payload"]["rpms"]["Empty"] = {}
                    for v in doc["payload"]["rpms"]:
                        if v != "Empty":
                            doc["payload"]["rpms"][v]["s390"] = {}
                            break
                yield {"op": "rpms", "args": {"doc": doc, "version": ver, "upper": rng.random() < 0.3, "suffix": rng.random() < 0.3, "opts": fl}}
            elif k < 18:
                ver = nxt("ti", L.TI_VERSIONS)
                spec, _ = TF.gen(rng, tier)
                self.ti_restrict(rng, spec, ver)
                fl = flags("ti", ["no_short", "explicit_defaults", "bare_checksums", "no_tree"])
                fl["bool_spelling"] = cnt["ti"]
                if fl.get("no_short"):
                    spec["release"]["short"] = spec["release"]["name"]
                if fl.get("bare_checksums"):
                    for ty, n in (("md5", 32), ("sha1", 40), ("sha256", 64)):
                        spec["checksums"].append(["bare/%s.img" % ty, ty, ("%x" % rng.getrandbits(4 * n)).rjust(n, "0")])
                yield {"op": "ti", "args": {"spec": spec, "version": ver, "child_key": rng.choice(["addons", "variants"]), "opts": fl}}
            else:
                yield {"op": "ti00", "args": {"text": L.ini_text(gen00(rng))}}

    def dashed_beside_prefix(self, rng, spec):
        """a top-level variant `X-optional` (id `Xoptional`) next to top-level `X`: expressible only with explicit child lists"""
        s = copy.deepcopy(spec)
        if not s["variants"]:
            return s
        base = rng.choice(s["variants"])
        if "-" in base["uid"]:
            return s
        uid = base["uid"] + "-opt"
        if any(v["uid"] == uid for v, _ in CF.walk(s)):
            return s
        s["variants"].append({"key": base["id"] + "opt", "id": base["id"] + "opt", "uid": uid, "name": "dashed", "type": "variant",
                              "arches": list(base["arches"]), "paths": {}, "release": None, "variants": []})
        return s

    def img_spec(self, rng, tier, ver):
        spec = IF.gen(rng, tier, version="1.2", unique=True, share=False)
        # the legacy formats know neither unified images nor additional variants
        for img in spec["pool"]:
            img["unified"] = False
            img["additional_variants"] = []
        if L.vt(ver) < (1, 0) and spec["pool"]:
            spec["pool"][0].update({"type": "dvd", "format": "iso"})        # the pre-1.0 default: `format` absent -> "iso"
        IF.make_unique(spec["pool"])
        if L.vt(ver) <= (1, 0) and rng.random() < 0.8:
            # stay out of F11: identities must stay distinct once the subvariant is gone
            keep = [i["subvariant"] for i in spec["pool"]]
            for i in spec["pool"]:
                i["subvariant"] = ""
            IF.make_unique(spec["pool"])
            for i, s in zip(spec["pool"], keep):
                i["subvariant"] = s
        if L.vt(ver) <= (1, 0) and spec["adds"] and rng.random() < 0.08:
            # F11 region: two images that differ only in subvariant (and content) - indistinguishable once it is gone
            v, a, idx = spec["adds"][0]
            twin = copy.deepcopy(spec["pool"][idx])
            twin["path"] = "twin11/" + twin["path"]     # not "twin/": the shared generator has its own twin of that name (same path twice in a cell is outside the quantifier)
            twin["subvariant"] = twin["subvariant"] + "2"
            twin["checksums"] = dict((k, x[::-1]) for k, x in twin["checksums"].items())
            spec["pool"].append(twin)
            spec["adds"].append([v, a, len(spec["pool"]) - 1])
        # source images: one object per variant filed under every binary arch of the variant
        cells = IF.cells_of_adds(spec["pool"], spec["adds"])
        for v, d in list(cells.items()):
            if rng.random() < 0.5 and all(len(c) > 0 for c in d.values()):
                k = len(spec["pool"])
                img = IF.gen_image(rng, k, v, "src", stem="src")
                img.update({"arch": "src", "unified": False, "additional_variants": [], "disc_number": 900 + k, "disc_count": 900 + k})
                spec["pool"].append(img)
                for a in d:
                    spec["adds"].append([v, a, k])
        return spec

    def ti_restrict(self, rng, spec, ver):
        """content the older format can carry (doc/treeinfo-1.0.rst; <= 0.3: property text)"""
        spec["header_version"] = ver
        for v in spec["variants"]:
            v["key"] = v["uid"]                         # filed as the reader files it (F8 is C04's finding)
        if L.vt(ver) <= (0, 3) and spec["tree"]["arch"] == "src":
            def fix(v):
                v["paths"] = [p for p in v["paths"] if p[0] not in ("packages", "repository")]
                for c in v["variants"]:
                    fix(c)
            for v in spec["variants"]:
                fix(v)
        ts = spec["tree"]["build_timestamp"]
        if isinstance(ts, int) and not (-2 ** 53 <= ts <= 2 ** 53):
            spec["tree"]["build_timestamp"] = 1417653911          # F17 is C04's finding
        # F25 (C04): a platform named <x>-<arch> is renamed by the reader
        arch = spec["tree"]["arch"]
        spec["images"] = [p for p in spec["images"] if not (p[0] != arch and p[0].endswith("-" + arch))]
        spec["tree"]["platforms"] = [p for p in spec["tree"]["platforms"] if not (p != arch and p.endswith("-" + arch))]

    # ---------------------------------------------------------------- the input document of a case
    def document(self, case):
        """-> (format, text handed to the real loader, parsed JSON document or None)"""
        a, op = case["args"], case["op"]
        if op == "fixture":
            text = fixture_text(a["name"])
            doc = json.loads(text) if a["fmt"] != "treeinfo" else None
            return a["fmt"], text, doc
        if op == "ci":
            nspec = CF.norm(a["spec"])
            doc = L.ci_down(L.ci_doc(nspec), a["version"], a.get("keep_internal", False), opts=a.get("opts"))
            return "composeinfo", json.dumps(doc, sort_keys=True), doc
        if op == "img":
            o = a.get("opts") or {}
            doc = L.img_down(IF.doc_of_spec(a["spec"], "1.2", keep_defaults=bool(o.get("keep_defaults")) and L.vt(a["version"]) >= (1, 2)),
                             a["version"], opts=o)
            return "images", json.dumps(doc, sort_keys=True), doc
        if op == "rpms":
            doc = L.rpms_down(a["doc"], a["version"], upper=a.get("upper", False), suffix=a.get("suffix", False), opts=a.get("opts"))
            return "rpms", json.dumps(doc, sort_keys=True), doc
        if op == "ti":
            o = a.get("opts") or {}
            secs = L.ti_sections(a["spec"], a["version"], a.get("child_key", "addons"), opts=o)
            secs["general"] = TF.expected_general(a["spec"])
            if o.get("no_tree") and L.vt(a["version"]) > (0, 3):
                # `[tree]` is optional for the >= 0.4 readers: arch and platforms then come from [general], the timestamp is -1 and
                # there are no variants (the shipped opensuse fixture; writing such a tree is F12)
                del secs["tree"]
            return "treeinfo", L.ini_text(secs), None
        if op == "ti00":
            return "treeinfo", a["text"], None
        raise ValueError(op)

    # ---------------------------------------------------------------- real side
    def real(self, case):
        checklib.use_repo()
        fmt, text, _ = self.document(case)
        out = FMTS[fmt].cycle(text)
        self._last = (case, out)
        return out

    # ---------------------------------------------------------------- model side
    def model_requests(self, case):
        fmt, text, doc = self.document(case)
        if fmt == "composeinfo":
            reqs = [{"op": "c05_ci_cycle", "args": {"doc": doc}}]
            if case["op"] == "ci":
                # tie of the Lean specification `CI.down` / `CI.expected` (the theorems C05_ci_faithful_down*) to the spec-side
                # down-conversion this harness feeds to the library
                a = case["args"]
                t = L.vt(a["version"])
                sp = {"spec": CF.strip_parent(a["spec"]), "vs": a["version"], "ver": [t[0], t[1]], "keep_internal": bool(a.get("keep_internal"))}
                reqs += [{"op": "c05_ci_down", "args": sp}, {"op": "c05_ci_expected", "args": sp}]
            return reqs
        if fmt == "images":
            return [{"op": "c05_img_cycle", "args": {"doc": IF.enc(doc)}}]
        if fmt == "rpms":
            return [{"op": "c05_rpms_cycle", "args": {"doc": doc}}] if self.has_rpms_model() else []
        last = getattr(self, "_last", None)
        r = last[1] if last is not None and last[0] is case else None
        t1 = ((r or {}).get("dump") or {}).get("ok")
        reqs = [{"op": "c05_ti_cycle", "args": {"text": text, "floats": floats_of_text(text, t1)}}]
        if case["op"] == "ti":
            # tie of the Lean specification `TI.down` (the theorems C05_ti_faithful_down*) to the spec-side `legacy.ti_sections`
            a = case["args"]
            t = L.vt(a["version"])
            reqs.append({"op": "c05_ti_down", "args": {"spec": TF.model_tree_spec(a["spec"]), "vs": a["version"], "ver": [t[0], t[1]],
                                                       "child_key": a.get("child_key", "addons")}})
        return reqs

    def has_rpms_model(self):
        p = os.path.join(checklib.LEAN, "ProductMD", "Model", "RpmsLegacy.lean")
        return os.path.exists(p)

    def model_result(self, case, outs):
        o = outs[0]
        res = json.loads(o) if isinstance(o, str) else o
        if len(outs) == 3 and isinstance(res, dict):
            res["_down"] = json.loads(outs[1]) if isinstance(outs[1], str) else outs[1]
            res["_expected"] = json.loads(outs[2]) if isinstance(outs[2], str) else outs[2]
        if len(outs) == 2 and isinstance(res, dict) and case["op"] == "ti":
            res["_ti_down"] = json.loads(outs[1]) if isinstance(outs[1], str) else outs[1]
        return res

    def canon_model(self, fmt, snap):
        if fmt == "composeinfo":
            return CF.canon(snap)
        if fmt == "images":
            return IF.enc(IF.snap_of_model_state(snap))
        if fmt == "treeinfo":
            return TF.canon_spec(snap, with_parent=False)
        if fmt == "rpms":
            return {"version": snap.get("version"), "compose": snap.get("compose"), "rpms": snap.get("payload")}
        return snap

    def canon_real(self, fmt, snap):
        if fmt == "treeinfo":
            def sp(v):
                v = dict(v); v.pop("parent", None); v["variants"] = [sp(c) for c in v["variants"]]
                return v
            return dict(snap, variants=[sp(v) for v in snap["variants"]])
        return snap

    def compare(self, case, real_out, model_out):
        fmt = self.document(case)[0] if case["op"] != "fixture" else case["args"]["fmt"]
        r, m = {}, {}
        for k in ("load", "dump", "reload", "dump2"):
            rv, mv = real_out.get(k), (model_out or {}).get(k)
            if rv is None and mv is None:
                continue
            if k in ("load", "reload"):
                if isinstance(rv, dict) and "ok" in rv:
                    rv = {"ok": self.canon_real(fmt, rv["ok"])}
                if isinstance(mv, dict) and "ok" in mv:
                    mv = {"ok": self.canon_model(fmt, mv["ok"])}
            if checklib.canon(rv) != checklib.canon(mv):
                r[k], m[k] = rv, mv
                break                                   # later steps depend on this one
        if not r and case["op"] == "ci" and isinstance(model_out, dict) and "_down" in model_out:
            a = case["args"]
            nspec = CF.norm(a["spec"])
            dn = model_out["_down"]
            if isinstance(dn, dict) and "ok" in dn:
                want = json.loads(json.dumps(L.ci_down(L.ci_doc(nspec), a["version"], a.get("keep_internal", False))))
                if dn["ok"] != want:
                    r["spec-side down-conversion (legacy.ci_down)"], m["Lean CI.down"] = first_diff(want, dn["ok"]), "differs"
                ex = CF.canon(L.ci_expect(nspec, a["version"], a.get("keep_internal", False)))
                got = CF.canon(model_out["_expected"])
                if not r and checklib.canon(ex) != checklib.canon(got):
                    r["spec-side expectation (legacy.ci_expect)"], m["Lean CI.expected"] = first_diff(got, ex), "differs"
        if not r and case["op"] == "ti" and isinstance(model_out, dict) and "_ti_down" in model_out:
            a = case["args"]
            dn = model_out["_ti_down"]
            if isinstance(dn, dict) and "ok" in dn:
                # Lean: the current writer's file with the documented differences applied; [general] is C17's subject
                got = dict((sec, dict(map(tuple, opts))) for sec, opts in dn["ok"] if sec != "general")
                want = L.ti_sections(a["spec"], a["version"], a.get("child_key", "addons"))
                self.tie_ti = getattr(self, "tie_ti", 0) + 1
                if os.environ.get("C05_TIE_DEBUG"):
                    import sys; sys.stderr.write("tie_ti %d %s %s\n" % (self.tie_ti, a["version"], got == want))
                if got != want:
                    r["spec-side down-conversion (legacy.ti_sections)"], m["Lean TI.down"] = first_diff(want, got), "differs"
        if r:
            return {"real": r, "model": m}
        return None

    # ---------------------------------------------------------------- expectation (spec side) and oracle
    def baseline_accepted(self, case):
        """is the CURRENT-format equivalent of the same content accepted by the library under test?  The borrowed content
        generators also produce values the library refuses in every format (hostile ids, versions with line feeds, ...: the
        corrupting streams of C01-C04/C06/C07); acceptance of the older document is demanded only for content that is valid
        in the first place."""
        a, op = case["args"], case["op"]
        if op not in ("ci", "img", "rpms", "ti"):
            return True
        if not hasattr(self, "_baseline"):
            self._baseline = {}
        k = checklib.key_of(case)
        if k not in self._baseline:
            if len(self._baseline) > 20000:
                self._baseline.clear()
            self._baseline[k] = self._baseline_accepted(case)
        return self._baseline[k]

    def _baseline_accepted(self, case):
        a, op = case["args"], case["op"]
        c = copy.deepcopy(case)
        c["args"]["version"] = self.cur()
        c["args"]["opts"] = {"bool_spelling": 0} if op == "ti" else {}
        if op == "rpms":
            c["args"]["upper"] = c["args"]["suffix"] = False
        try:
            fmt, text, _ = self.document(c)
            x = FMTS[fmt].new()
            x.loads(text)
            return True
        except Exception:  # noqa
            return False

    def expectation(self, case):
        """-> (expected snapshot or None, must_load: bool)"""
        exp, must = self._expectation(case)
        if must and not self.baseline_accepted(case):
            return None, False
        return exp, must

    def _expectation(self, case):
        a, op = case["args"], case["op"]
        cur = self.cur()
        if op == "ci":
            nspec = CF.norm(a["spec"])
            t = L.vt(a["version"])
            exp = CF.canon(L.ci_expect(nspec, a["version"], a.get("keep_internal", False)))
            if t < (1, 0) and L.ci_prefix_ambiguous(nspec):
                return None, False                      # not expressible by UID prefixes: outside the quantifier
            return exp, True
        if op == "img":
            spec = a["spec"]
            t = L.vt(a["version"])
            cells = IF.expected_snapshot(spec)
            if t <= (1, 0):
                for d in cells.values():
                    for c in d.values():
                        for r in c:
                            r["subvariant"] = ""
                        c.sort(key=IF.rec_key)
            if (a.get("opts") or {}).get("empty_cell") and t <= (1, 1):
                # documented re-filing: the images of a `src` cell go under EVERY other arch key of the variant, an empty one included
                doc = self.document(case)[2]
                for v, arches in doc["payload"]["images"].items():
                    if arches.get("s390") == [] and "src" in arches:
                        recs = []
                        for r in arches["src"]:
                            r = dict(r)
                            r.setdefault("format", "iso"); r.setdefault("subvariant", "")
                            r.setdefault("unified", False); r.setdefault("additional_variants", [])
                            recs.append(r)
                        cells.setdefault(v, {})["s390"] = sorted(recs, key=IF.rec_key)
            comp = dict(spec["compose"])
            if not comp.get("label"):
                comp["label"], comp["final"] = None, False
            return IF.enc({"version": cur, "compose": comp, "images": cells}), True
        if op == "rpms":
            if a.get("malformed"):
                return None, False                      # correspondence of the refusal class only
            comp = dict(a["doc"]["payload"]["compose"])
            comp.setdefault("label", None)
            comp.setdefault("final", False)
            return {"version": cur, "compose": comp, "rpms": a["doc"]["payload"]["rpms"]}, True
        if op == "ti":
            spec = a["spec"]
            if not L.ti_src_representable(spec, a["version"]):
                return None, False
            if L.ti_chain_ambiguous(spec, a["version"]):
                return None, True                       # loads, but the old lookup chain lets a variant inherit another one's paths
            if (a.get("opts") or {}).get("no_tree") and L.vt(a["version"]) > (0, 3):
                e = TF.norm_spec(spec)
                e["variants"] = []
                e["tree"] = dict(e["tree"], build_timestamp=-1)
                return TF.canon_spec(e), True
            return TF.canon_spec(TF.norm_spec(spec)), True
        return None, False

    def facts(self, case, real_out):
        """facts about the case that known-finding predicates may refer to"""
        f = {"op": case["op"], "version": case["args"].get("version"), "fixture": case["args"].get("name")}
        load = (real_out.get("load") or {}).get("ok")
        if case["op"] == "ci":
            nspec = CF.norm(case["args"]["spec"])
            f["depth"] = L.ci_depth(nspec)
            f["legacy_tree"] = L.vt(case["args"]["version"]) < (1, 0)
            f["date_from_id"] = L.vt(case["args"]["version"]) < (0, 3)
            f["respin_digits"] = len(str(abs(nspec["compose"]["respin"])))
        fmt = case["args"].get("fmt") or {"ci": "composeinfo", "img": "images", "ti": "treeinfo", "ti00": "treeinfo", "rpms": "rpms"}[case["op"]]
        f["fmt"] = fmt
        if load is not None and fmt == "images":
            recs = [IF.dec(r) for d in load["images"].values() for c in d.values() for r in c]
            f["identity_collisions"] = IF.uniq_violations(recs)[:5]
        if load is not None and fmt == "treeinfo":
            f["top_level_variants"] = len(load["variants"])
            f["top_level_addon"] = any(v["type"] == "addon" for v in load["variants"])
            f["renamed_platform"] = any(p[0] != load["tree"]["arch"] and ("-" in p[0]) for p in load["images"])
            f["dashed_top_uid"] = any("-" in v["uid"] for v in load["variants"])
        return f

    def oracle(self, case, real_out):
        res = self._oracle(case, real_out)
        if res is not None:
            res["observed"] = dict(res.get("observed") or {}, facts=self.facts(case, real_out))
        return res

    def _oracle(self, case, real_out):
        fmt = case["args"].get("fmt") or {"ci": "composeinfo", "img": "images", "ti": "treeinfo", "ti00": "treeinfo", "rpms": "rpms"}[case["op"]]
        exp, must_load = self.expectation(case)
        load = real_out.get("load") or {}
        if "ok" not in load:
            if must_load:
                return {"observed": {"load": load}, "required": "a documented older-format document is accepted and converted",
                        "kind": "refused-documented"}
            return None
        snap = load["ok"]
        if exp is not None:
            got = snap
            if fmt == "treeinfo":
                got = TF.canon_spec(snap)
            if checklib.canon(got) != checklib.canon(exp):
                return {"observed": {"diff": first_diff(checklib.canon(got), checklib.canon(exp))},
                        "required": "the loaded object carries the facts of the old document under the documented mapping",
                        "kind": "facts-differ"}
        if fmt == "treeinfo" and exp is None:
            bad = self.general_mirror(case, snap)
            if bad is not None:
                return {"observed": {"diff": bad}, "required": "the facts a pre-productmd [general] section states directly (arch, timestamp, "
                        "variant, disc numbers: doc/treeinfo-1.0.rst) are carried over", "kind": "facts-differ"}
        dump = real_out.get("dump") or {}
        if "ok" not in dump:
            return {"observed": {"dump": dump}, "required": "an accepted older document can be written back", "kind": "dump-refused"}
        if real_out.get("version_after_load") != self.cur():
            return {"observed": {"header.version after load": real_out.get("version_after_load")}, "required": {"header.version": self.cur()},
                    "kind": "header-after-load"}
        if (real_out.get("dump_again") or {}).get("ok") != dump["ok"]:
            return {"observed": {"second dumps() of the same object": first_text_diff(dump["ok"], (real_out.get("dump_again") or {}).get("ok"))
                                 if "ok" in (real_out.get("dump_again") or {}) else real_out.get("dump_again")},
                    "required": "writing the loaded object twice gives the same bytes", "kind": "bytes-differ"}
        hdr = real_out.get("header")
        want = {"type": FMTS[fmt].header_type, "version": self.cur()}
        if hdr != want:
            return {"observed": {"header": hdr}, "required": {"header": want}, "kind": "header"}
        rl = real_out.get("reload") or {}
        if "ok" not in rl:
            return {"observed": {"reload": rl}, "required": "the written current-version file loads again", "kind": "reload-refused"}
        a, b = self.settled(fmt, snap), self.settled(fmt, rl["ok"])
        if checklib.canon(a) != checklib.canon(b):
            return {"observed": {"diff": first_diff(checklib.canon(b), checklib.canon(a))},
                    "required": "re-loading the written file gives an identical object", "kind": "reload-differs"}
        d2 = real_out.get("dump2") or {}
        if d2.get("ok") != dump["ok"]:
            return {"observed": {"second": first_text_diff(dump["ok"], d2.get("ok")) if "ok" in d2 else d2},
                    "required": "a second write is byte-identical", "kind": "bytes-differ"}
        return None

    def general_mirror(self, case, snap):
        """pre-productmd files: the only documented meaning is that of [general] as a mirror of the authoritative sections
        (doc/treeinfo-1.0.rst): arch = [tree]/arch, timestamp = [tree]/build_timestamp (whole seconds), variant = UID of the
        variant, discnum/totaldiscs = [media]"""
        import configparser
        text = self.document(case)[1]
        cp = configparser.RawConfigParser(interpolation=None)
        cp.optionxform = str
        try:
            cp.read_string(text)
        except configparser.Error:
            return None
        if cp.has_section("header") or not cp.has_section("general"):
            return None
        g = dict(cp.items("general"))
        if "family" in g:
            want = release00(g["family"])
            got = (snap["release"]["name"], snap["release"]["short"])
            if got != want:
                return {"at": "release (name, short)", "observed": list(got), "expected": list(want), "family": g["family"]}
        tab = case["args"].get("table")
        if tab is not None:
            e = expect00_table(tab)
            if e is not None:
                vs = snap["variants"]
                got = None if len(vs) != 1 else {"uid": vs[0]["uid"], "kids": sorted(c["uid"] for c in vs[0]["variants"]),
                                                 "paths": dict((k, v) for k, v in vs[0]["paths"] if k != "identity")}
                e = dict(e, kids=sorted(e["kids"]))
                if got != e:
                    return {"at": "variant derived from [general]", "observed": got, "expected": e, "general": tab}
        if "arch" in g and snap["tree"]["arch"] != g["arch"]:
            return {"at": "tree.arch", "observed": snap["tree"]["arch"], "expected": g["arch"]}
        if "timestamp" in g:
            try:
                want = int(float(g["timestamp"]))
            except ValueError:
                want = None
            if want is not None and snap["tree"]["build_timestamp"] != want:
                return {"at": "tree.build_timestamp", "observed": snap["tree"]["build_timestamp"], "expected": want}
        if g.get("variant"):
            uids = [v["uid"] for v in snap["variants"]]
            if uids != [g["variant"]]:
                return {"at": "variants", "observed": uids, "expected": [g["variant"]]}
        for k in ("discnum", "totaldiscs"):
            if k in g and g[k].strip().isdigit() and snap["media"][k] != int(g[k]):
                return {"at": "media." + k, "observed": snap["media"][k], "expected": int(g[k])}
        # a file that gives the disc number but no total: the total is DERIVED by the reader, and a derived total below the
        # file's own disc number ("disc 2 of 1") contradicts the one fact the file states (seed C05-w5b)
        if "discnum" in g and "totaldiscs" not in g and g["discnum"].strip().isdigit():
            n, tot = snap["media"]["discnum"], snap["media"]["totaldiscs"]
            if isinstance(n, int) and isinstance(tot, int) and tot < n:
                return {"at": "media.totaldiscs derived for a file without one", "observed": {"discnum": n, "totaldiscs": tot},
                        "expected": "a total that is not below the file's disc number"}
        return None

    def settled(self, fmt, snap):
        """documented normalisation that only the first write applies: `final` is stored only next to a label"""
        s = copy.deepcopy(snap)
        c = s.get("compose") if isinstance(s, dict) else None
        if isinstance(c, dict) and not c.get("label"):
            c["final"] = False
        return s

    def nontrivial(self, case, real_out):
        return "ok" in (real_out.get("dump") or {})

    def stats(self, case, real_out, dist):
        a = case["args"]
        fmt = a.get("fmt") or case["op"]
        key = "%s:%s" % (case["op"] if case["op"] != "fixture" else "fixture-" + fmt, a.get("version", ""))
        d = dist.setdefault(key, {"cases": 0, "loaded": 0, "written": 0, "refused": {}, "content_invalid_in_current_format": 0})
        d["cases"] += 1
        if not self.baseline_accepted(case):
            d["content_invalid_in_current_format"] += 1
        load = real_out.get("load") or {}
        if "ok" in load:
            d["loaded"] += 1
            if "ok" in (real_out.get("dump") or {}):
                d["written"] += 1
        else:
            e = load.get("err")
            d["refused"][e] = d["refused"].get(e, 0) + 1

    def shrink_candidates(self, case):
        a, op = case["args"], case["op"]
        out = []

        def with_(k, v):
            c = copy.deepcopy(case); c["args"][k] = v
            return c
        if op == "ci":
            spec = a["spec"]
            n = len(CF.walk(spec))
            for i in range(n):
                s = copy.deepcopy(spec)
                v, p = CF.walk(s)[i]
                (p["variants"] if p is not None else s["variants"]).remove(v)
                out.append(with_("spec", s))
            for i in range(n):
                s = copy.deepcopy(spec)
                v, _ = CF.walk(s)[i]
                if v["paths"]:
                    v["paths"] = {}
                    out.append(with_("spec", s))
            if spec["release"]["is_layered"]:
                s = copy.deepcopy(spec); s["release"]["is_layered"] = False; s["base_product"] = None; out.append(with_("spec", s))
            if spec["compose"]["label"]:
                s = copy.deepcopy(spec); s["compose"]["label"] = None; out.append(with_("spec", s))
        elif op == "img":
            spec = a["spec"]
            for i in range(len(spec["adds"])):
                s = copy.deepcopy(spec); del s["adds"][i]; out.append(with_("spec", s))
        elif op == "rpms":
            doc = a["doc"]
            rp = doc["payload"]["rpms"]

            def pruned(d):
                """a variant / arch without content cannot be expressed in a 0.3 manifest: drop it with its last entry"""
                r = d["payload"]["rpms"]
                for v in list(r):
                    for ar in list(r[v]):
                        for sr in list(r[v][ar]):
                            if not r[v][ar][sr]:
                                del r[v][ar][sr]
                        if not r[v][ar]:
                            del r[v][ar]
                    if not r[v]:
                        del r[v]
                return d
            for v in rp:
                d = copy.deepcopy(doc); del d["payload"]["rpms"][v]; out.append(with_("doc", pruned(d)))
                for ar in rp[v]:
                    d = copy.deepcopy(doc); del d["payload"]["rpms"][v][ar]; out.append(with_("doc", pruned(d)))
                for sr in sorted(set(x for ar in rp[v] for x in rp[v][ar])):
                    d = copy.deepcopy(doc)
                    for x in d["payload"]["rpms"][v]:
                        d["payload"]["rpms"][v][x].pop(sr, None)
                    out.append(with_("doc", pruned(d)))
        elif op == "ti":
            spec = a["spec"]
            for i in range(len(spec["variants"])):
                if len(spec["variants"]) > 1:
                    s = copy.deepcopy(spec); del s["variants"][i]; out.append(with_("spec", s))
            for i, v in enumerate(spec["variants"]):
                for j in range(len(v["variants"])):
                    s = copy.deepcopy(spec); del s["variants"][i]["variants"][j]; out.append(with_("spec", s))
                if v["paths"]:
                    s = copy.deepcopy(spec); s["variants"][i]["paths"] = []; out.append(with_("spec", s))
            for k, empty in (("checksums", []), ("images", [])):
                if spec[k]:
                    s = copy.deepcopy(spec); s[k] = empty; out.append(with_("spec", s))
        elif op == "ti00":
            lines = a["text"].split("\n")
            # drop one section, then one option line at a time
            heads = [i for i, l in enumerate(lines) if l.startswith("[")]
            for hi, start in enumerate(heads):
                end = heads[hi + 1] if hi + 1 < len(heads) else len(lines)
                if lines[start] != "[general]":
                    out.append(with_("text", "\n".join(lines[:start] + lines[end:])))
            for i, l in enumerate(lines):
                if " = " in l:
                    out.append(with_("text", "\n".join(lines[:i] + lines[i + 1:])))
        return out


def first_diff(got, want, path=""):
    if type(got) != type(want):
        return {"at": path, "observed": got, "expected": want}
    if isinstance(got, dict):
        for k in sorted(set(got) | set(want)):
            if k not in got or k not in want:
                return {"at": path + "/" + str(k), "observed": got.get(k, "<absent>"), "expected": want.get(k, "<absent>")}
            d = first_diff(got[k], want[k], path + "/" + str(k))
            if d:
                return d
        return None
    if isinstance(got, list):
        if len(got) != len(want):
            return {"at": path, "observed": "%d items: %s" % (len(got), json.dumps(got)[:300]),
                    "expected": "%d items: %s" % (len(want), json.dumps(want)[:300])}
        for i, (x, y) in enumerate(zip(got, want)):
            d = first_diff(x, y, "%s[%d]" % (path, i))
            if d:
                return d
        return None
    return None if got == want else {"at": path, "observed": got, "expected": want}


def first_text_diff(a, b):
    la, lb = a.splitlines(), (b or "").splitlines()
    for i, (x, y) in enumerate(zip(la, lb)):
        if x != y:
            return {"line": i + 1, "first": x, "second": y}
    return {"line": min(len(la), len(lb)) + 1, "first": "<%d lines>" % len(la), "second": "<%d lines>" % len(lb)}


PROP = C05()

MANIFEST = dict(
    technique="Lean 4 proof over legacy-aware readers added on top of the C01-C04 / C03 / C12 / C15 models - composeinfo 0.x (date/type/respin "
              "from the id, `product` section, UID-prefix forest), images <= 1.0 / <= 1.1 / compose 0.x, rpms 0.3 (manifest replayed through the "
              "Rpms.add model), treeinfo 0.0 (pre-productmd heuristics, RHEL/Fedora/CentOS cases, _fix_path, option_lookup chains) and <= 0.3 "
              "- every branch selected by the version gate regenerated from the source; differential correspondence (snapshots after load, "
              "written bytes, snapshots after reload, second bytes, refusal classes) on all 73 shipped fixtures and on generated content "
              "down-converted per the format documentation to every boundary version; faithfulness / idempotence oracle on the real library",
    text="Gates as comparisons of pairs of naturals for EVERY version (C05_images_gates, C05_rpms_gates, C05_ci_gates, C05_ti_gates_0_0 / "
         "_le_0_3 / _gt_0_3): a flipped operator or moved bound stops the proof. Legacy readers extend the current ones "
         "(C05_*_extends_C0n). Loaded-is-normal for any version: images (valid images with proper ints, admissible arches, valid compose, current "
         "version), rpms (current version, valid compose, JSON-representable mapping - unconditionally for a replayed 0.3 manifest), composeinfo "
         "(sections and base product valid, EVERY variant valid against its parent at any depth for explicit and prefix-derived forests, "
         "WellKeyed), treeinfo incl. 0.0 (current header, every section object validated). Idempotence through the CURRENT reader (conversion "
         "happens once): images with C02 (Uniq automatic from 1.1), rpms with C03 (bytes), composeinfo with C01 assuming only the load and a "
         "successful dump (C05_ci_idempotent, _bytes), treeinfo for every header version with C04_tree_bytes (C05_ti_idempotent: timestamp "
         "integrality, UID keying, ChecksumsOK, image keys discharged from the legacy reader; F17/F24/F25 and file-syntax conditions carried, "
         "all satisfied by the 0.3 and 0.0 witnesses). Faithful: images subvariant default and version independence from 1.1 (all 15 "
         "attributes; whole documents with the src re-filing: C10_images_refile), product section never internal, prefix forest = "
         "explicit child lists (C05_ci_faithful_tops / _children). GENERAL DOWN-CONVERSION THEOREMS: composeinfo - "
         "Legacy.deserialize (CI.down vs ver keep ci) = ok (CI.expected ver keep ci) for every version and every WellKeyed description in the "
         "faithful domain (C05_ci_faithful_down; no condition from 1.0 on; lossless from 1.1 with internal; then idempotent incl. bytes through "
         "the modelled json.loads); treeinfo - Legacy.deserialize (TI.down vs ver ck t) = ok (norm t) for every header version but 0.0, forests "
         "of any depth (C05_ti_faithful_down: [product], no parent, addons/variants, option_lookup chains, src swap; C05_ti_header_only for any "
         "file differing from an accepted one only in [header]); 0.0: per-section closed forms for any file (C05_ti_00_*). CI.down / "
         "CI.expected / TI.down are compared with the harness's spec-side down-converters on every generated case. Witnesses for rpms 0.2, "
         "composeinfo 0.2, treeinfo 0.3 and 0.0 evaluated in the kernel; F11 / F12 / F32 / not-Normal / necessity witnesses.",
    note="Faithful domains are exact side conditions with decided necessity witnesses (composeinfo < 1.0: F32 depth / dashed prefixes, < 0.3: "
         "id-derivable date; treeinfo <= 0.3: lookup-chain ambiguity, binary paths on a source tree). C01's Normal is false of what the "
         "composeinfo reader returns (witness) and is settled by the first write. treeinfo 0.0: no down-conversion is claimed (the layout "
         "loses facts); rpms 0.3 re-filing in general form is C10's (C10_rpms_refile). Known findings met: F10, F11, F12, F24, F32. Documents reach both sides "
         "with sorted keys; int(float(text)) is an oracle table.",
    ref="7/C05")
