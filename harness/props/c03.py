"""C03 - RPM, module and extra-file manifests survive a write/read cycle unchanged."""
import copy, json
import checklib
from checklib import Prop
from formats import manifest_common as mc
from formats import rpms as f_rpms, modules as f_modules, extra_files as f_extra

FORMATS = {"rpms": f_rpms, "modules": f_modules, "extra_files": f_extra}


def strip_ops(ops):
    """what goes to the model: the call without the generator's annotations; floats in the protocol encoding"""
    return [dict((k, (mc.enc(v) if k == "size" else v)) for k, v in op.items() if k not in ("expect", "why")) for op in ops]


# audit B5/C2: documents at and around the readers' version gates (header type checked from 1.1; 0.3 readers below - those are
# C05/C10's); the type of another format is accepted below 1.1 and refused from 1.1 on
GATE_VERSIONS = ["0.4", "1.0", "1.1", "1.2", "1.3", "1.10", "9.9"]


def ver_tuple(v):
    return tuple(int(x) for x in v.split("."))


class C03(Prop):
    id = "C03"
    lean_module = "ProductMD.Properties.C03"
    quick_budget = 1100
    thorough_budget = 9000      # ~9 min; 24000 took 26 min (130 MB of JSON through the Lean driver)
    rule = ("manifest = compose section + history of add calls (mostly valid, some refused) built on the real class; real dumps() bytes "
            "= model bytes; loads() into a fresh object: mapping, compose section and header version = model's re-read manifest; "
            "oracle on the real objects: re-read mapping strictly equal (types included) to the built one, compose equal up to the "
            "documented normalisation (final only with a label), second dumps() byte-identical; SESSIONS on one object (add..., dumps, loads of "
            "its own text - also twice -, loads of another manifest's text, add..., dumps) with version/compose/mapping compared after every "
            "step real vs model, oracle: after loads the object holds exactly the loaded document whatever it held before, dumps changes "
            "nothing; non-trivial = distinct history")
    assumptions = ["json.load(json.dump(v, sort_keys=True)) = v with every dict in sorted key order, for JSON-representable v (stdlib "
                   "parser not modelled; the model's `reparse` is compared with the real loads() on every case)"]
    partial = {}

    def cases(self, rng, tier, budget):
        out = list(self._cases(rng, tier, budget))
        rng.shuffle(out)
        return out

    def _cases(self, rng, tier, budget):
        f_rpms.reset_budget(tier)
        mc.reset_round_robin()
        kinds = ["rpms", "modules", "extra_files"]
        for i in range(budget):
            f = FORMATS[kinds[i % 3]]
            spec = f.gen(rng, tier, valid_only=rng.random() < 0.6)
            yield {"op": "roundtrip", "args": spec}
        # sessions on ONE object: add..., dumps, loads(own text), loads(another manifest's text), add..., dumps
        for i in range(max(150, budget // 3)):
            k = kinds[i % 3]
            f = FORMATS[k]
            steps = f.gen_ops(rng, tier, n=rng.choice([1, 2, 4, 6]), valid_only=rng.random() < 0.7)
            if k == "extra_files" and rng.random() < 0.7:
                # a per-tree export whose base REALLY prefixes stored paths, before the dump/load comparison
                adds = [st for st in steps if st.get("why") in ("valid", "repeat") and "/" in st["path"]]
                for _ in range(rng.choice([1, 1, 2])):
                    if adds:
                        steps.insert(rng.randint(steps.index(adds[0]) + 1, len(steps)), mc.tree_call(rng, rng.choice(adds), [""], force="match"))
            steps.append({"call": "dumps"})
            for _ in range(rng.choice([1, 2, 3, 5])):
                r = rng.random()
                if r < 0.35:
                    st = {"call": "loads_own"}
                    if rng.random() < 0.35:
                        st["version"] = GATE_VERSIONS[(i + len(steps)) % len(GATE_VERSIONS)]
                        if rng.random() < 0.4:
                            st["type"] = "productmd.images"
                    steps.append(st)
                    if rng.random() < 0.3:
                        steps.append({"call": "loads_own"})                  # the same text twice
                elif r < 0.6:
                    steps.append({"call": "loads_other"})
                elif r < 0.85:
                    more = f.gen_ops(rng, tier, n=rng.choice([1, 2, 3]), valid_only=rng.random() < 0.7)
                    steps.extend(more)
                    if k == "extra_files" and rng.random() < 0.4:
                        adds = [st for st in more if st.get("why") in ("valid", "repeat") and "/" in st["path"]]
                        if adds:
                            steps.append(mc.tree_call(rng, rng.choice(adds), [""], force="match"))
                else:
                    steps.append({"call": "dumps"})
            steps.append({"call": "dumps"})
            if rng.random() < 0.5:
                steps.append({"call": "loads_own"})
            other = {"compose": mc.gen_compose(rng), "ops": f.gen_ops(rng, tier, n=rng.choice([0, 1, 3, 5]), valid_only=True)}
            yield {"op": "session", "args": {"kind": k, "compose": mc.gen_compose(rng), "steps": steps, "other": other}}

    def real_session(self, a):
        f = FORMATS[a["kind"]]
        other = f.build(a["other"])
        other_text = other.dumps()
        other_snap = f.snap(other)
        obj = f.new()
        mc.apply_compose(obj, a["compose"])
        last, steps = None, []
        for st in a["steps"]:
            call = st.get("call", "add")
            try:
                if call == "dumps":
                    last = obj.dumps()
                    out = {"ok": last}
                elif call == "loads_own":
                    if last is None:
                        out = {"err": "NoText"}
                    else:
                        text = last
                        if "version" in st or "type" in st:
                            d = json.loads(last)
                            d["header"].update(dict((k_, st[k_]) for k_ in ("version", "type") if k_ in st))
                            text = json.dumps(d, indent=4, sort_keys=True)
                        obj.loads(text)
                        out = {"ok": None}
                elif call == "loads_other":
                    obj.loads(other_text)
                    out = {"ok": None}
                elif call == "dump_for_tree":
                    out = {"ok": f_extra.dump_for_tree(obj, st["variant"], st["arch"], st["basepath"])}
                else:
                    f.add(obj, st)
                    out = {"ok": None}
            except Exception as e:  # noqa
                out = {"err": type(e).__name__}
            steps.append({"out": out, "state": f.snap(obj)})
        return {"steps": steps, "other": other_snap}

    def real(self, case):
        a = case["args"]
        if case["op"] == "session":
            return self.real_session(a)
        f = FORMATS[a["kind"]]
        obj = f.new()
        mc.apply_compose(obj, a["compose"])
        steps = mc.run_trace(obj, f.mapping, f.add, a["ops"])
        before = f.snap(obj)
        via_file = checklib.key_of(case)[0] in "01"                    # audit B7: 1/8 of the cases go through a real file
        try:
            if via_file:
                import tempfile, os
                fd, path = tempfile.mkstemp(suffix=".json")
                os.close(fd)
                obj.dump(path)
                t1 = open(path).read()
            else:
                t1 = obj.dumps()
        except Exception as e:  # noqa
            return {"state": before["payload"], "steps": steps, "out": {"err": type(e).__name__}}
        after_dumps = f.snap(obj)                       # dumps() is a read: only header.version may have moved
        try:
            obj2 = f.new()
            if via_file:
                obj2.load(path)
                os.unlink(path)
            else:
                obj2.loads(t1)
            after = f.snap(obj2)
            t2 = obj2.dumps()
            after2 = f.snap(obj2)
        except Exception as e:  # noqa
            return {"state": before["payload"], "steps": steps, "before": before, "text1": t1, "out": {"err": type(e).__name__}}
        ro = None
        for label, x, y in (("built", before, after_dumps), ("re-read", after, after2)):
            if x["payload"] != y["payload"] or x["compose"] != y["compose"]:
                ro = {"which": label, "before": x, "after": y}
        return {"state": before["payload"], "steps": steps, "before": before, "dumps_changed": ro,
                "out": {"ok": {"text1": t1, "reloaded": after, "text2": t2}}}

    def model_requests(self, case):
        a = case["args"]
        if case["op"] == "session":
            return [{"op": "bld_session", "args": {"kind": a["kind"], "compose": a["compose"], "steps": strip_ops(a["steps"]),
                                                    "other": {"compose": a["other"]["compose"], "ops": strip_ops(a["other"]["ops"])}}}]
        return [{"op": "bld_roundtrip", "args": {"kind": a["kind"], "version": "0.0", "compose": a["compose"], "ops": strip_ops(a["ops"])}}]

    def model_result(self, case, outs):
        return outs[0]

    def compare_session(self, case, real_out, model_out):
        for i, (st, r, m) in enumerate(zip(case["args"]["steps"], real_out["steps"], model_out)):
            rr, mm = r, m
            if "err" in r["out"] and st.get("call") in ("loads_own", "loads_other"):
                # after a refused load only the mapping is compared (header/compose of a half-done load are not modelled)
                rr = {"out": r["out"], "state": r["state"]["payload"]}
                mm = {"out": m["out"], "state": m["state"]["payload"]}
            if json.dumps(rr, sort_keys=True) != json.dumps(mm, sort_keys=True):
                return {"real": {"step": i, "call": st, "got": rr}, "model": {"step": i, "got": mm}}
        return None

    def oracle_session(self, case, real_out):
        a = case["args"]
        f = FORMATS[a["kind"]]
        prev = {"version": "0.0", "compose": a["compose"], "payload": {}}
        dumped = None
        expected = {}           # the mapping the add calls (and loads) so far determine - NOT what the object holds

        def bad(i, st, kind, observed, required):
            return {"kind": kind, "required": required,
                    "observed": {"step": i, "call": dict((k, v) for k, v in st.items() if k != "expect"), "kind": kind, "detail": observed}}
        for i, (st, r) in enumerate(zip(a["steps"], real_out["steps"])):
            call, cur, out = st.get("call", "add"), r["state"], r["out"]
            if call == "dumps":
                if "err" in out:
                    return bad(i, st, "cycle-raised", out["err"], "dumps succeeds")
                if cur["payload"] != prev["payload"] or cur["compose"] != prev["compose"]:
                    return bad(i, st, "dumps-changed-state", {"before": prev, "after": cur}, "dumps() leaves mapping and compose unchanged")
                if cur["payload"] != expected:
                    return bad(i, st, "held-mapping-differs-from-calls", {"added": expected, "held": cur["payload"]},
                               "the manifest that is written is what the add calls filed")
                dumped = {"version": cur["version"], "compose": cur["compose"], "payload": copy.deepcopy(expected)}
            elif call == "dump_for_tree":
                if cur["payload"] != expected:
                    return bad(i, st, "export-changed-manifest", {"added": expected, "held_after_export": cur["payload"]},
                               "a per-tree export leaves the manifest as the add calls filed it")
            elif call in ("loads_own", "loads_other"):
                src = dumped if call == "loads_own" else real_out["other"]
                if src is None:
                    prev = cur
                    continue
                if st.get("type") and ver_tuple(st.get("version", "1.2")) >= (1, 1):
                    # another format's header type at a version where it is checked: refused, nothing replaced
                    if out.get("err") != "ValueError":
                        return bad(i, st, "foreign-type-accepted", out, "ValueError for a document of another format (header version >= 1.1)")
                    if cur["payload"] != expected:
                        return bad(i, st, "refused-load-changed-mapping", {"before": expected, "after": cur["payload"]}, "a refused load leaves the mapping alone")
                    prev = cur
                    continue
                if "err" in out:
                    return bad(i, st, "cycle-raised", out["err"], "loads of a text the library wrote succeeds")
                if cur["payload"] != src["payload"]:
                    return bad(i, st, "load-does-not-replace", {"held_before": prev["payload"], "document": src["payload"], "after": cur["payload"]},
                               "after loads the mapping is exactly the loaded document's (whatever the object held before)")
                if cur["compose"] != mc.norm_compose(src["compose"]):
                    return bad(i, st, "compose-changed", {"document": src["compose"], "after": cur["compose"]}, mc.norm_compose(src["compose"]))
                expected = copy.deepcopy(src["payload"])
            else:
                b = f.oracle_step(expected, cur["payload"], st, out)
                if b is not None and b["kind"] in ("frame-or-content", "wrong-key", "refusal-changed-state"):
                    return bad(i, st, "built-mapping-differs-from-calls", b["observed"], b["required"])
                expected = copy.deepcopy(cur["payload"])
                if cur["compose"] != prev["compose"]:
                    return bad(i, st, "add-changed-compose", {"before": prev["compose"], "after": cur["compose"]}, "add leaves the compose section alone")
            prev = cur
        # the last dump of the session is the text of what the object holds: re-reading it into a fresh object agrees
        return None

    def compare(self, case, real_out, model_out):
        if case["op"] == "session":
            return self.compare_session(case, real_out, model_out)
        r = dict((k, v) for k, v in real_out.items() if k in ("state", "out"))
        if json.dumps(r, sort_keys=True) != json.dumps(model_out, sort_keys=True):
            return {"real": r, "model": model_out}
        return None

    def oracle(self, case, real_out):
        if case["op"] == "session":
            return self.oracle_session(case, real_out)
        out = real_out["out"]
        # "every RPM under its source package with its path, signing key and category; ...": the built mapping against the calls
        f = FORMATS[case["args"]["kind"]]
        prev = {}
        for i, (op, st) in enumerate(zip(case["args"]["ops"], real_out["steps"])):
            bad = f.oracle_step(prev, st["state"], op, st["out"])
            if bad is not None and bad["kind"] in ("frame-or-content", "wrong-key", "refusal-changed-state"):
                return {"kind": "built-mapping-differs-from-calls", "required": bad["required"],
                        "observed": {"step": i, "call": dict((k, v) for k, v in op.items() if k != "expect"), "detail": bad["observed"]}}
            prev = st["state"]
        if "err" in out:
            return {"kind": "cycle-raised", "observed": out["err"] + (" on loads/second dumps" if "text1" in real_out else " on dumps"),
                    "required": "a manifest built through add calls is written and read back"}
        o = out["ok"]
        if real_out.get("dumps_changed"):
            return {"kind": "dumps-changed-state", "observed": real_out["dumps_changed"],
                    "required": "dumps() leaves mapping and compose section unchanged"}
        before, after = real_out["before"], o["reloaded"]
        if after["payload"] != before["payload"]:
            return {"kind": "mapping-changed", "observed": {"built": before["payload"], "reloaded": after["payload"]},
                    "required": "exactly the same variant/arch/entry mapping"}
        if not mc.json_closed(before["payload"]) or "$tuple" in json.dumps(before["payload"]):
            return {"kind": "not-json-closed", "observed": before["payload"], "required": "only JSON-representable values in the mapping"}
        if after["compose"] != mc.norm_compose(before["compose"]):
            return {"kind": "compose-changed", "observed": {"built": before["compose"], "reloaded": after["compose"]},
                    "required": mc.norm_compose(before["compose"])}
        if o["text2"] != o["text1"]:
            return {"kind": "bytes-differ", "observed": {"first": o["text1"][:3000], "second": o["text2"][:3000]}, "required": "byte-identical second dump"}
        return None

    def nontrivial(self, case, real_out):
        if case["op"] == "session":
            return any(s["state"]["payload"] for s in real_out["steps"])
        return bool(real_out.get("state"))

    def stats(self, case, real_out, dist):
        a = case["args"]
        if case["op"] == "session":
            d = dist.setdefault("session:" + a["kind"], {"sessions": 0, "steps": 0, "calls": {}, "loads_into_nonempty": 0})
            d["sessions"] += 1
            prev = {}
            for st, r in zip(a["steps"], real_out["steps"]):
                c = st.get("call", "add")
                d["steps"] += 1
                d["calls"][c] = d["calls"].get(c, 0) + 1
                if c.startswith("loads") and prev and "ok" in r["out"]:
                    d["loads_into_nonempty"] += 1
                prev = r["state"]["payload"]
            return
        d = dist.setdefault(a["kind"], {"manifests": 0, "ops": 0, "max_ops": 0, "variants": 0, "label": 0, "bytes": 0})
        d["manifests"] += 1
        d["ops"] += len(a["ops"])
        d["max_ops"] = max(d["max_ops"], len(a["ops"]))
        st = real_out.get("state")
        d["variants"] += len(st) if isinstance(st, dict) else 0
        d["label"] += 1 if a["compose"]["label"] else 0
        if "ok" in real_out["out"]:
            d["bytes"] += len(real_out["out"]["ok"]["text1"])

    def shrink_candidates(self, case):
        out = []
        if case["op"] == "session":
            for i in range(len(case["args"]["steps"])):
                c = copy.deepcopy(case)
                del c["args"]["steps"][i]
                out.append(c)
            for i in range(len(case["args"]["other"]["ops"])):
                c = copy.deepcopy(case)
                del c["args"]["other"]["ops"][i]
                out.append(c)
            return out
        for i in range(len(case["args"]["ops"])):
            c = copy.deepcopy(case)
            del c["args"]["ops"][i]
            out.append(c)
        return out


PROP = C03()

MANIFEST = dict(
    technique="Lean 4 proof over the model of add histories + serialize/deserialize (header and compose sections validated by the "
              "rule lists regenerated from the source; payload verbatim) + byte-level correspondence of dumps() and loads() with the "
              "real classes on generated histories",
    text="C03_json_closed: every mapping reachable from the empty manifest by any history of add calls (accepted or refused, any "
         "JSON-like arguments, tuples as rpms) is JSON-representable with distinct string keys; C03_roundtrip: for every such history, "
         "every kind and every compose section that validates, dumps -> loads -> dumps succeeds, the re-read mapping is the key-sorted "
         "original (Python-equal; C03_pointwise: every chain of lookups reads the same value), the compose section is the original up to "
         "the documented `final` normalisation (whose validity is derived from the generated rule list: C03_final_only_with_label), the "
         "header carries the current version (C03_version_gates, read from the generated VERSION and gates) and the second text is "
         "byte-identical; C03_bytes: the same at text level for any parser that inverts the printer on that document.",
    note="The JSON parser is not modelled (assumption: it inverts the printer up to dict order), the printer is (JsonText.dumps).",
    ref="7/C03")


# ---------------------------------------------------------------------------------------------------------------------------------
# builder jsonparse: the stdlib JSON parser is modelled (lean/ProductMD/Model/JsonParse.lean, proved to invert the printer in
# Proofs/JsonRoundTrip.lean; C03_bytes_parsed).  The model stays tied to CPython: random printer output / other layouts / mutated
# texts (harness/json_diff.py) and the texts the real manifest classes write go through both parsers on every run.
import json_diff  # noqa: E402


def _json_reader_checks(self, ctx):
    drv, rng, tier = ctx["driver"], ctx["rng"], ctx["tier"]
    if drv is None:
        return []
    fails = []
    stats, bad = json_diff.run(drv, rng, 600 if tier == "quick" else 12000)
    ctx["dist"]["json_reader_vs_cpython"] = stats
    # the texts the library itself writes (dumps() of generated manifests), through the modelled reader
    texts = []
    for case in self.cases(rng, tier, 45 if tier == "quick" else 900):
        r = self.real(case)
        t = r.get("text1") or (r.get("out", {}).get("ok") or {}).get("text1")
        if t and json_diff.sendable(t):
            texts.append(t)
    outs = drv.call([{"op": "json_parse_ord", "args": {"text": t}} for t in texts])
    nbad = 0
    for t, o in zip(texts, outs):
        r = json_diff.real_loads(t)
        why = json_diff.compare_one(t, r, o)
        if why or "ok" not in r:
            nbad += 1
            bad.append({"text": t, "lim": 4300, "real": r, "model": o, "why": why or "library text not accepted", "stream": "library"})
    ctx["dist"]["json_reader_on_library_texts"] = {"texts": len(texts), "bytes": sum(len(t) for t in texts), "disagreements": nbad}
    nf, fbad = json_diff.float_tokens(drv, rng, 60 if tier == "quick" else 1500)
    ctx["dist"]["json_float_tokens"] = {"tokens": nf, "disagreements": len(fbad)}
    for b in fbad[:2]:
        fails.append({"case": {"op": "json_float_tok", "args": {"tok": b["tok"]}}, "observed": {"model": b["model"]},
                      "required": {"documented_language": b["spec"], "printed_by_json_dumps": b["printed_by_json_dumps"]},
                      "kind": "json-float-token-model-vs-cpython-disagreement"})
    for b in bad[:3]:
        fails.append({"case": {"op": "json_parse_ord", "args": {"text": b["text"][:4000], "lim": b["lim"]}},
                      "observed": {"model": b["model"], "why": b["why"], "stream": b["stream"]}, "required": {"cpython": b["real"]},
                      "kind": "json-reader-model-vs-cpython-disagreement"})
    return fails


C03.extra_checks = _json_reader_checks
C03.assumptions = C03.assumptions + [
    "json.load is modelled by JsonParse.parse (C03_bytes_parsed needs no parser hypothesis); the model is tied to CPython 3.12's "
    "json.loads by differential runs on printer output, other layouts, mutated texts and the library's own texts (json_diff); "
    "interpreter recursion limit and int/str digit limit beyond the configured value are outside"]
MANIFEST = dict(MANIFEST,
                text=MANIFEST["text"] + " C03_bytes_parsed: the same at text level through the modelled json.loads (JsonParse.parseWith), with no "
                     "assumption on the parser left (side conditions: float tokens are float literals, integers within int()'s digit limit).",
                note="The JSON printer (JsonText.dumps) and the JSON parser (JsonParse.parse, Model/JsonParse.lean) are both modelled; "
                     "Proofs/JsonRoundTrip.lean proves that the parser inverts the printer on every JSON-representable document; the parser "
                     "model is tied to CPython's json.loads by differential runs (harness/json_diff.py) on every check.")
