"""C07 - documents violating a documented constraint are rejected on load."""
import configparser, copy, io, json, random
import checklib
from checklib import Prop
from formats import valid7 as V
from formats import rules7 as R
from props import c06 as C06

JSON_FORMATS = ("composeinfo", "images", "rpms", "modules", "extra_files")
HEADER_TYPES = {"composeinfo": "productmd.composeinfo", "images": "productmd.images", "rpms": "productmd.rpms", "modules": "productmd.modules",
                "extra_files": "productmd.extra_files", "treeinfo": "productmd.treeinfo"}
TABLE_KEY = {"composeinfo": "variants", "images": "images", "rpms": "rpms", "modules": "modules", "extra_files": "extra_files"}
BAD_VERSIONS = ["1", "1.x", "1.2.3", "", "x.1", "1.", ".2", "1,2", " 1.2", "1.2 ", "\t1.2", "1.2\u00a0", "1 .2", "v1.2", "1.2\n", "1..2", "1-2", "1:2", "1/2", "-1.2", "+1.2",
                "1.2e0", "None", "null", "0", "1.0x", "1" * 300, 12, 0, None, False, {"$float": "1.2"}, ["1", "2"], [], {}, True]
GOOD_VERSIONS = ["1.\u0662", "1.\uff12", "1.02", "01.2", "1." + "0" * 300 + "2"]        # `\d` and int() are Unicode-aware; leading zeros are digits
# a version that STARTS with a non-ASCII digit passes the validator (`\d`) but split_version's ASCII test `^[^0-9]` takes it for a name: the tuple
# comparison then raises TypeError. The document is refused either way (C07 asks no more); recorded as an observation, expectation "any"
ODD_VERSIONS = ["\u0661.\u0662", "\uff11.\uff12"]


# ------------------------------------------------------------------------------------------------ documents
def parse_ini(text):
    cp = configparser.RawConfigParser()
    cp.optionxform = str
    cp.read_string(text)
    return dict((s, dict(cp.items(s))) for s in cp.sections())


def render_ini(doc):
    out = []
    for s in doc:
        out.append("[%s]" % s)
        for k, v in doc[s].items():
            out.append("%s = %s" % (k, v))
        out.append("")
    return "\n".join(out) + "\n"


def to_doc(fmt, text):
    if fmt in JSON_FORMATS:
        return json.loads(text)
    if fmt == "treeinfo":
        return parse_ini(text)
    return text.split("\n")


def to_text(fmt, doc):
    if fmt in JSON_FORMATS:
        return json.dumps(doc_plain(doc))
    if fmt == "treeinfo":
        return render_ini(doc)
    return "\n".join(doc)


def doc_plain(j):
    """protocol values inside a JSON document -> plain JSON (floats as floats)"""
    if isinstance(j, list):
        return [doc_plain(x) for x in j]
    if isinstance(j, dict):
        if list(j) == ["$float"]:
            return float(j["$float"])
        return dict((k, doc_plain(v)) for k, v in j.items())
    return j


def get_path(doc, path):
    for k in path:
        doc = doc[k]
    return doc


def apply_docmod(doc, mod):
    doc = copy.deepcopy(doc)
    path = mod["path"]
    parent = get_path(doc, path[:-1])
    if "truncate" in mod:
        del parent[path[-1]:]
    elif "delete" in mod:
        del parent[path[-1]]
    elif "rename" in mod:
        parent[mod["rename"]] = parent.pop(path[-1])
    else:
        if isinstance(parent, list) and path[-1] == len(parent):
            parent.append(mod["value"])
        else:
            parent[path[-1]] = mod["value"]
    return doc


# ------------------------------------------------------------------------------------------------ field maps
COERCE = {"int": ("mtime", "size", "disc_number", "disc_count"), "bool": ("bootable", "final", "is_layered", "internal")}


def coerce(field, v, cls):
    """the reader's documented coercion; returns (ok, value)"""
    if cls == "images.Image" and field in COERCE["int"]:
        pv = V.dec(v)
        try:
            return True, int(pv)
        except Exception:
            return False, None
    if cls == "composeinfo.Compose" and field == "label":
        return True, (v if R.ptruthy(v) else None)
    if cls == "composeinfo.Release" and field == "type":
        if not isinstance(v, str):
            return False, None
        return True, v.lower()
    return True, v


def json_fields(fmt, doc):
    """[(path, cls, section path)] of every documented, non-bool-coerced field of a JSON document"""
    out = []
    pl = doc["payload"]

    def sec(path, cls, fields):
        d = get_path(doc, path)
        for f in fields:
            if f in d:
                out.append((path + [f], cls, path))
    sec(["payload", "compose"], "composeinfo.Compose", ["id", "type", "date", "respin", "label"])
    if fmt == "composeinfo":
        sec(["payload", "release"], "composeinfo.Release", ["name", "version", "short", "type"])
        if "base_product" in pl:
            sec(["payload", "base_product"], "composeinfo.BaseProduct", ["name", "version", "short", "type"])
        for uid, v in pl["variants"].items():
            sec(["payload", "variants", uid], "composeinfo.Variant", ["id", "name", "type", "arches"])
            if "release" in v:
                sec(["payload", "variants", uid, "release"], "composeinfo.Release", ["name", "version", "short", "type"])
    if fmt == "images":
        for v, arches in pl["images"].items():
            for a, imgs in arches.items():
                for i, _ in enumerate(imgs):
                    sec(["payload", "images", v, a, i], "images.Image", [f for f in V.IMAGE_FIELDS if f != "bootable"])
    return out


def mini_snapshot(cls, section):
    s = dict(section)
    if cls == "composeinfo.Compose":
        s.setdefault("label", None); s["label"] = s["label"] if R.ptruthy(s["label"]) else None
        s["final"] = bool(s.get("final", False))
    if cls == "images.Image":
        s.setdefault("format", "iso"); s.setdefault("unified", False); s.setdefault("additional_variants", [])
        s["bootable"] = bool(s.get("bootable"))
    if cls == "composeinfo.Variant":
        s["arches"] = {"$set": s["arches"]} if isinstance(s.get("arches"), list) and all(isinstance(x, str) for x in s["arches"]) else s.get("arches")
    if cls in ("composeinfo.Release", "composeinfo.BaseProduct"):
        s.setdefault("type", "ga"); s["is_layered"] = bool(s.get("is_layered", False)); s["internal"] = bool(s.get("internal", False))
    return s


def value_mod(fmt, doc, rng, T):
    """replace one documented field value by a value outside its domain (after the reader's coercion)"""
    fields = json_fields(fmt, doc)
    for _ in range(20):
        path, cls, spath = rng.choice(fields)
        f = path[-1]
        rules = [r for r in R.catalogue(cls) if r[0] != "custom" and f in R.rule_fields(r)[:1]]
        if cls == "composeinfo.Compose" and f == "label":
            cands = [("label", v) for v in ["GA", "RC-1", "Foo-1.0", "RC-1.0\n", "rc-1.0", "RC-1.0.0", " RC-1.0", 5, ["RC-1.0"], {"a": 1}]]
            rule = ("custom", "label")
        elif not rules:
            continue
        else:
            rule = rng.choice(rules)
            snap0 = mini_snapshot(cls, get_path(doc, spath))
            cands = [(g, v) for g, v in R.candidates(rule, snap0, T, rng) if g == f and R.ptype(v) not in ("other", "set")]
        good = []
        for g, v in cands:
            ok, cv = coerce(f, v, cls)
            if not ok:
                good.append(v); continue
            snap = mini_snapshot(cls, dict(get_path(doc, spath), **{f: v}))
            snap[f] = V.enc(cv) if not isinstance(cv, (dict, list)) else cv
            if cls == "composeinfo.Variant" and f == "arches":
                pv = cv
                if isinstance(pv, (list, str, dict)):
                    try:
                        snap[f] = {"$set": sorted(set(pv))} if not isinstance(pv, dict) else {"$set": sorted(pv)}
                    except TypeError:
                        good.append(v); continue
                else:
                    good.append(v); continue
            if not R.holds(rule, snap, T):
                good.append(v)
        if good:
            v = rng.choice(good)
            return {"path": path, "value": v}, "value:%s.%s" % (cls, f), True
    return None, None, None


def special_mods(fmt, doc, rng, T):
    """corruptions aimed at the hand-bound rules, the image cell keys and the structural rules"""
    out = []
    if fmt == "composeinfo":
        vs = doc["payload"]["variants"]
        for uid, v in vs.items():
            for c in v.get("variants", []):
                cu = "%s-%s" % (uid, c)
                if cu in vs:
                    out.append(({"path": ["payload", "variants", cu, "uid"], "value": cu + "x"}, "uid-misaligned"))
                    foreign = [a for a in ("sparc", "ia64", "s390", "armhfp") if a not in (v.get("arches") or [])]      # an arch the PARENT lacks
                    if foreign and isinstance(vs[cu].get("arches"), list) and isinstance(v.get("arches"), list):
                        out.append(({"path": ["payload", "variants", cu, "arches"], "value": sorted(set(vs[cu]["arches"]) | {foreign[0]})}, "child-foreign-arch"))
            out.append(({"path": ["payload", "variants", uid, "uid"], "value": uid + "x"}, "uid-changed"))
            out.append(({"path": ["payload", "variants", uid, "paths"], "value": 5}, "paths-not-a-dict"))
            out.append(({"path": ["payload", "variants", uid, "variants"], "value": sorted(v.get("variants", [])) + ["Ghost"]}, "dangling-child-reference"))
            if v.get("variants"):
                out.append(({"path": ["payload", "variants", "%s-%s" % (uid, v["variants"][0])], "delete": True}, "child-entry-deleted"))
                out.append(({"path": ["payload", "variants", uid, "variants"], "value": 7}, "children-not-a-list"))
    if fmt == "images":
        for v, arches in doc["payload"]["images"].items():
            for a in arches:
                for bad in ("src", "nosrc", "x86-64", "X86_64", "", "srcx", "sr", "nosrcx", "SRC", "x86_64 ", " x86_64", "ppc6", "ppc64lex"):
                    if bad not in arches:
                        out.append(({"path": ["payload", "images", v, a], "rename": bad}, "cell-arch:" + bad))
    return out


def accept_mods(fmt, doc, rng):
    """LEGAL variations of a valid document that must still load (and the loaded object must satisfy the catalogue): the reader's documented
    coercions, empty containers, Unicode-digit / zero-padded header versions"""
    out = []
    if fmt in JSON_FORMATS or fmt == "treeinfo":
        for v in GOOD_VERSIONS:
            out.append(([{"path": ["header", "version"], "value": v}], "version-legal:%s" % v[:8]))
        for v in ODD_VERSIONS:
            out.append(([{"path": ["header", "version"], "value": v}], "version-odd:%s" % v[:8]))
    if fmt in JSON_FORMATS:
        out.append(([{"path": ["payload", TABLE_KEY[fmt]], "value": {}}], "empty-table"))
        for f, v in [("respin", 2 ** 63), ("respin", -1), ("final", "x"), ("date", "".join(chr(0x660 + int(c)) for c in "20200101"))]:
            out.append(([{"path": ["payload", "compose", f], "value": v}], "legal:%s" % f))
    if fmt == "images":
        out.append(([{"path": ["payload", "images"], "value": []}], "empty-table-list"))
        cells = [(v, a, i) for v, arches in doc["payload"]["images"].items() for a, imgs in arches.items() for i in range(len(imgs))]
        if cells:
            v, a, i = rng.choice(cells)
            for f, val in [("size", {"$float": "1.5"}), ("size", "12"), ("size", True), ("size", " 7 "), ("mtime", {"$float": "-1.9"}), ("mtime", "0"), ("disc_number", "10"),
                           ("disc_count", {"$float": "0.5"}), ("bootable", "no"), ("bootable", []), ("size", 2 ** 63), ("volume_id", " "), ("subvariant", ""), ("arch", " ")]:
                out.append(([{"path": ["payload", "images", v, a, i, f], "value": val}], "coerced-valid:%s" % f))
            out.append(([{"path": ["payload", "images", v, a], "value": []}], "empty-cell"))
            out.append(([{"path": ["header", "version"], "value": "1.0"}, {"path": ["payload", "images", v, a, i, "subvariant"], "delete": True}],
                        "legal:subvariant-optional-at-1.0"))
    if fmt == "composeinfo":
        out.append(([{"path": ["payload", "release", "type"], "value": doc["payload"]["release"].get("type", "ga").upper()}], "coerced-valid:release.type-upper"))
        out.append(([{"path": ["payload", "release", "internal"], "value": "x"}], "coerced-valid:internal"))
    if fmt == "treeinfo":
        if "tree" in doc and "variants" in doc["tree"]:
            out.append(([{"path": ["tree", "variants"], "delete": True}], "no-variants-option"))
        if "tree" in doc:
            out.append(([{"path": ["tree", "build_timestamp"], "value": "1.9"}], "coerced-valid:build_timestamp"))
            out.append(([{"path": ["tree", "build_timestamp"], "value": "-7"}], "coerced-valid:build_timestamp"))
            out.append(([{"path": ["tree", "build_timestamp"], "value": "1e3"}], "coerced-valid:build_timestamp"))
        if "release" in doc:
            for v in ("True", "yes", "ON", "0", "off"):
                if v.lower() in ("0", "off") or "base_product" in doc:
                    out.append(([{"path": ["release", "is_layered"], "value": v}], "coerced-valid:is_layered"))
    if fmt == "discinfo":
        for v in ("1e3", " 1.5 ", "+2", "1_0.5", "inf", ".5"):
            out.append(([{"path": [0], "value": v}], "coerced-valid:timestamp"))
        out.append(([{"path": [3], "value": ""}], "legal:no-disc-numbers"))
        out.append(([{"path": [3], "value": " 1 , 2 "}], "coerced-valid:disc_numbers"))
        out.append(([{"path": [1], "value": "\"quoted\""}], "legal:description"))
        out.append(([{"path": [3], "truncate": True}], "legal:three-lines"))
    return out


def conditional_required_mods(fmt, doc):
    """sections/keys that are required only UNDER A CONDITION the document itself states (`if <condition>: <read section>` in the readers):
    delete the section while the condition holds, or make the condition hold in a document that lacks the section. [(mods, tag)], all 'reject'"""
    out = []
    D = lambda *p: {"path": list(p), "delete": True}
    S = lambda v, *p: {"path": list(p), "value": v}
    if fmt == "composeinfo":
        pl = doc["payload"]
        if "base_product" in pl:                                  # `if self.release.is_layered: self.base_product.deserialize(...)`
            out.append(([D("payload", "base_product")], "conditional:base_product-of-layered-release-deleted"))
            out.append(([S({}, "payload", "base_product")], "conditional:base_product-emptied"))
            for k in ("name", "version", "short"):
                out.append(([D("payload", "base_product", k)], "conditional:base_product.%s-deleted" % k))
        else:
            for v in (True, 1, "yes"):
                out.append(([S(v, "payload", "release", "is_layered")], "conditional:is_layered-without-base_product"))
        for uid, var in pl["variants"].items():                   # `if self.type == "layered-product": self.release.deserialize(data)`
            if var.get("type") == "layered-product" and "release" in var:
                out.append(([D("payload", "variants", uid, "release")], "conditional:release-of-layered-product-variant-deleted"))
                for k in ("name", "version", "short"):
                    out.append(([D("payload", "variants", uid, "release", k)], "conditional:variant-release.%s-deleted" % k))
            elif "release" not in var:
                out.append(([S("layered-product", "payload", "variants", uid, "type")], "conditional:layered-product-without-release"))
    if fmt == "images":                                           # `subvariant` is required from format 1.1 on (generated gate <= (1, 0))
        cells = [(v, a, i) for v, arches in doc["payload"]["images"].items() for a, imgs in arches.items() for i in range(len(imgs))]
        for v, a, i in cells[:2]:
            out.append(([S("1.1", "header", "version"), D("payload", "images", v, a, i, "subvariant")], "conditional:subvariant-required-from-1.1"))
            out.append(([D("payload", "images", v, a, i, "subvariant")], "conditional:subvariant-required-from-1.1"))
    if fmt in JSON_FORMATS:                                       # header type: required from 1.1 on
        out.append(([S("1.1", "header", "version"), D("header", "type")], "conditional:type-required-from-1.1"))
    if fmt == "treeinfo":
        if "base_product" in doc:                                 # `if self.release.is_layered:`
            out.append(([D("base_product")], "conditional:base_product-of-layered-release-deleted"))
            for k in ("name", "version", "short"):
                out.append(([D("base_product", k)], "conditional:base_product.%s-deleted" % k))
        elif "release" in doc:
            for v in ("true", "1", "yes", "ON"):
                out.append(([S(v, "release", "is_layered")], "conditional:is_layered-without-base_product"))
        for s in doc:                                             # a variant listed in [tree] variants / in a parent's addons needs its section
            if s.startswith("variant-") or s.startswith("addon-"):
                out.append(([D(s)], "conditional:listed-variant-section-deleted"))
        if "media" in doc:                                        # `if parser.has_section("media"):` both numbers
            out.append(([D("media", "discnum")], "conditional:media.discnum-deleted"))
            out.append(([D("media", "totaldiscs")], "conditional:media.totaldiscs-deleted"))
        if "header" in doc:
            out.append(([S("1.1", "header", "version"), D("header", "type")], "conditional:type-required-from-1.1"))
    return out


def required_mods(fmt, doc):
    """deletion of one required key / section / line"""
    out = []
    if fmt in JSON_FORMATS:
        P = lambda *p: out.append({"path": list(p), "delete": True})
        P("header"); P("header", "version"); P("header", "type"); P("payload"); P("payload", "compose"); P("payload", TABLE_KEY[fmt])
        for k in ("id", "type", "date", "respin"):
            P("payload", "compose", k)
        pl = doc["payload"]
        if fmt == "composeinfo":
            P("payload", "release")
            for k in ("name", "version", "short"):
                P("payload", "release", k)
            if "base_product" in pl:
                P("payload", "base_product")
                for k in ("name", "version", "short"):
                    P("payload", "base_product", k)
            for uid in pl["variants"]:
                for k in ("id", "uid", "name", "type", "arches", "paths"):
                    P("payload", "variants", uid, k)
        if fmt == "images":
            for v, arches in pl["images"].items():
                for a, imgs in arches.items():
                    for i, _ in enumerate(imgs):
                        for k in ("path", "mtime", "size", "volume_id", "type", "arch", "disc_number", "disc_count", "checksums", "implant_md5", "bootable", "subvariant"):
                            P("payload", "images", v, a, i, k)
    elif fmt == "treeinfo":
        P = lambda *p: out.append({"path": list(p), "delete": True})
        P("header", "type"); P("release"); P("release", "name"); P("release", "version")
        if "base_product" in doc:
            P("base_product")
            for k in ("name", "version", "short"):
                P("base_product", k)
        for k in ("arch", "platforms", "build_timestamp"):
            P("tree", k)
        for s in doc:
            if s.startswith("variant-") or s.startswith("addon-"):
                for k in ("id", "uid", "name", "type"):
                    P(s, k)
            if s == "media":
                P("media", "discnum"); P("media", "totaldiscs")
    else:
        # a discinfo has no keys: "a required line is missing" = the file is cut before its third line
        for i in range(3):
            out.append({"path": [i], "truncate": True})
    return out


def treeinfo_value_mods(doc, rng):
    out = []
    S = lambda s, k, v, tag: out.append(({"path": [s, k], "value": v}, tag)) if s in doc and k in doc[s] else None
    for v in ("7.x", "7.", "7-1", "1..2"):
        S("release", "version", v, "release.version"); S("base_product", "version", v, "base_product.version")
    for v in ("maybe", "2", "truee"):
        S("release", "is_layered", v, "release.is_layered")
    S("tree", "arch", "", "tree.arch-blank")
    for v in ("abc", "", "0", "0.0", "1e", "--1"):
        S("tree", "build_timestamp", v, "tree.build_timestamp")
    for s in doc:
        if s.startswith("variant-") or s.startswith("addon-"):
            S(s, "id", doc[s]["id"] + "-x", "variant.id-dash"); S(s, "type", "floppy", "variant.type"); S(s, "type", "layered-product", "variant.type")
            if "parent" in doc[s]:
                S(s, "uid", doc[s]["uid"] + "x", "child-uid-misaligned")
                S(s, "id", doc[s]["id"] + "x", "child-id-misaligned")
        if s.startswith("images-") and doc[s]:
            k = sorted(doc[s])[0]
            S(s, k, "/abs/" + k, "image-path-absolute")
        if s == "stage2" and "mainimage" in doc[s]:
            S(s, "mainimage", "/abs/stage2.img", "stage2-absolute")
        if s == "media":
            S(s, "discnum", "x", "media.discnum"); S(s, "totaldiscs", "1.5", "media.totaldiscs"); S(s, "discnum", "", "media.discnum")
        if s == "checksums" and doc[s]:
            k = sorted(doc[s])[0]
            out.append(({"path": [s, k], "rename": "/abs/" + k}, "checksum-path-absolute"))
            S(s, k, "0123", "checksum-format")
    if "tree" in doc:
        out.append(({"path": ["images-zzz"], "value": {"kernel": "images/zzz/kernel"}}, "unreferenced-platform"))
        if "variants" in doc["tree"]:
            out.append(({"path": ["tree", "variants"], "value": doc["tree"]["variants"] + ",Ghost"}, "dangling-variant-reference"))
            out.append(({"path": ["tree", "variants"], "value": doc["tree"]["variants"] + ","}, "empty-variant-uid"))
    for s in doc:
        if (s.startswith("variant-") or s.startswith("addon-")) and "addons" in doc[s]:
            out.append(({"path": [s, "addons"], "value": doc[s]["addons"] + "," + doc[s]["uid"] + "-Ghost"}, "dangling-addon-reference"))
        if s == "checksums" and doc[s]:
            out.append(({"path": [s, sorted(doc[s])[0]], "value": "a:b:c"}, "checksum-format"))
    return out


def discinfo_value_mods(doc):
    out = []
    for v in ("abc", "", "0", "0.0", "1,5", "0x10"):
        out.append(({"path": [0], "value": v}, "timestamp"))
    for v in ("", "  ", "\"\"", "''"):
        out.append(({"path": [1], "value": v}, "description-blank"))
    out.append(({"path": [2], "value": ""}, "arch-blank")); out.append(({"path": [2], "value": "   "}, "arch-blank"))
    for v in ("x", "1,x", "1,,2", "1.5", ",", "1;2"):
        out.append(({"path": [3], "value": v}, "disc-numbers"))
    return out


# ------------------------------------------------------------------------------------------------ the property
class C07(Prop):
    id = "C07"
    lean_module = "ProductMD.Properties.C07"
    quick_budget = 2100
    thorough_budget = 42000
    rule = ("from valid current-version documents of each format (the library's own output for generated valid objects): value replacement at a uniformly chosen "
            "documented field with a value outside its domain after the reader's coercion, header version mangled, type gate probed at 1.0/1.1/1.2 with every "
            "format's type and with the type missing, each required key/section/line deleted, image cell keyed by a source/unknown arch, misaligned child UID, "
            "child arch outside its parent's; correspondence: ok/err of real loads vs the loads model (all seven formats in full for current-format documents, "
            "incl. the composeinfo forest rebuild and every treeinfo section); oracle: corrupted => exception; valid => loaded; every part of a loaded object satisfies the catalogue")
    assumptions = ["json.load / configparser are the trusted parsers; the INI document handed to the model is configparser's own parse of the same text",
                   "bool()-coerced fields (bootable, final, is_layered, internal) have no rejecting set and are not corrupted",
                   "the rule of a field is applied AFTER the reader's documented coercion: a falsy label in a document ('' 0 false [] {} null) is read as 'no label' "
                   "(`data.get('label') or None`) and the document loads (decided: not a C07 violation; what C07 guarantees is that the LOADED object satisfies "
                   "the write-side constraints, which it does); such documents are generated with expectation 'accept'. On the write side (C06) a blank label '' "
                   "in an object is outside the label's domain and must be refused",
                   "the readers a version gate selects for documents older than 1.0 (composeinfo, rpms <= 0.3) / 0.4 (treeinfo, incl. files without a header) are not "
                   "modelled (C05): the model answers Other there, C07_sound_* say nothing about such documents; the value of float() is modelled for plain decimal "
                   "notation only (its syntax errors exactly)"]
    partial = {}

    def __init__(self):
        self._cache = {}
        self._T = None
        self.outside = 0

    def T(self):
        if self._T is None:
            self._T = V.tables()
        return self._T

    def base_doc(self, fmt, spec):
        obj = V.build(fmt, spec)
        return to_doc(fmt, obj.dumps())

    PRELOAD_OK = ("images", "rpms", "modules", "extra_files", "discinfo")     # a second load into the same object is meaningful there

    def cases(self, rng, tier, budget):
        quota = [25]
        for c in self._cases(rng, tier, budget):
            # hidden per-object state (memoised validation, flags set by an earlier load): a third of the cases load the VALID base
            # document into the object first and then the case's document into the SAME object (composeinfo/treeinfo refuse a second
            # load anyway: duplicate variant ids)
            a = c["args"]
            self._nvia = getattr(self, "_nvia", 0) + 1
            a["via"] = ["loads", "loads", "load-path", "loads", "load-fileobj"][self._nvia % 5]
            if a["fmt"] in self.PRELOAD_OK and (a["expect"] == "reject" or (not a["mods"] and a["fmt"] != "images")) and rng.random() < 0.35:
                a["preload"] = "valid-document-first"
            elif a["fmt"] in ("rpms", "modules", "extra_files", "discinfo") and a["expect"] == "accept" and rng.random() < 0.3:
                a["preload"] = "invalid-document-first"     # a REFUSED load into the same object must not spoil the next one
            # the known finding F15 is met a bounded number of times per run (checklib stops consuming after 50 failures, known or not)
            if self.trailing_nl(c):
                quota[0] -= 1
                if quota[0] < 0:
                    continue
            yield c

    def _cases(self, rng, tier, budget):
        T = self.T()
        n = i = 0
        while n < budget:
            fmt = V.FORMATS[i % len(V.FORMATS)]
            k = i // len(V.FORMATS)
            i += 1
            spec = V.gen(rng, fmt, k)
            try:
                doc = self.base_doc(fmt, spec)
                chk = V.new(fmt); chk.loads(to_text(fmt, doc))
            except Exception:   # noqa: what the writer accepts and the reader refuses (discinfo disc numbers 'x', a blank-only arch, timestamp 0.5) is C04's
                self.unloadable = getattr(self, "unloadable", 0) + 1
                continue
            kind = ["valid", "version", "gate", "required", "value", "value", "special", "value", "accept"][k % 9]
            if kind == "accept":
                acc = accept_mods(fmt, doc, rng)
                if acc:
                    m, tag = acc[(k // 9) % len(acc)]
                    n += 1; yield mk(m, tag, "any" if tag.startswith("version-odd") else "accept"); continue
                kind = "value"
            mk = lambda mods, tag, expect: {"op": "c07", "args": {"fmt": fmt, "doc": doc, "mods": mods, "tag": tag, "expect": expect}}
            if fmt == "discinfo":
                if kind in ("version", "gate"):
                    kind = "value"
            if kind == "valid":
                n += 1; yield mk([], "valid", "accept"); continue
            if kind == "version" and fmt != "discinfo":
                v = rng.choice(BAD_VERSIONS if fmt != "treeinfo" else [x for x in BAD_VERSIONS if isinstance(x, str) and "\n" not in x and x.strip() == x and x != ""])
                n += 1; yield mk([{"path": ["header", "version"], "value": v}], "version:%r" % (v,), "reject"); continue
            if kind == "gate" and fmt != "discinfo":
                # both sides of the literal (1, 1), and spellings whose integer tuple is on the other side of where the text seems to be
                probes = ["1.0", "1.1", "1.2", "1.10", "2.0", "1.01", "01.1", "1.00", "1.9", "\u0661.\u0661", "10.0"] + (["0.9"] if fmt != "treeinfo" else [])
                ver = probes[(k // 9) % len(probes)]
                own = HEADER_TYPES[fmt]
                ty = rng.choice(sorted(HEADER_TYPES.values()) + [None, "productmd.Images", "", own[:-1], own + "x", own.upper(), " " + own, own + " ", own + "\n"])
                mods = [{"path": ["header", "version"], "value": ver}]
                if ty is None:
                    mods.append({"path": ["header", "type"], "delete": True})
                else:
                    mods.append({"path": ["header", "type"], "value": ty})
                vt = tuple(int(x) for x in ver.split("."))
                expect = "reject" if (vt >= (1, 1) and ty != HEADER_TYPES[fmt]) else ("accept" if vt >= (1, 0) else "any")
                if not ver[0].isascii():
                    expect = "reject" if expect == "reject" else "any"
                if fmt == "treeinfo" and isinstance(ty, str) and ty.strip() == HEADER_TYPES[fmt]:
                    expect = "any"          # configparser strips outer blanks: C04's reader, not a header matter
                n += 1; yield mk(mods, "gate:%s:%s" % (ver, ty), expect); continue
            if kind == "required":
                # strata taken in turn, and round-robin INSIDE each stratum (a uniform draw over all deletions is dominated by the many per-variant /
                # per-image keys and practically never reaches the few sections, let alone the conditionally required ones: seed C07-v2a)
                self._rq = getattr(self, "_rq", 0) + 1
                mods = required_mods(fmt, doc)
                cond = conditional_required_mods(fmt, doc)
                sections = [m for m in mods if len(m["path"]) <= 2 and "truncate" not in m]
                stratum = self._rq % 3
                if stratum == 0 and cond:
                    ms, tag = cond[(self._rq // 3) % len(cond)]
                    n += 1; yield mk(ms, tag, "reject"); continue
                pool = sections if (stratum == 1 and sections) else mods
                m = pool[(self._rq // 3) % len(pool)] if pool is sections else rng.choice(pool)
                n += 1; yield mk([m], "required:" + "/".join(str(x) for x in m["path"][-2:]), "reject"); continue
            if kind == "special":
                sp = special_mods(fmt, doc, rng, T) if fmt in JSON_FORMATS else []
                if sp:
                    m, tag = rng.choice(sp)
                    n += 1; yield mk([m], tag, "reject"); continue
                kind = "value"
            if kind == "value" and fmt in JSON_FORMATS and rng.random() < 0.12:
                # the reader's documented coercions decide, not the raw value: `label or None` reads every FALSY label ("" 0 false [] {} null)
                # as "no label", bool() reads anything as a flag -- such documents load, and the loaded object satisfies the catalogue
                f, v = rng.choice([("label", x) for x in ["", 0, False, [], {}, None, {"$float": "0.0"}]] + [("final", x) for x in ["yes", 0, [], "False", None]])
                n += 1; yield mk([{"path": ["payload", "compose", f], "value": v}], "coerced-valid:%s" % f, "accept"); continue
            if kind == "value":
                if fmt in JSON_FORMATS:
                    m, tag, _ = value_mod(fmt, doc, rng, T)
                    if m is None:
                        continue
                elif fmt == "treeinfo":
                    m, tag = rng.choice(treeinfo_value_mods(doc, rng))
                else:
                    m, tag = rng.choice(discinfo_value_mods(doc))
                n += 1; yield mk([m], tag, "reject")

    # ---------------------------------------------------------------------------- real
    def final_doc(self, case):
        a = case["args"]
        doc = a["doc"]
        for m in a["mods"]:
            try:
                doc = apply_docmod(doc, m)
            except (KeyError, IndexError, TypeError):
                return None
        return doc

    def real(self, case):
        a = case["args"]
        fmt = a["fmt"]
        doc = self.final_doc(case)
        if doc is None:
            return {"loads": "MOD-NA"}
        text = to_text(fmt, doc)
        model_doc = doc
        if fmt == "treeinfo":
            try:
                model_doc = parse_ini(text)
            except Exception as e:   # noqa
                model_doc = None
        if fmt == "discinfo":
            model_doc = [l.strip() for l in io.StringIO(text).readlines()]
        self._cache[checklib.key_of(case)] = model_doc
        obj = V.new(fmt)
        if a.get("preload") == "valid-document-first":
            pre = V.outcome(obj.loads, to_text(fmt, a["doc"]))
            if "err" in pre:
                return {"loads": "MOD-NA"}
        elif a.get("preload") == "invalid-document-first":
            bad = apply_docmod(a["doc"], {"path": [0], "value": "not-a-number"} if fmt == "discinfo" else {"path": ["payload", "compose", "date"], "value": "2015"})
            pre = V.outcome(obj.loads, to_text(fmt, bad))
            if "ok" in pre:
                return {"loads": "MOD-NA"}
        r = self.read(obj, text, a.get("via"))
        if "err" in r:
            return {"loads": r["err"]}
        # a successful load: every part of the object must satisfy the catalogue (spec side, not the library's validators)
        T = self.T()
        bad, bad_lenient = [], []
        for pth, cls, snap in C06.written_snapshots(fmt, obj):
            v = R.violated(cls, snap, T)
            if v:
                bad.append([pth, cls, v])
            if R.violated(cls, snap, T, lenient=True):
                bad_lenient.append(pth)
        return {"loads": "ok", "violations": bad, "violations_lenient": bad_lenient}

    def read(self, obj, text, via):
        """load()/loads() through one of the documented entry points"""
        if via in (None, "loads"):
            return V.outcome(obj.loads, text)
        import io, os, tempfile
        if via == "load-fileobj":
            return V.outcome(obj.load, io.StringIO(text))
        d = tempfile.mkdtemp(prefix="c07-")
        path = os.path.join(d, "in")
        try:
            with open(path, "w") as f:
                f.write(text)
            return V.outcome(obj.load, path)
        finally:
            try:
                os.unlink(path); os.rmdir(d)
            except OSError:
                pass

    # ---------------------------------------------------------------------------- model
    def model_requests(self, case):
        md = self._cache.get(checklib.key_of(case))
        if md is None:
            return []
        return [{"op": "c07_loads", "args": {"fmt": case["args"]["fmt"], "doc": md}}]

    def model_result(self, case, outs):
        o = outs[0]
        if "front" in o:
            return "front-ok"
        return "ok" if "ok" in o else o.get("err")

    def compare(self, case, real_out, model_out):
        if real_out["loads"] == "MOD-NA" or model_out in ("Other", "front-ok"):
            self.outside += 1
            return None
        r = "ok" if real_out["loads"] == "ok" else "err"
        m = "ok" if model_out == "ok" else "err"
        if r != m:
            return {"real": real_out["loads"], "model": model_out}
        return None

    # ---------------------------------------------------------------------------- oracle
    def trailing_nl(self, case):
        return any(isinstance(m.get("value"), str) and m["value"].endswith("\n") for m in case["args"]["mods"])

    def oracle(self, case, real_out):
        a = case["args"]
        lo = real_out["loads"]
        if lo == "MOD-NA":
            return None
        if lo == "ok":
            if real_out["violations"]:
                only_nl = not real_out["violations_lenient"]
                return {"observed": {"loads": "ok", "violations": real_out["violations"][:3], "only_trailing_newline": only_nl, "mods": a["mods"], "preload": a.get("preload")},
                        "required": "everything obtained from a successful load satisfies the catalogue", "kind": "loaded-invalid"}
            if a["expect"] == "reject":
                return {"observed": {"loads": "ok", "only_trailing_newline": self.trailing_nl(case), "mods": a["mods"], "tag": a["tag"], "preload": a.get("preload")},
                        "required": "load/loads raises: " + a["tag"], "kind": "accepted-invalid"}
            return None
        if a["expect"] == "accept":
            return {"observed": {"loads": lo, "mods": a["mods"], "tag": a["tag"]}, "required": "a valid document loads", "kind": "refused-valid"}
        return None

    def nontrivial(self, case, real_out):
        return real_out["loads"] != "MOD-NA"

    def stats(self, case, real_out, dist):
        a = case["args"]
        k = "%s/%s/%s" % (a["fmt"], a["tag"].split(":")[0], "ok" if real_out["loads"] == "ok" else ("err" if real_out["loads"] != "MOD-NA" else "n/a"))
        if a.get("preload"):
            dist["preloaded"] = dist.get("preloaded", 0) + 1
        dist[k] = dist.get(k, 0) + 1
        if real_out["loads"] not in ("ok", "MOD-NA"):
            d = dist.setdefault("exception_classes", {})
            d[real_out["loads"]] = d.get(real_out["loads"], 0) + 1
        dist["outside_model"] = self.outside
        dist["base_document_not_loadable"] = getattr(self, "unloadable", 0)
        v = dist.setdefault("via", {}); v[a.get("via", "loads")] = v.get(a.get("via", "loads"), 0) + 1

    def shrink_candidates(self, case):
        return []


PROP = C07()

MANIFEST = dict(
    technique="Lean 4 proof over a fill+checks model of loads(): validate() placement in every section reader read from the regenerated call structure (decide), header version/type gate from the regenerated gate, rule catalogue inclusion (C06); differential correspondence of the ok/err outcome; oracle on the real library with document corruptions",
    text="C07_flags: every section reader ends by validating what it filled and loads() validates the top-level object (decide on Generated/Structure.lean). C07_sound_<format>: loads d = ok x => every part of x satisfies the catalogue (all seven formats; composeinfo: every variant of the forest rebuilt from the document at any depth; treeinfo: every section and variant). C07_header: a successful load has a version matching ^\\d+\\.\\d+$ and, when the generated gate (>= (1,1)) holds, the class's own type. C07_gate_boundary: the gate is exactly >= (1,1). C07_required_*: deleting header/version/type(>=1.1)/payload/compose/compose keys/payload table yields an error.",
    note="Only ok/err is observed (any exception class). Readers of formats older than 1.0 are not modelled. Known finding F15 (trailing line feed accepted by `$`).",
    ref="7/C07")
