"""C07 - documents violating a documented constraint are rejected on load."""
import configparser, copy, io, json, random
import checklib
from checklib import Prop
from formats import valid7 as V
from formats import rules7 as R
from formats import legacy as L
from props import c06 as C06

JSON_FORMATS = ("composeinfo", "images", "rpms", "modules", "extra_files")
HEADER_TYPES = {"composeinfo": "productmd.composeinfo", "images": "productmd.images", "rpms": "productmd.rpms", "modules": "productmd.modules",
                "extra_files": "productmd.extra_files", "treeinfo": "productmd.treeinfo"}
TABLE_KEY = {"composeinfo": "variants", "images": "images", "rpms": "rpms", "modules": "modules", "extra_files": "extra_files"}
BAD_VERSIONS = ["1", "1.x", "1.2.3", "", "x.1", "1.", ".2", "1,2", " 1.2", "1.2 ", "\t1.2", "1.2\u00a0", "1 .2", "v1.2", "1.2\n", "1..2", "1-2", "1:2", "1/2", "-1.2", "+1.2",
                "1.2e0", "None", "null", "0", "1.0x", "1" * 300, 12, 0, None, False, {"$float": "1.2"}, ["1", "2"], [], {}, True]
GOOD_VERSIONS = ["1.\u0662", "1.\uff12", "1.02", "01.2", "1." + "0" * 300 + "2"]        # `\d` and int() are Unicode-aware; leading zeros are digits
# a version that STARTS with a non-ASCII digit passes the validator (`\d`) but split_version's ASCII test `^[^0-9]` takes it for a name: the tuple
# comparison then raises TypeError. The document is refused either way (C07 asks no more); recorded as an observation, expectation "any"
ODD_VERSIONS = ["\u0661.\u0662", "\uff11.\uff12"]


# ------------------------------------------------------------------------------------------------ documents
def parse_ini(text):
    cp = configparser.RawConfigParser()
    cp.optionxform = str
    cp.read_string(text)
    return dict((s, dict(cp.items(s))) for s in cp.sections())


def render_ini(doc):
    out = []
    for s in doc:
        out.append("[%s]" % s)
        for k, v in doc[s].items():
            out.append("%s = %s" % (k, v))
        out.append("")
    return "\n".join(out) + "\n"


def to_doc(fmt, text):
    if fmt in JSON_FORMATS:
        return json.loads(text)
    if fmt == "treeinfo":
        return parse_ini(text)
    return text.split("\n")


def to_text(fmt, doc):
    if fmt in JSON_FORMATS:
        return json.dumps(doc_plain(doc))
    if fmt == "treeinfo":
        return render_ini(doc)
    return "\n".join(doc)


def doc_plain(j):
    """protocol values inside a JSON document -> plain JSON (floats as floats)"""
    if isinstance(j, list):
        return [doc_plain(x) for x in j]
    if isinstance(j, dict):
        if list(j) == ["$float"]:
            return float(j["$float"])
        return dict((k, doc_plain(v)) for k, v in j.items())
    return j


def get_path(doc, path):
    for k in path:
        doc = doc[k]
    return doc


def apply_docmod(doc, mod):
    doc = copy.deepcopy(doc)
    path = mod["path"]
    parent = get_path(doc, path[:-1])
    if "truncate" in mod:
        del parent[path[-1]:]
    elif "delete" in mod:
        del parent[path[-1]]
    elif "rename" in mod:
        parent[mod["rename"]] = parent.pop(path[-1])
    else:
        if isinstance(parent, list) and path[-1] == len(parent):
            parent.append(mod["value"])
        else:
            parent[path[-1]] = mod["value"]
    return doc


# ------------------------------------------------------------------------------------------------ field maps
COERCE = {"int": ("mtime", "size", "disc_number", "disc_count"), "bool": ("bootable", "final", "is_layered", "internal")}


def coerce(field, v, cls):
    """the reader's documented coercion; returns (ok, value)"""
    if cls == "images.Image" and field in COERCE["int"]:
        pv = V.dec(v)
        try:
            return True, int(pv)
        except Exception:
            return False, None
    if cls == "composeinfo.Compose" and field == "label":
        return True, (v if R.ptruthy(v) else None)
    if cls == "composeinfo.Release" and field == "type":
        if not isinstance(v, str):
            return False, None
        return True, v.lower()
    return True, v


def json_fields(fmt, doc):
    """[(path, cls, section path)] of every documented, non-bool-coerced field of a JSON document"""
    out = []
    pl = doc["payload"]

    def sec(path, cls, fields):
        d = get_path(doc, path)
        for f in fields:
            if f in d:
                out.append((path + [f], cls, path))
    # below 0.3 the compose `type` must be there but its value is ignored (date, type and respin are decoded from the id)
    sec(["payload", "compose"], "composeinfo.Compose", ["id", "type", "date", "respin", "label"] if "date" in pl["compose"] else ["id", "label"])
    if fmt == "composeinfo":
        rel = "release" if "release" in pl else "product"           # the section is called `product` at <= 0.3
        sec(["payload", rel], "composeinfo.Release", ["name", "version", "short", "type"])
        if "base_product" in pl:
            sec(["payload", "base_product"], "composeinfo.BaseProduct", ["name", "version", "short", "type"])
        for uid, v in pl["variants"].items():
            sec(["payload", "variants", uid], "composeinfo.Variant", ["id", "name", "type", "arches"])
            for r in ("release", "product"):
                if r in v and v.get("type") == "layered-product":
                    sec(["payload", "variants", uid, r], "composeinfo.Release", ["name", "version", "short", "type"])
    if fmt == "images":
        for v, arches in pl["images"].items():
            for a, imgs in arches.items():
                for i, _ in enumerate(imgs):
                    sec(["payload", "images", v, a, i], "images.Image", [f for f in V.IMAGE_FIELDS if f != "bootable"])
    return out


# ------------------------------------------------------------------------------------------------ documents of older formats
LEGACY_KEY = {"composeinfo": "ci", "images": "img", "rpms": "rpms", "treeinfo": "ti"}
SUFFIX_OF = {"production": "", "nightly": ".n", "test": ".t", "ci": ".ci", "development": ".d"}
NO_HEADER = "none"          # a treeinfo without [header]: read as a pre-productmd file (0.0)


def legacy_versions(fmt):
    """every supported OLDER version of a format: the fixed boundary list of formats.legacy plus both neighbours of every
    `version_tuple <op> (a, b)` bound read from the source under test (so that a moved gate moves the probes)"""
    if fmt in LEGACY_KEY:
        vs = L.versions_for(checklib.REPO, LEGACY_KEY[fmt])
    else:
        vs = ["1.1", "1.0", "0.9", "0.3", "0.2", "0.0"] + L.gate_versions(checklib.REPO, ["common", "composeinfo"])
    cur = tuple(int(x) for x in current_version().split("."))
    vs = [v for v in dict.fromkeys(vs) if L.vt(v) < cur]
    if fmt == "treeinfo":
        vs = [v for v in vs if v != "0.0"]
        vs = vs[:len(vs) // 2] + [NO_HEADER] + vs[len(vs) // 2:] + [NO_HEADER]       # files without a header: twice per round
    return vs


def current_version():
    checklib.use_repo()
    import productmd.common
    return ".".join(str(x) for x in productmd.common.VERSION)


def couple_id(comp):
    """below 0.3 date, type and respin exist only inside the compose id: rebuild the id around them (None: not expressible)"""
    d, t, r = comp.get("date"), comp.get("type"), comp.get("respin")
    # the three keys do not exist below 0.3 (and `type` is ignored): where the current-format values cannot be spelled inside an id
    # (a Unicode-digit date, a negative or bool respin) the older document simply carries other ones
    if not (isinstance(d, str) and len(d) == 8 and d.isascii() and d.isdigit()):
        d = "20200101"
    if t not in SUFFIX_OF:
        t = "nightly"
    if not (isinstance(r, int) and not isinstance(r, bool) and 0 <= r < 10 ** 7):
        r = 3
    return "Xy-1-%s%s.%s" % (d, SUFFIX_OF[t], r)


def legacy_down(fmt, doc, ver):
    """the content of a current-format document (the library's own output) as a document of format `ver` (formats.legacy: written from
    the format documentation); None when the content cannot be expressed in that format"""
    if fmt == "treeinfo":
        d = copy.deepcopy(doc)
        if ver == NO_HEADER:
            d.pop("header", None)
            return d if "general" in d else None
        t = L.vt(ver)
        d["header"] = {"version": ver} if t < (1, 1) else {"type": "productmd.treeinfo", "version": ver}
        if t <= (0, 3):
            d["product"] = d.pop("release")
            for s in d:
                if s.startswith("variant-") or s.startswith("addon-"):
                    d[s].pop("parent", None)
        return d
    t = L.vt(ver)
    d = copy.deepcopy(doc)
    if t < (0, 3):
        cid = couple_id(d["payload"]["compose"])
        if cid is None:
            return None
        d["payload"]["compose"]["id"] = cid
    if fmt == "composeinfo":
        return L.ci_down(d, ver)
    if fmt == "images":
        return L.img_down(d, ver)
    if fmt == "rpms":
        return L.rpms_down(d, ver)
    d["header"] = {"version": ver} if t < (1, 1) else {"type": HEADER_TYPES[fmt], "version": ver}
    if t < (0, 3):
        d["payload"]["compose"].pop("date"); d["payload"]["compose"].pop("respin")
    return d


def has_path(doc, path):
    try:
        get_path(doc, path)
        return True
    except (KeyError, IndexError, TypeError):
        return False


def legacy_rename(fmt, doc, path):
    """a path into a current-format document -> the same place in the older document: `release` is `product` at <= 0.3 (also inside a
    layered-product variant), the rpms table is `manifest` at <= 0.3"""
    old_rel = ("product" in doc) if fmt == "treeinfo" else ("product" in doc.get("payload", {}))
    old_tab = fmt == "rpms" and "manifest" in doc.get("payload", {})
    return [("product" if (x == "release" and old_rel) else "manifest" if (x == "rpms" and i == 1 and old_tab) else x) for i, x in enumerate(path)]


def legacy_shim(fmt, doc):
    """the older document with its `product` section ALSO visible under the current name (only to drive the current-format mod generators)"""
    if fmt == "treeinfo" and "product" in doc:
        return dict(doc, release=doc["product"])
    if fmt == "composeinfo" and "product" in doc["payload"]:
        pl = dict(doc["payload"], release=doc["payload"]["product"])
        pl["variants"] = dict((u, (dict(v, release=v["product"]) if "product" in v else v)) for u, v in pl["variants"].items())
        return dict(doc, payload=pl)
    return doc


def legacy_required_mods(fmt, doc, ver):
    """required_mods / conditional_required_mods of the current format, carried to the older document; keys the older format does not have
    (header type below 1.1, compose date/respin below 0.3, subvariant at <= 1.0) drop out because they are not in the document.
    -> [(mods, tag)], all 'reject'"""
    if ver == NO_HEADER:
        return []
    out = []
    shim = legacy_shim(fmt, doc)
    for m in required_mods(fmt, shim):
        m = dict(m, path=legacy_rename(fmt, doc, m["path"]))
        if has_path(doc, m["path"]):
            out.append(([m], "required:" + "/".join(str(x) for x in m["path"][-2:])))
    for ms, tag in conditional_required_mods(fmt, shim):
        if "from-1.1" in tag:
            continue                                        # these probe the CURRENT format's gates by rewriting the version
        ms = [dict(m, path=legacy_rename(fmt, doc, m["path"])) for m in ms]
        if all(has_path(doc, m["path"][:-1]) for m in ms) and all(has_path(doc, m["path"]) for m in ms if "delete" in m):
            out.append((ms, tag))
    return out


def legacy_special_mods(fmt, doc, ver, rng, T):
    """corruptions of what only the OLDER readers do. -> [(mods, tag, expect)]"""
    out = []
    M = lambda tag, *mods, **kw: out.append((list(mods), tag, kw.get("expect", "reject")))
    S = lambda v, *p: {"path": list(p), "value": v}
    D = lambda *p: {"path": list(p), "delete": True}
    t = None if ver == NO_HEADER else L.vt(ver)
    if fmt == "composeinfo":
        vs = doc["payload"]["variants"]
        if t < (1, 0):
            # no child lists: a variant is a child of the entry whose UID is the part before its last dash
            for uid, v in vs.items():
                head = uid.rsplit("-", 1)[0] if "-" in uid else None
                if head in vs:
                    M("legacy-child-uid-misaligned", S(uid + "x", "payload", "variants", uid, "uid"))
                    M("legacy-child-id-misaligned", S(str(v.get("id")) + "x", "payload", "variants", uid, "id"))
                    foreign = [a for a in ("sparc", "ia64", "s390", "armhfp") if a not in (vs[head].get("arches") or [])]
                    if foreign and isinstance(v.get("arches"), list):
                        M("legacy-child-foreign-arch", S(sorted(set(v["arches"]) | {foreign[0]}), "payload", "variants", uid, "arches"))
                    if not any(k != uid and k.startswith(head + "-") for k in vs) and not any(k.startswith(uid + "-") for k in vs):
                        M("legacy-parent-entry-deleted", D("payload", "variants", head))        # the child becomes a dashed top-level variant
        if t < (0, 3):
            M("legacy-id-without-date", S("Xy-1", "payload", "compose", "id"))
            M("legacy-id-not-a-string", S(7, "payload", "compose", "id"))
            M("legacy-id-unknown-type-suffix", S("Xy-1-20200101.x.3", "payload", "compose", "id"))
            M("legacy-compose-type-ignored", S("floppy", "payload", "compose", "type"), expect="accept")
        if t <= (0, 3):
            M("legacy-product-section-renamed", {"path": ["payload", "product"], "rename": "release"})
    if fmt in ("images", "rpms", "modules", "extra_files") and t < (0, 3):
        M("legacy-id-without-date", S("Xy-1", "payload", "compose", "id"))
        M("legacy-id-unknown-type-suffix", S("Xy-1-20200101.x.3", "payload", "compose", "id"))
        M("legacy-compose-type-ignored", S("floppy", "payload", "compose", "type"), expect="accept")
    if fmt == "images" and t <= (1, 1):
        for v, arches in doc["payload"]["images"].items():
            for a in arches:
                for bad in ("nosrc", "x86-64", "X86_64", "", "srcx", "SRC", "x86_64 ", "ppc6"):
                    if bad not in arches and a != "src":
                        M("legacy-cell-arch:" + bad, {"path": ["payload", "images", v, a], "rename": bad})
            if "src" in arches and len(arches) > 1:
                # a source image is re-filed under every OTHER arch key of its variant, each of which must be a known binary arch
                other = [a for a in arches if a != "src"][0]
                M("legacy-src-refiled-under-unknown-arch", {"path": ["payload", "images", v, other], "rename": "x86-64"})
    if fmt == "rpms" and t <= (0, 3):
        man = doc["payload"]["manifest"]
        for v, arches in man.items():
            for a, srpms in arches.items():
                if a == "src":
                    continue
                for bad in ("x86-64", "nosrc", "", "X86_64"):
                    if bad not in arches:
                        M("legacy-manifest-arch:" + bad, {"path": ["payload", "manifest", v, a], "rename": bad})
                for srpm, pkgs in srpms.items():
                    for nevra in pkgs:
                        base = ["payload", "manifest", v, a, srpm, nevra]
                        for ty in ("floppy", "Package", "", None, 5, "src"):
                            M("legacy-manifest-unknown-category", S(ty, *(base + ["type"])))
                        for pth in ("", "/abs/p.rpm", None):
                            M("legacy-manifest-path", S(pth, *(base + ["path"])))
                        for k in ("type", "path", "sigkey"):
                            M("legacy-manifest-key-deleted:" + k, D(*(base + [k])))
                        M("legacy-manifest-nevra", {"path": base, "rename": "notanevra"})
                        M("legacy-manifest-source-as-binary", S("source", *(base + ["type"])))
                        break
                    break
    if fmt == "treeinfo" and ver == NO_HEADER:
        g = doc.get("general", {})
        M("noheader-arch-blank", S("", "general", "arch"))
        for k in ("arch", "family", "version"):
            if k in g:
                M("noheader-general.%s-deleted" % k, D("general", k))
        M("noheader-version", S("7.x", "general", "version"))
        M("noheader-timestamp", S("abc", "general", "timestamp"))
        M("noheader-totaldiscs", S("x", "general", "totaldiscs"))
        M("noheader-discnum", S("1.5", "general", "discnum"))
        if "checksums" in doc and doc["checksums"]:
            M("noheader-checksum-format", S("0123", "checksums", sorted(doc["checksums"])[0]))
        M("noheader-general-deleted", D("general"))
    if fmt == "treeinfo" and t is not None and t <= (0, 3):
        M("legacy-product-section-renamed", {"path": ["product"], "rename": "release"})
        for k in ("name", "version", "short"):
            M("legacy-product.%s-deleted" % k, D("product", k))
        M("legacy-product-version", S("7.x", "product", "version"))
    return out


def cycle_mods(doc):
    """composeinfo documents whose explicit child lists form a cycle.  A cycle that is REACHABLE from a top-level variant never ends
    (`Variant.deserialize` builds a fresh object per reference: RecursionError; the cycle test of `VariantBase.add` compares object
    identity and cannot fire on load) -> 'reject'.  A cycle whose members are all somebody's child has no top-level entry point: its
    entries are never read, the document loads without them (observed, expectation 'any').  -> [(mods, tag, expect)]"""
    vs = doc["payload"]["variants"]
    out = []
    S = lambda v, *p: {"path": list(p), "value": v}

    def var(id_, uid, kids, arches):
        return {"id": id_, "uid": uid, "name": "cyc", "type": "variant", "arches": list(arches), "paths": {}, "variants": kids}
    tops = [u for u, v in vs.items() if "-" not in u and isinstance(v.get("arches"), list) and v.get("type") == "variant"]
    for u in tops[:1]:
        a = vs[u]["arches"]
        kids = sorted(vs[u].get("variants", []))
        out.append(([S(kids + ["zs"], "payload", "variants", u, "variants"), S(var("zs", u, ["zs"], a), "payload", "variants", u + "-zs")],
                    "cycle:self-loop-below-top", "reject"))
        out.append(([S(kids + ["zc"], "payload", "variants", u, "variants"), S(var("zc", u + "-zc", ["zd"], a), "payload", "variants", u + "-zc"),
                     S(var("zd", u, ["zc"], a), "payload", "variants", u + "-zc-zd")], "cycle:2-cycle-below-top", "reject"))
        out.append(([S(kids + ["zc"], "payload", "variants", u, "variants"), S(var("zc", u + "-zc", ["zd"], a), "payload", "variants", u + "-zc"),
                     S(var("zd", u + "-zc-zd", ["ze"], a), "payload", "variants", u + "-zc-zd"),
                     S(var("ze", u, ["zc"], a), "payload", "variants", u + "-zc-zd-ze")], "cycle:3-cycle-below-top", "reject"))
    a = ["x86_64"]
    out.append(([S(var("A", "A", ["A"], a), "payload", "variants", "A-A")], "cycle:unreachable-self-loop", "any"))
    out.append(([S(var("Q", "P-Q", ["R"], a), "payload", "variants", "P-Q"), S(var("R", "P", ["Q"], a), "payload", "variants", "P-Q-R")],
                "cycle:unreachable-2-cycle", "any"))
    out.append(([S(var("b", "a-b", ["c"], a), "payload", "variants", "a-b"), S(var("c", "a-b-c", ["d"], a), "payload", "variants", "a-b-c"),
                 S(var("d", "a", ["b"], a), "payload", "variants", "a-b-c-d")], "cycle:unreachable-3-cycle", "any"))
    return out


def mini_snapshot(cls, section):
    s = dict(section)
    if cls == "composeinfo.Compose":
        s.setdefault("label", None); s["label"] = s["label"] if R.ptruthy(s["label"]) else None
        s["final"] = bool(s.get("final", False))
    if cls == "images.Image":
        s.setdefault("format", "iso"); s.setdefault("unified", False); s.setdefault("additional_variants", [])
        s["bootable"] = bool(s.get("bootable"))
    if cls == "composeinfo.Variant":
        s["arches"] = {"$set": s["arches"]} if isinstance(s.get("arches"), list) and all(isinstance(x, str) for x in s["arches"]) else s.get("arches")
    if cls in ("composeinfo.Release", "composeinfo.BaseProduct"):
        s.setdefault("type", "ga"); s["is_layered"] = bool(s.get("is_layered", False)); s["internal"] = bool(s.get("internal", False))
    return s


def value_mod(fmt, doc, rng, T):
    """replace one documented field value by a value outside its domain (after the reader's coercion)"""
    fields = json_fields(fmt, doc)
    for _ in range(20):
        path, cls, spath = rng.choice(fields)
        f = path[-1]
        rules = [r for r in R.catalogue(cls) if r[0] != "custom" and f in R.rule_fields(r)[:1]]
        if cls == "composeinfo.Compose" and f == "label":
            cands = [("label", v) for v in ["GA", "RC-1", "Foo-1.0", "RC-1.0\n", "rc-1.0", "RC-1.0.0", " RC-1.0", 5, ["RC-1.0"], {"a": 1}]]
            rule = ("custom", "label")
        elif not rules:
            continue
        else:
            rule = rng.choice(rules)
            snap0 = mini_snapshot(cls, get_path(doc, spath))
            cands = [(g, v) for g, v in R.candidates(rule, snap0, T, rng) if g == f and R.ptype(v) not in ("other", "set")]
        good = []
        for g, v in cands:
            ok, cv = coerce(f, v, cls)
            if not ok:
                good.append(v); continue
            snap = mini_snapshot(cls, dict(get_path(doc, spath), **{f: v}))
            snap[f] = V.enc(cv) if not isinstance(cv, (dict, list)) else cv
            if cls == "composeinfo.Variant" and f == "arches":
                pv = cv
                if isinstance(pv, (list, str, dict)):
                    try:
                        snap[f] = {"$set": sorted(set(pv))} if not isinstance(pv, dict) else {"$set": sorted(pv)}
                    except TypeError:
                        good.append(v); continue
                else:
                    good.append(v); continue
            if not R.holds(rule, snap, T):
                good.append(v)
        if good:
            v = rng.choice(good)
            return {"path": path, "value": v}, "value:%s.%s" % (cls, f), True
    return None, None, None


def special_mods(fmt, doc, rng, T):
    """corruptions aimed at the hand-bound rules, the image cell keys and the structural rules"""
    out = []
    if fmt == "composeinfo":
        vs = doc["payload"]["variants"]
        for uid, v in vs.items():
            for c in v.get("variants", []):
                cu = "%s-%s" % (uid, c)
                if cu in vs:
                    out.append(({"path": ["payload", "variants", cu, "uid"], "value": cu + "x"}, "uid-misaligned"))
                    foreign = [a for a in ("sparc", "ia64", "s390", "armhfp") if a not in (v.get("arches") or [])]      # an arch the PARENT lacks
                    if foreign and isinstance(vs[cu].get("arches"), list) and isinstance(v.get("arches"), list):
                        out.append(({"path": ["payload", "variants", cu, "arches"], "value": sorted(set(vs[cu]["arches"]) | {foreign[0]})}, "child-foreign-arch"))
            out.append(({"path": ["payload", "variants", uid, "uid"], "value": uid + "x"}, "uid-changed"))
            out.append(({"path": ["payload", "variants", uid, "paths"], "value": 5}, "paths-not-a-dict"))
            out.append(({"path": ["payload", "variants", uid, "variants"], "value": sorted(v.get("variants", [])) + ["Ghost"]}, "dangling-child-reference"))
            if v.get("variants"):
                out.append(({"path": ["payload", "variants", "%s-%s" % (uid, v["variants"][0])], "delete": True}, "child-entry-deleted"))
                out.append(({"path": ["payload", "variants", uid, "variants"], "value": 7}, "children-not-a-list"))
    if fmt == "images":
        for v, arches in doc["payload"]["images"].items():
            for a in arches:
                for bad in ("src", "nosrc", "x86-64", "X86_64", "", "srcx", "sr", "nosrcx", "SRC", "x86_64 ", " x86_64", "ppc6", "ppc64lex"):
                    if bad not in arches:
                        out.append(({"path": ["payload", "images", v, a], "rename": bad}, "cell-arch:" + bad))
    return out


def accept_mods(fmt, doc, rng):
    """LEGAL variations of a valid document that must still load (and the loaded object must satisfy the catalogue): the reader's documented
    coercions, empty containers, Unicode-digit / zero-padded header versions"""
    out = []
    if fmt in JSON_FORMATS or fmt == "treeinfo":
        for v in GOOD_VERSIONS:
            out.append(([{"path": ["header", "version"], "value": v}], "version-legal:%s" % v[:8]))
        for v in ODD_VERSIONS:
            out.append(([{"path": ["header", "version"], "value": v}], "version-odd:%s" % v[:8]))
    if fmt in JSON_FORMATS:
        out.append(([{"path": ["payload", TABLE_KEY[fmt]], "value": {}}], "empty-table"))
        for f, v in [("respin", 2 ** 63), ("respin", -1), ("final", "x"), ("date", "".join(chr(0x660 + int(c)) for c in "20200101"))]:
            out.append(([{"path": ["payload", "compose", f], "value": v}], "legal:%s" % f))
    if fmt == "images":
        out.append(([{"path": ["payload", "images"], "value": []}], "empty-table-list"))
        cells = [(v, a, i) for v, arches in doc["payload"]["images"].items() for a, imgs in arches.items() for i in range(len(imgs))]
        if cells:
            v, a, i = rng.choice(cells)
            for f, val in [("size", {"$float": "1.5"}), ("size", "12"), ("size", True), ("size", " 7 "), ("mtime", {"$float": "-1.9"}), ("mtime", "0"), ("disc_number", "10"),
                           ("disc_count", {"$float": "0.5"}), ("bootable", "no"), ("bootable", []), ("size", 2 ** 63), ("volume_id", " "), ("subvariant", ""), ("arch", " ")]:
                out.append(([{"path": ["payload", "images", v, a, i, f], "value": val}], "coerced-valid:%s" % f))
            out.append(([{"path": ["payload", "images", v, a], "value": []}], "empty-cell"))
            out.append(([{"path": ["header", "version"], "value": "1.0"}, {"path": ["payload", "images", v, a, i, "subvariant"], "delete": True}],
                        "legal:subvariant-optional-at-1.0"))
    if fmt == "composeinfo":
        out.append(([{"path": ["payload", "release", "type"], "value": doc["payload"]["release"].get("type", "ga").upper()}], "coerced-valid:release.type-upper"))
        out.append(([{"path": ["payload", "release", "internal"], "value": "x"}], "coerced-valid:internal"))
    if fmt == "treeinfo":
        if "tree" in doc and "variants" in doc["tree"]:
            out.append(([{"path": ["tree", "variants"], "delete": True}], "no-variants-option"))
        if "tree" in doc:
            out.append(([{"path": ["tree", "build_timestamp"], "value": "1.9"}], "coerced-valid:build_timestamp"))
            out.append(([{"path": ["tree", "build_timestamp"], "value": "-7"}], "coerced-valid:build_timestamp"))
            out.append(([{"path": ["tree", "build_timestamp"], "value": "1e3"}], "coerced-valid:build_timestamp"))
        if "release" in doc:
            for v in ("True", "yes", "ON", "0", "off"):
                if v.lower() in ("0", "off") or "base_product" in doc:
                    out.append(([{"path": ["release", "is_layered"], "value": v}], "coerced-valid:is_layered"))
    if fmt == "discinfo":
        for v in ("1e3", " 1.5 ", "+2", "1_0.5", "inf", ".5"):
            out.append(([{"path": [0], "value": v}], "coerced-valid:timestamp"))
        out.append(([{"path": [3], "value": ""}], "legal:no-disc-numbers"))
        out.append(([{"path": [3], "value": " 1 , 2 "}], "coerced-valid:disc_numbers"))
        out.append(([{"path": [1], "value": "\"quoted\""}], "legal:description"))
        out.append(([{"path": [3], "truncate": True}], "legal:three-lines"))
    return out


def conditional_required_mods(fmt, doc):
    """sections/keys that are required only UNDER A CONDITION the document itself states (`if <condition>: <read section>` in the readers):
    delete the section while the condition holds, or make the condition hold in a document that lacks the section. [(mods, tag)], all 'reject'"""
    out = []
    D = lambda *p: {"path": list(p), "delete": True}
    S = lambda v, *p: {"path": list(p), "value": v}
    if fmt == "composeinfo":
        pl = doc["payload"]
        if "base_product" in pl:                                  # `if self.release.is_layered: self.base_product.deserialize(...)`
            out.append(([D("payload", "base_product")], "conditional:base_product-of-layered-release-deleted"))
            out.append(([S({}, "payload", "base_product")], "conditional:base_product-emptied"))
            for k in ("name", "version", "short"):
                out.append(([D("payload", "base_product", k)], "conditional:base_product.%s-deleted" % k))
        else:
            for v in (True, 1, "yes"):
                out.append(([S(v, "payload", "release", "is_layered")], "conditional:is_layered-without-base_product"))
        for uid, var in pl["variants"].items():                   # `if self.type == "layered-product": self.release.deserialize(data)`
            if var.get("type") == "layered-product" and "release" in var:
                out.append(([D("payload", "variants", uid, "release")], "conditional:release-of-layered-product-variant-deleted"))
                for k in ("name", "version", "short"):
                    out.append(([D("payload", "variants", uid, "release", k)], "conditional:variant-release.%s-deleted" % k))
            elif "release" not in var:
                out.append(([S("layered-product", "payload", "variants", uid, "type")], "conditional:layered-product-without-release"))
    if fmt == "images":                                           # `subvariant` is required from format 1.1 on (generated gate <= (1, 0))
        cells = [(v, a, i) for v, arches in doc["payload"]["images"].items() for a, imgs in arches.items() for i in range(len(imgs))]
        for v, a, i in cells[:2]:
            out.append(([S("1.1", "header", "version"), D("payload", "images", v, a, i, "subvariant")], "conditional:subvariant-required-from-1.1"))
            out.append(([D("payload", "images", v, a, i, "subvariant")], "conditional:subvariant-required-from-1.1"))
    if fmt in JSON_FORMATS:                                       # header type: required from 1.1 on
        out.append(([S("1.1", "header", "version"), D("header", "type")], "conditional:type-required-from-1.1"))
    if fmt == "treeinfo":
        if "base_product" in doc:                                 # `if self.release.is_layered:`
            out.append(([D("base_product")], "conditional:base_product-of-layered-release-deleted"))
            for k in ("name", "version", "short"):
                out.append(([D("base_product", k)], "conditional:base_product.%s-deleted" % k))
        elif "release" in doc:
            for v in ("true", "1", "yes", "ON"):
                out.append(([S(v, "release", "is_layered")], "conditional:is_layered-without-base_product"))
        for s in doc:                                             # a variant listed in [tree] variants / in a parent's addons needs its section
            if s.startswith("variant-") or s.startswith("addon-"):
                out.append(([D(s)], "conditional:listed-variant-section-deleted"))
        if "media" in doc:                                        # `if parser.has_section("media"):` both numbers
            out.append(([D("media", "discnum")], "conditional:media.discnum-deleted"))
            out.append(([D("media", "totaldiscs")], "conditional:media.totaldiscs-deleted"))
        if "header" in doc:
            out.append(([S("1.1", "header", "version"), D("header", "type")], "conditional:type-required-from-1.1"))
    return out


def required_mods(fmt, doc):
    """deletion of one required key / section / line"""
    out = []
    if fmt in JSON_FORMATS:
        P = lambda *p: out.append({"path": list(p), "delete": True})
        P("header"); P("header", "version"); P("header", "type"); P("payload"); P("payload", "compose"); P("payload", TABLE_KEY[fmt])
        for k in ("id", "type", "date", "respin"):
            P("payload", "compose", k)
        pl = doc["payload"]
        if fmt == "composeinfo":
            P("payload", "release")
            for k in ("name", "version", "short"):
                P("payload", "release", k)
            if "base_product" in pl:
                P("payload", "base_product")
                for k in ("name", "version", "short"):
                    P("payload", "base_product", k)
            for uid in pl["variants"]:
                for k in ("id", "uid", "name", "type", "arches", "paths"):
                    P("payload", "variants", uid, k)
        if fmt == "images":
            for v, arches in pl["images"].items():
                for a, imgs in arches.items():
                    for i, _ in enumerate(imgs):
                        for k in ("path", "mtime", "size", "volume_id", "type", "arch", "disc_number", "disc_count", "checksums", "implant_md5", "bootable", "subvariant"):
                            P("payload", "images", v, a, i, k)
    elif fmt == "treeinfo":
        P = lambda *p: out.append({"path": list(p), "delete": True})
        P("header", "type"); P("release"); P("release", "name"); P("release", "version")
        if "base_product" in doc:
            P("base_product")
            for k in ("name", "version", "short"):
                P("base_product", k)
        for k in ("arch", "platforms", "build_timestamp"):
            P("tree", k)
        for s in doc:
            if s.startswith("variant-") or s.startswith("addon-"):
                for k in ("id", "uid", "name", "type"):
                    P(s, k)
            if s == "media":
                P("media", "discnum"); P("media", "totaldiscs")
    else:
        # a discinfo has no keys: "a required line is missing" = the file is cut before its third line
        for i in range(3):
            out.append({"path": [i], "truncate": True})
    return out


def treeinfo_value_mods(doc, rng):
    out = []
    S = lambda s, k, v, tag: out.append(({"path": [s, k], "value": v}, tag)) if s in doc and k in doc[s] else None
    for v in ("7.x", "7.", "7-1", "1..2"):
        S("release", "version", v, "release.version"); S("base_product", "version", v, "base_product.version")
    for v in ("maybe", "2", "truee"):
        S("release", "is_layered", v, "release.is_layered")
    S("tree", "arch", "", "tree.arch-blank")
    for v in ("abc", "", "0", "0.0", "1e", "--1"):
        S("tree", "build_timestamp", v, "tree.build_timestamp")
    for s in doc:
        if s.startswith("variant-") or s.startswith("addon-"):
            S(s, "id", doc[s]["id"] + "-x", "variant.id-dash"); S(s, "type", "floppy", "variant.type"); S(s, "type", "layered-product", "variant.type")
            if "parent" in doc[s]:
                S(s, "uid", doc[s]["uid"] + "x", "child-uid-misaligned")
                S(s, "id", doc[s]["id"] + "x", "child-id-misaligned")
        if s.startswith("images-") and doc[s]:
            k = sorted(doc[s])[0]
            S(s, k, "/abs/" + k, "image-path-absolute")
        if s == "stage2" and "mainimage" in doc[s]:
            S(s, "mainimage", "/abs/stage2.img", "stage2-absolute")
        if s == "media":
            S(s, "discnum", "x", "media.discnum"); S(s, "totaldiscs", "1.5", "media.totaldiscs"); S(s, "discnum", "", "media.discnum")
        if s == "checksums" and doc[s]:
            k = sorted(doc[s])[0]
            out.append(({"path": [s, k], "rename": "/abs/" + k}, "checksum-path-absolute"))
            S(s, k, "0123", "checksum-format")
    if "tree" in doc:
        out.append(({"path": ["images-zzz"], "value": {"kernel": "images/zzz/kernel"}}, "unreferenced-platform"))
        if "variants" in doc["tree"]:
            out.append(({"path": ["tree", "variants"], "value": doc["tree"]["variants"] + ",Ghost"}, "dangling-variant-reference"))
            out.append(({"path": ["tree", "variants"], "value": doc["tree"]["variants"] + ","}, "empty-variant-uid"))
    for s in doc:
        if (s.startswith("variant-") or s.startswith("addon-")) and "addons" in doc[s]:
            out.append(({"path": [s, "addons"], "value": doc[s]["addons"] + "," + doc[s]["uid"] + "-Ghost"}, "dangling-addon-reference"))
        if s == "checksums" and doc[s]:
            out.append(({"path": [s, sorted(doc[s])[0]], "value": "a:b:c"}, "checksum-format"))
    return out


def discinfo_value_mods(doc):
    out = []
    for v in ("abc", "", "0", "0.0", "1,5", "0x10"):
        out.append(({"path": [0], "value": v}, "timestamp"))
    for v in ("", "  ", "\"\"", "''"):
        out.append(({"path": [1], "value": v}, "description-blank"))
    out.append(({"path": [2], "value": ""}, "arch-blank")); out.append(({"path": [2], "value": "   "}, "arch-blank"))
    for v in ("x", "1,x", "1,,2", "1.5", ",", "1;2"):
        out.append(({"path": [3], "value": v}, "disc-numbers"))
    return out


# ------------------------------------------------------------------------------------------------ the property
class C07(Prop):
    id = "C07"
    lean_module = "ProductMD.Properties.C07"
    quick_budget = 3000
    thorough_budget = 60000
    rule = ("from valid current-version documents of each format (the library's own output for generated valid objects): value replacement at a uniformly chosen "
            "documented field with a value outside its domain after the reader's coercion, header version mangled, type gate probed at 1.0/1.1/1.2 with every "
            "format's type and with the type missing, each required key/section/line deleted, image cell keyed by a source/unknown arch, misaligned child UID, "
            "child arch outside its parent's, child lists forming a cycle (reachable from a top-level variant: refused; unreachable: never read); a third of "
            "the cases carry the same content as a document of an OLDER format version (every boundary version per format read from the source's gates: "
            "composeinfo 0.0..1.1, images 0.0..1.1, rpms 0.0..1.1, modules/extra_files 0.0..1.1, treeinfo 0.1..1.1 and files without a header; spec-level "
            "down-converters of formats.legacy), clean or with one corruption: required key/section deleted, value outside its domain, and what only the older "
            "readers do (id without a date / with an unknown type suffix below 0.3, `release` instead of `product` at <= 0.3, prefix-related child with a foreign "
            "arch / misaligned uid below 1.0, unknown category / arch / absolute path / malformed NEVRA in a 0.3 manifest, unknown arch of an images cell at <= 1.1, "
            "blank arch / bad numbers in a header-less treeinfo); correspondence: ok/err of real loads vs the loads model, total over versions (all seven "
            "formats, incl. the composeinfo forest rebuild, every treeinfo section and every legacy reader); oracle: corrupted => exception; valid => loaded; "
            "every part of a loaded object satisfies the catalogue; an object loaded from an older document is not refused by dumps()")
    assumptions = ["json.load / configparser are the trusted parsers; the INI document handed to the model is configparser's own parse of the same text",
                   "bool()-coerced fields (bootable, final, is_layered, internal) have no rejecting set and are not corrupted",
                   "the rule of a field is applied AFTER the reader's documented coercion: a falsy label in a document ('' 0 false [] {} null) is read as 'no label' "
                   "(`data.get('label') or None`) and the document loads (decided: not a C07 violation; what C07 guarantees is that the LOADED object satisfies "
                   "the write-side constraints, which it does); such documents are generated with expectation 'accept'. On the write side (C06) a blank label '' "
                   "in an object is outside the label's domain and must be refused",
                   "the value of float() is modelled for plain decimal notation only (its syntax errors exactly): a treeinfo timestamp in exponent notation is "
                   "outside the model (Other), also in the [general] section of a header-less file",
                   "documents of older formats: the legacy-specific reader steps are C05's models (get_date_type_respin, the 0.3 manifest replayed through the C12 "
                   "model of Rpms.add, prefix-derived variant table, the treeinfo <= 0.3 / header-less reader on the typed INI document); a 0.3 manifest with a "
                   "signing key that is neither a string nor null is outside the model (Other)",
                   "a composeinfo child-list cycle none of whose members is a top-level variant is never read: the document loads without those entries (the "
                   "loaded object satisfies every rule; expectation 'any', outcome recorded in stats.unreachable_cycle_outcome)"]
    partial = {}

    def __init__(self):
        self._cache = {}
        self._T = None
        self.outside = 0

    def T(self):
        if self._T is None:
            self._T = V.tables()
        return self._T

    def base_doc(self, fmt, spec):
        obj = V.build(fmt, spec)
        return to_doc(fmt, obj.dumps())

    PRELOAD_OK = ("images", "rpms", "modules", "extra_files", "discinfo")     # a second load into the same object is meaningful there

    def cases(self, rng, tier, budget):
        quota = [25]
        for c in self._cases(rng, tier, budget):
            # hidden per-object state (memoised validation, flags set by an earlier load): a third of the cases load the VALID base
            # document into the object first and then the case's document into the SAME object (composeinfo/treeinfo refuse a second
            # load anyway: duplicate variant ids)
            a = c["args"]
            self._nvia = getattr(self, "_nvia", 0) + 1
            a["via"] = ["loads", "loads", "load-path", "loads", "load-fileobj"][self._nvia % 5]
            if a["fmt"] in self.PRELOAD_OK and (a["expect"] == "reject" or (not a["mods"] and a["fmt"] != "images")) and rng.random() < 0.35:
                a["preload"] = "valid-document-first"
            elif a["fmt"] in ("rpms", "modules", "extra_files", "discinfo") and a["expect"] == "accept" and rng.random() < 0.3:
                a["preload"] = "invalid-document-first"     # a REFUSED load into the same object must not spoil the next one
            # the known finding F15 is met a bounded number of times per run (checklib stops consuming after 50 failures, known or not)
            if self.trailing_nl(c):
                quota[0] -= 1
                if quota[0] < 0:
                    continue
            yield c

    def _cases(self, rng, tier, budget):
        T = self.T()
        n = i = 0
        while n < budget:
            fmt = V.FORMATS[i % len(V.FORMATS)]
            k = i // len(V.FORMATS)
            i += 1
            spec = V.gen(rng, fmt, k)
            try:
                doc = self.base_doc(fmt, spec)
                chk = V.new(fmt); chk.loads(to_text(fmt, doc))
            except Exception:   # noqa: what the writer accepts and the reader refuses (discinfo disc numbers 'x', a blank-only arch, timestamp 0.5) is C04's
                self.unloadable = getattr(self, "unloadable", 0) + 1
                continue
            mk = lambda mods, tag, expect: {"op": "c07", "args": {"fmt": fmt, "doc": doc, "mods": mods, "tag": tag, "expect": expect}}
            if fmt != "discinfo" and k % 3 == 2:
                # the same content as a document of an OLDER format version (every version per format in turn), clean or with one corruption
                c = self.legacy_case(fmt, doc, rng, T)
                if c is not None:
                    n += 1; yield c
                continue
            kind = ["valid", "version", "gate", "required", "value", "value", "special", "value", "accept"][(k - k // 3) % 9]
            if kind == "accept":
                acc = accept_mods(fmt, doc, rng)
                if acc:
                    m, tag = acc[(k // 9) % len(acc)]
                    n += 1; yield mk(m, tag, "any" if tag.startswith("version-odd") else "accept"); continue
                kind = "value"
            if fmt == "discinfo":
                if kind in ("version", "gate"):
                    kind = "value"
            if kind == "valid":
                n += 1; yield mk([], "valid", "accept"); continue
            if kind == "version" and fmt != "discinfo":
                v = rng.choice(BAD_VERSIONS if fmt != "treeinfo" else [x for x in BAD_VERSIONS if isinstance(x, str) and "\n" not in x and x.strip() == x and x != ""])
                n += 1; yield mk([{"path": ["header", "version"], "value": v}], "version:%r" % (v,), "reject"); continue
            if kind == "gate" and fmt != "discinfo":
                # both sides of the literal (1, 1), and spellings whose integer tuple is on the other side of where the text seems to be
                probes = ["1.0", "1.1", "1.2", "1.10", "2.0", "1.01", "01.1", "1.00", "1.9", "\u0661.\u0661", "10.0"] + (["0.9"] if fmt != "treeinfo" else [])
                ver = probes[(k // 9) % len(probes)]
                own = HEADER_TYPES[fmt]
                ty = rng.choice(sorted(HEADER_TYPES.values()) + [None, "productmd.Images", "", own[:-1], own + "x", own.upper(), " " + own, own + " ", own + "\n"])
                mods = [{"path": ["header", "version"], "value": ver}]
                if ty is None:
                    mods.append({"path": ["header", "type"], "delete": True})
                else:
                    mods.append({"path": ["header", "type"], "value": ty})
                vt = tuple(int(x) for x in ver.split("."))
                expect = "reject" if (vt >= (1, 1) and ty != HEADER_TYPES[fmt]) else ("accept" if vt >= (1, 0) else "any")
                if not ver[0].isascii():
                    expect = "reject" if expect == "reject" else "any"
                if fmt == "treeinfo" and isinstance(ty, str) and ty.strip() == HEADER_TYPES[fmt]:
                    expect = "any"          # configparser strips outer blanks: C04's reader, not a header matter
                n += 1; yield mk(mods, "gate:%s:%s" % (ver, ty), expect); continue
            if kind == "required":
                # strata taken in turn, and round-robin INSIDE each stratum (a uniform draw over all deletions is dominated by the many per-variant /
                # per-image keys and practically never reaches the few sections, let alone the conditionally required ones: seed C07-v2a)
                self._rq = getattr(self, "_rq", 0) + 1
                mods = required_mods(fmt, doc)
                cond = conditional_required_mods(fmt, doc)
                sections = [m for m in mods if len(m["path"]) <= 2 and "truncate" not in m]
                stratum = self._rq % 3
                if stratum == 0 and cond:
                    ms, tag = cond[(self._rq // 3) % len(cond)]
                    n += 1; yield mk(ms, tag, "reject"); continue
                pool = sections if (stratum == 1 and sections) else mods
                m = pool[(self._rq // 3) % len(pool)] if pool is sections else rng.choice(pool)
                n += 1; yield mk([m], "required:" + "/".join(str(x) for x in m["path"][-2:]), "reject"); continue
            if kind == "special" and fmt == "composeinfo":
                self._cy = getattr(self, "_cy", 0) + 1
                if self._cy % 2 == 0:
                    cy = cycle_mods(doc)
                    ms, tag, expect = cy[(self._cy // 2) % len(cy)]
                    n += 1; yield mk(ms, tag, expect); continue
            if kind == "special":
                sp = special_mods(fmt, doc, rng, T) if fmt in JSON_FORMATS else []
                if sp:
                    m, tag = rng.choice(sp)
                    n += 1; yield mk([m], tag, "reject"); continue
                kind = "value"
            if kind == "value" and fmt in JSON_FORMATS and rng.random() < 0.12:
                # the reader's documented coercions decide, not the raw value: `label or None` reads every FALSY label ("" 0 false [] {} null)
                # as "no label", bool() reads anything as a flag -- such documents load, and the loaded object satisfies the catalogue
                f, v = rng.choice([("label", x) for x in ["", 0, False, [], {}, None, {"$float": "0.0"}]] + [("final", x) for x in ["yes", 0, [], "False", None]])
                n += 1; yield mk([{"path": ["payload", "compose", f], "value": v}], "coerced-valid:%s" % f, "accept"); continue
            if kind == "value":
                if fmt in JSON_FORMATS:
                    m, tag, _ = value_mod(fmt, doc, rng, T)
                    if m is None:
                        continue
                elif fmt == "treeinfo":
                    m, tag = rng.choice(treeinfo_value_mods(doc, rng))
                else:
                    m, tag = rng.choice(discinfo_value_mods(doc))
                n += 1; yield mk([m], tag, "reject")

    def legacy_case(self, fmt, doc, rng, T):
        st = self.__dict__.setdefault("_lg", {})
        vers = self.__dict__.setdefault("_lgv", {})
        if fmt not in vers:
            vers[fmt] = legacy_versions(fmt)
        j = st.get(fmt, 0)
        st[fmt] = j + 1
        ver = vers[fmt][j % len(vers[fmt])]
        ldoc = legacy_down(fmt, doc, ver)
        nl = self.__dict__.setdefault("legacy_skipped", {})
        if ldoc is None:
            nl["not-expressible"] = nl.get("not-expressible", 0) + 1
            return None
        try:
            chk = V.new(fmt); chk.loads(to_text(fmt, ldoc))
        except Exception:   # noqa: content the older format cannot carry (composeinfo below 1.0 deeper than two levels: F32; a dashed top-level UID
            nl["base-not-loadable:%s" % fmt] = nl.get("base-not-loadable:%s" % fmt, 0) + 1      # beside its prefix; treeinfo compatibility sections: F45/F46)
            return None
        mk = lambda mods, tag, expect: {"op": "c07", "args": {"fmt": fmt, "doc": ldoc, "mods": mods, "tag": tag, "expect": expect, "version": ver}}
        kind = ["valid", "required", "value", "special", "special", "value", "required", "special"][(j // len(vers[fmt])) % 8]
        if kind == "required":
            rq = legacy_required_mods(fmt, ldoc, ver)
            if rq:
                ms, tag = rq[(j // (8 * len(vers[fmt]))) % len(rq)] if rng.random() < 0.5 else rng.choice(rq)
                return mk(ms, "legacy-" + tag, "reject")
            kind = "special"
        if kind == "value":
            if fmt in JSON_FORMATS:
                m, tag, _ = value_mod(fmt, ldoc, rng, T)
                if m is not None:
                    return mk([m], "legacy-" + tag, "reject")
            elif ver != NO_HEADER:
                tv = [(dict(m, path=legacy_rename(fmt, ldoc, m["path"])), tag) for m, tag in treeinfo_value_mods(legacy_shim(fmt, ldoc), rng)]
                tv = [(m, tag) for m, tag in tv if has_path(ldoc, m["path"]) or "rename" not in m and "delete" not in m and has_path(ldoc, m["path"][:-1])]
                tv = [(m, tag) for m, tag in tv if m["path"][0] != "release"]
                if tv:
                    m, tag = rng.choice(tv)
                    return mk([m], "legacy-" + tag, "reject")
            kind = "special"
        if kind == "special":
            sp = legacy_special_mods(fmt, ldoc, ver, rng, T)
            if fmt in JSON_FORMATS and not (sp and rng.random() < 0.6):       # what only the older readers do comes first
                old_src = fmt == "images" and L.vt(ver) <= (1, 1)       # at <= 1.1 a cell keyed `src` is legal: its images are re-filed
                sp += [([m], tag, "reject") for m, tag in special_mods(fmt, ldoc, rng, T) if not (old_src and tag == "cell-arch:src")]
            if fmt == "composeinfo" and L.vt(ver) >= (1, 0) and rng.random() < 0.3:
                sp = cycle_mods(ldoc)
            if sp:
                ms, tag, expect = rng.choice(sp)
                return mk(ms, tag if tag.startswith("legacy-") or tag.startswith("noheader-") else "legacy-" + tag, expect)
        return mk([], "legacy-valid", "accept")

    # ---------------------------------------------------------------------------- real
    def final_doc(self, case):
        a = case["args"]
        doc = a["doc"]
        for m in a["mods"]:
            try:
                doc = apply_docmod(doc, m)
            except (KeyError, IndexError, TypeError):
                return None
        return doc

    def real(self, case):
        a = case["args"]
        fmt = a["fmt"]
        doc = self.final_doc(case)
        if doc is None:
            return {"loads": "MOD-NA"}
        text = to_text(fmt, doc)
        model_doc = doc
        if fmt == "treeinfo":
            try:
                model_doc = parse_ini(text)
            except Exception as e:   # noqa
                model_doc = None
        if fmt == "discinfo":
            model_doc = [l.strip() for l in io.StringIO(text).readlines()]
        self._cache[checklib.key_of(case)] = model_doc
        obj = V.new(fmt)
        if a.get("preload") == "valid-document-first":
            pre = V.outcome(obj.loads, to_text(fmt, a["doc"]))
            if "err" in pre:
                return {"loads": "MOD-NA"}
        elif a.get("preload") == "invalid-document-first":
            bad = apply_docmod(a["doc"], {"path": [0], "value": "not-a-number"} if fmt == "discinfo" else {"path": ["payload", "compose", "date"], "value": "2015"})
            pre = V.outcome(obj.loads, to_text(fmt, bad))
            if "ok" in pre:
                return {"loads": "MOD-NA"}
        r = self.read(obj, text, a.get("via"))
        if "err" in r:
            return {"loads": r["err"]}
        # a successful load: every part of the object must satisfy the catalogue (spec side, not the library's validators)
        T = self.T()
        bad, bad_lenient = [], []
        for pth, cls, snap in C06.written_snapshots(fmt, obj):
            v = R.violated(cls, snap, T)
            if v:
                bad.append([pth, cls, v])
            if R.violated(cls, snap, T, lenient=True):
                bad_lenient.append(pth)
        out = {"loads": "ok", "violations": bad, "violations_lenient": bad_lenient}
        if a.get("version") is not None:
            # what was loaded from an older document can be written: `dumps()` raises no rule violation (ValueError / TypeError)
            w = V.outcome(obj.dumps)
            out["dumps"] = "ok" if "ok" in w else w["err"]
            out["top_level_variants"] = len(getattr(getattr(obj, "variants", None), "variants", {}) or {}) if fmt in ("composeinfo", "treeinfo") else None
        return out

    def read(self, obj, text, via):
        """load()/loads() through one of the documented entry points"""
        if via in (None, "loads"):
            return V.outcome(obj.loads, text)
        import io, os, tempfile
        if via == "load-fileobj":
            return V.outcome(obj.load, io.StringIO(text))
        d = tempfile.mkdtemp(prefix="c07-")
        path = os.path.join(d, "in")
        try:
            with open(path, "w") as f:
                f.write(text)
            return V.outcome(obj.load, path)
        finally:
            try:
                os.unlink(path); os.rmdir(d)
            except OSError:
                pass

    # ---------------------------------------------------------------------------- model
    def model_requests(self, case):
        md = self._cache.get(checklib.key_of(case))
        if md is None:
            return []
        return [{"op": "c07_loads", "args": {"fmt": case["args"]["fmt"], "doc": md}}]

    def model_result(self, case, outs):
        o = outs[0]
        if "front" in o:
            return "front-ok"
        return "ok" if "ok" in o else o.get("err")

    def compare(self, case, real_out, model_out):
        if real_out["loads"] == "MOD-NA" or model_out in ("Other", "front-ok"):
            self.outside += 1
            if real_out["loads"] != "MOD-NA":
                a = case["args"]
                ob = self.__dict__.setdefault("outside_by", {})
                kk = "%s/%s/%s/%s" % (a["fmt"], a.get("version", "current"), a["tag"].split(":")[0], "ok" if real_out["loads"] == "ok" else "err")
                ob[kk] = ob.get(kk, 0) + 1
            return None
        r = "ok" if real_out["loads"] == "ok" else "err"
        m = "ok" if model_out == "ok" else "err"
        if r != m:
            return {"real": real_out["loads"], "model": model_out}
        return None

    # ---------------------------------------------------------------------------- oracle
    def trailing_nl(self, case):
        return any(isinstance(m.get("value"), str) and m["value"].endswith("\n") for m in case["args"]["mods"])

    def oracle(self, case, real_out):
        a = case["args"]
        lo = real_out["loads"]
        if lo == "MOD-NA":
            return None
        if lo == "ok":
            if real_out["violations"]:
                only_nl = not real_out["violations_lenient"]
                return {"observed": {"loads": "ok", "violations": real_out["violations"][:3], "only_trailing_newline": only_nl, "mods": a["mods"], "preload": a.get("preload")},
                        "required": "everything obtained from a successful load satisfies the catalogue", "kind": "loaded-invalid"}
            if a["expect"] == "reject":
                return {"observed": {"loads": "ok", "only_trailing_newline": self.trailing_nl(case), "mods": a["mods"], "tag": a["tag"], "preload": a.get("preload"),
                                     "version": a.get("version")},
                        "required": "load/loads raises: " + a["tag"], "kind": "accepted-invalid"}
            if real_out.get("dumps") in ("ValueError", "TypeError"):
                return {"observed": {"loads": "ok", "dumps": real_out["dumps"], "version": a.get("version"), "mods": a["mods"], "tag": a["tag"],
                                     "only_trailing_newline": self.trailing_nl(case)},
                        "required": "an object loaded from an older document satisfies the constraints writing enforces: dumps() does not refuse it",
                        "kind": "loaded-not-writable"}
            return None
        if a["expect"] == "accept":
            return {"observed": {"loads": lo, "mods": a["mods"], "tag": a["tag"]}, "required": "a valid document loads", "kind": "refused-valid"}
        return None

    def nontrivial(self, case, real_out):
        return real_out["loads"] != "MOD-NA"

    def stats(self, case, real_out, dist):
        a = case["args"]
        k = "%s/%s/%s" % (a["fmt"], a["tag"].split(":")[0], "ok" if real_out["loads"] == "ok" else ("err" if real_out["loads"] != "MOD-NA" else "n/a"))
        if a.get("preload"):
            dist["preloaded"] = dist.get("preloaded", 0) + 1
        if a.get("version") is not None:
            lv = dist.setdefault("legacy_versions", {})
            kk = "%s/%s/%s" % (a["fmt"], a["version"], "ok" if real_out["loads"] == "ok" else ("err" if real_out["loads"] != "MOD-NA" else "n/a"))
            lv[kk] = lv.get(kk, 0) + 1
            if real_out.get("dumps") not in (None, "ok"):
                dd = dist.setdefault("legacy_loaded_dumps_refused", {})
                dd[real_out["dumps"]] = dd.get(real_out["dumps"], 0) + 1
            dist["legacy_skipped"] = dict(getattr(self, "legacy_skipped", {}))
        if a["tag"].startswith("cycle:unreachable") or a["tag"].startswith("legacy-cycle:unreachable"):
            cu = dist.setdefault("unreachable_cycle_outcome", {})
            cu[real_out["loads"]] = cu.get(real_out["loads"], 0) + 1
        dist[k] = dist.get(k, 0) + 1
        if real_out["loads"] not in ("ok", "MOD-NA"):
            d = dist.setdefault("exception_classes", {})
            d[real_out["loads"]] = d.get(real_out["loads"], 0) + 1
        dist["outside_model"] = self.outside
        dist["outside_model_by"] = dict(getattr(self, "outside_by", {}))
        dist["base_document_not_loadable"] = getattr(self, "unloadable", 0)
        v = dist.setdefault("via", {}); v[a.get("via", "loads")] = v.get(a.get("via", "loads"), 0) + 1

    def shrink_candidates(self, case):
        return []


PROP = C07()

MANIFEST = dict(
    technique="Lean 4 proof over a fill+checks model of loads(): validate() placement in every section reader read from the regenerated call structure (decide), header version/type gate from the regenerated gate, rule catalogue inclusion (C06); differential correspondence of the ok/err outcome; oracle on the real library with document corruptions",
    text="C07_flags: every section reader ends by validating what it filled and loads() validates the top-level object (decide on Generated/Structure.lean). C07_legacy_dispatch(_add/_treeinfo): every legacy reader is reached only through its class's dispatcher under the generated gate and the dispatcher validates after the dispatch; rpms deserialize_0_3 and images _add_1_1 file through add. C07_gates_total / C07_ti_gates_total: every gate has a verdict for every version. C07_sound_<format>_all_versions (composeinfo, images, rpms, treeinfo): loads d = ok x for a document of ANY format version (and a treeinfo without header) => every part of x satisfies the catalogue; rpms: a <= 0.3 manifest was accepted entry by entry by the add model. C07_compose_legacy_decoded, C07_required_product, kernel-evaluated witnesses for 0.2 composeinfo / 0.3 rpms / header-less and 0.3 treeinfo. C07_sound_<format>: loads d = ok x => every part of x satisfies the catalogue (all seven formats; composeinfo: every variant of the forest rebuilt from the document at any depth; treeinfo: every section and variant). C07_header: a successful load has a version matching ^\\d+\\.\\d+$ and, when the generated gate (>= (1,1)) holds, the class's own type. C07_gate_boundary: the gate is exactly >= (1,1). C07_required_*: deleting header/version/type(>=1.1)/payload/compose/compose keys/payload table yields an error.",
    note="Only ok/err is observed (any exception class). The load models are total over header versions (legacy-specific steps are C05's models). Known finding F15 (trailing line feed accepted by `$`).",
    ref="7/C07")
