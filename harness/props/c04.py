"""C04 - treeinfo and discinfo survive a write/read cycle unchanged."""
import copy, json
import checklib
from checklib import Prop
from formats import treeinfo as TF
from formats import discinfo as DF
import ini_diff


def strip_parent(v):
    v = dict(v)
    v.pop("parent", None)
    v["variants"] = [strip_parent(c) for c in v["variants"]]
    return v


def no_parent(spec):
    return dict(spec, variants=[strip_parent(v) for v in spec["variants"]])


class C04(Prop):
    id = "C04"
    lean_module = "ProductMD.Properties.C04"
    quick_budget = 900
    thorough_budget = 30000
    rule = ("trees generated per the quantifier (binary/src, layered, 1-4 top-level variants incl. dashed UIDs filed under the UID, "
            "children of every type to depth 3, any subset of the seven path kinds, mixed-case option names, several platforms, "
            "integer timestamps up to 2^53, optional stage2/media/checksums) and discinfo files (timestamps from random 64-bit "
            "patterns, descriptions, ALL / integer lists): real dumps bytes = IniText.render of the model document, real loads "
            "snapshot = model = documented normalisation of the input, second dump identical, every section/option the format "
            "prescribes present (independent INI reader); non-trivial = distinct inputs the library agreed to write")
    assumptions = ["the reader/writer models of Model/IniParse.lean are CPython's configparser as SortedConfigParser configures it "
                   "(parse(render d) = d is PROVED for the models, Proofs/IniRoundTrip.lean + Proofs/IniTextTie.lean; the models are "
                   "compared with the real parser on random texts and documents in every run: extra_checks)",
                   "float(repr(x)) == x for finite x and int(float(str(n))) == n for |n| <= 2^53 (CPython; explicit hypotheses of the "
                   "theorems, evaluated by CPython itself for the driver)",
                   "Python dicts are modelled as association lists; theorems are stated for the sorted representative, "
                   "independence of the bytes from the insertion order is C08"]
    partial = {}

    # ------------------------------------------------------------------ generators
    def cases(self, rng, tier, budget):
        # regions covered by a known finding are visited a fixed small number of times (the pipeline stops
        # consuming cases after 50 failures, known or not), everything else scales with the budget
        n_tree = budget * 2 // 3
        edge_left, by_id_left, disc_edge_left = 12, 12, 8
        for i in range(n_tree):
            if edge_left and rng.random() < 0.04:
                edge_left -= 1
                yield self.edge_tree(rng, tier)
                continue
            by_id = 0.0
            if by_id_left and rng.random() < 0.1:
                by_id = 1.0
            spec, mv = TF.gen(rng, tier, dashed_by_id=by_id)
            if any(v["key"] != v["uid"] for v in spec["variants"]):
                by_id_left -= 1
            yield {"op": "tree", "args": {"spec": spec, "main_variant": mv}}
        for i in range(budget - n_tree):
            spec = DF.gen(rng, tier)
            if disc_edge_left and rng.random() < 0.06:
                disc_edge_left -= 1
                spec["description"] = rng.choice([" padded ", "trailing ", "\"one-sided", "it's'", "\tx"])
            yield {"op": "disc", "args": {"spec": spec}}

    def edge_tree(self, rng, tier):
        """regions where the proof needs a hypothesis the quantifier does not obviously grant"""
        spec, mv = TF.gen(rng, tier)
        kind = rng.choice(["ts", "top-addon", "platform-suffix"])
        if kind == "ts":
            spec["tree"]["build_timestamp"] = rng.choice([2 ** 53 + 1, -(2 ** 53) - 1, 10 ** 30, 2 ** 60 + 1, 2 ** 64 + 12345])
        elif kind == "top-addon":
            spec["variants"][0]["type"] = "addon"
        else:
            arch = spec["tree"]["arch"]
            p = "xen-" + arch
            spec["tree"]["platforms"] = sorted(set(spec["tree"]["platforms"]) | {p})
            spec["images"].append([p, [["kernel", "images/xen/vmlinuz"]]])
        return {"op": "tree", "args": {"spec": spec, "main_variant": mv}}

    # ------------------------------------------------------------------ real side
    def real(self, case):
        a = case["args"]
        if case["op"] == "ini_parse":
            return ini_diff.real_parse(a["text"])
        if case["op"] == "ini_render":
            try:
                return {"ok": ini_diff.real_render(a["doc"])}
            except Exception as e:  # noqa
                return {"err": type(e).__name__}
        if case["op"] == "disc":
            try:
                di = DF.build(a["spec"])
                text = DF.dumps(di)
            except Exception as e:  # noqa
                return {"dump": {"err": TF.err_name(e)}}
            out = {"dump": {"ok": text}}
            try:
                d2 = DF.loads(text)
                out["load"] = {"ok": DF.snap(d2)}
                out["dump2"] = TF.guarded(DF.dumps, d2)
            except Exception as e:  # noqa
                out["load"] = {"err": TF.err_name(e)}
            return out
        try:
            ti = TF.build(a["spec"])
        except Exception as e:  # noqa
            return {"build": {"err": TF.err_name(e)}}
        out = {"dump": TF.guarded(TF.dumps, ti, a.get("main_variant"))}
        if "ok" not in out["dump"]:
            return out
        text = out["dump"]["ok"]
        out["doc"] = TF.guarded(TF.read_ini, text)
        try:
            t2 = TF.loads(text)
            out["load"] = {"ok": TF.snap(t2)}
            out["dump2"] = TF.guarded(TF.dumps, t2, a.get("main_variant"))
        except Exception as e:  # noqa
            out["load"] = {"err": TF.err_name(e)}
        return out

    # ------------------------------------------------------------------ model side
    def model_requests(self, case):
        a = case["args"]
        if case["op"] in ("ini_parse", "ini_render"):
            return []
        if case["op"] == "disc":
            return [{"op": "di_cycle", "args": {"spec": DF.model_spec(a["spec"]), "floats": DF.floats_for(a["spec"])}}]
        return [{"op": "ti_cycle", "args": {"spec": a["spec"], "main_variant": a.get("main_variant"), "floats": TF.floats_for(a["spec"])}}]

    def model_result(self, case, outs):
        return outs[0]

    def compare(self, case, real_out, model_out):
        if "build" in real_out:
            return None
        r, m = {}, {}
        r["dump"], m["dump"] = real_out["dump"], model_out.get("dump")
        if "ok" in real_out["dump"] and "ok" in (model_out.get("dump") or {}):
            if case["op"] == "disc":
                rl = real_out.get("load", {})
                r["load"] = {"ok": DF.model_spec(rl["ok"])} if "ok" in rl else rl
                m["load"] = model_out.get("load")
                if "ok" in rl:
                    r["dump2"], m["dump2"] = real_out.get("dump2"), model_out.get("dump2")
            else:
                rl, ml = real_out.get("load", {}), model_out.get("load") or {}
                r["load"] = no_parent(rl["ok"]) if "ok" in rl else rl
                m["load"] = TF.canon_spec(ml["ok"], with_parent=False) if "ok" in ml else ml
                if "ok" in rl:
                    r["dump2"], m["dump2"] = real_out.get("dump2"), model_out.get("dump2")
                # assumptions about the reader, validated on this document
                mld = model_out.get("load_doc") or {}
                r["reader: load via text = load via document"] = True
                m["reader: load via text = load via document"] = (
                    json.dumps(mld, sort_keys=True) == json.dumps(ml, sort_keys=True))
                if model_out.get("representable"):
                    r["reader: parse(render d) = canon d"] = True
                    m["reader: parse(render d) = canon d"] = bool(model_out.get("parse_is_canon"))
        if checklib.canon(r) != checklib.canon(m):
            keys = [k for k in r if checklib.canon(r.get(k)) != checklib.canon(m.get(k))]
            return {"real": dict((k, r.get(k)) for k in keys), "model": dict((k, m.get(k)) for k in keys)}
        return None

    # ------------------------------------------------------------------ the property on the real library
    def oracle(self, case, real_out):
        if case["op"] in ("ini_parse", "ini_render"):
            drv = checklib.Driver()
            if case["op"] == "ini_parse":
                m = drv.call([{"op": "ini_parse", "args": case["args"]}])[0]
                r = real_out
                if "err" in r:
                    r = {"err": ini_diff.ERRMAP.get(r["err"], r["err"])}
                else:
                    r = {"ok": ini_diff.sort_doc(r["ok"])}
                    m = {"ok": ini_diff.sort_doc(m["ok"])} if "ok" in m else m
            else:
                m = {"ok": drv.call([{"op": "ini_render_sorted", "args": case["args"]}])[0]}
                r = real_out
            return None if r == m else {"observed": {"real": r}, "required": {"model": m}, "kind": "text-model-vs-cpython"}
        if "build" in real_out or "ok" not in real_out.get("dump", {}):
            return None                      # the library does not agree to write this object
        a = case["args"]
        text = real_out["dump"]["ok"]
        load = real_out.get("load", {})
        if "ok" not in load:
            return {"observed": {"dumps": text, "loads": load}, "required": "the written file can be read back", "kind": "reload-refused"}
        if case["op"] == "disc":
            want = a["spec"]
            if checklib.canon(load["ok"]) != checklib.canon(want):
                return {"observed": load["ok"], "required": want, "kind": "facts-differ"}
        else:
            want = TF.canon_spec(TF.norm_spec(a["spec"]))
            if checklib.canon(load["ok"]) != checklib.canon(want):
                diff = [k for k in want if checklib.canon(load["ok"].get(k)) != checklib.canon(want.get(k))]
                return {"observed": dict((k, load["ok"].get(k)) for k in diff), "required": dict((k, want.get(k)) for k in diff),
                        "kind": "facts-differ"}
        if real_out.get("dump2") != real_out["dump"]:
            return {"observed": {"second": real_out.get("dump2")}, "required": {"first": text}, "kind": "bytes-differ"}
        if case["op"] == "tree":
            doc = real_out.get("doc", {})
            if "ok" not in doc:
                return {"observed": {"independent reader": doc, "text": text}, "required": "sections of `key = value` lines", "kind": "file-layout"}
            got = dict((k, v) for k, v in doc["ok"].items() if k != "general")
            exp = TF.expected_doc(a["spec"], a.get("main_variant"))
            if got != exp:
                secs = sorted(k for k in set(got) | set(exp) if got.get(k) != exp.get(k))
                return {"observed": dict((k, got.get(k)) for k in secs), "required": dict((k, exp.get(k)) for k in secs), "kind": "file-facts"}
        return None

    def nontrivial(self, case, real_out):
        if case["op"] in ("ini_parse", "ini_render"):
            return True
        return "ok" in real_out.get("dump", {})

    def stats(self, case, real_out, dist):
        op = case["op"]
        if op in ("ini_parse", "ini_render"):
            return
        d = dist.setdefault(op, {"cases": 0, "written": 0, "refused": 0})
        d["cases"] += 1
        if "ok" in real_out.get("dump", {}):
            d["written"] += 1
        else:
            d["refused"] += 1
        if op == "tree":
            s = case["args"]["spec"]
            allv = list(TF.all_variants(s["variants"]))
            for k, v in (("src", s["tree"]["arch"] == "src"), ("layered", s["is_layered"]), ("dashed_top", any(x["uid"] != x["id"] for x in s["variants"])),
                         ("children", len(allv) > len(s["variants"])), ("depth3", any(c["variants"] for v_ in s["variants"] for c in v_["variants"])),
                         ("images", bool(s["images"])), ("stage2", bool(s["stage2"]["mainimage"])), ("media", s["media"]["discnum"] is not None),
                         ("checksums", bool(s["checksums"])), ("main_variant", case["args"].get("main_variant") is not None),
                         ("tops>=2", len(s["variants"]) >= 2)):
                if v:
                    d[k] = d.get(k, 0) + 1
            for x, _ in allv:
                if _ is not None:
                    d["child_" + x["type"]] = d.get("child_" + x["type"], 0) + 1
        else:
            k = "ALL" if case["args"]["spec"]["disc_numbers"] == ["ALL"] else "numbers"
            d[k] = d.get(k, 0) + 1

    # ------------------------------------------------------------------ the text layer stays tied to CPython
    def gen_doc(self, rng):
        names = ["s", "t", "general", "a]b", " pad ", "x y", "images-x86_64", "variant-A-b", "S", "é"]
        keys = ["a", "key", "Key", "a b", "; WARNING.0", "#c", "x.y", "UP", "é", "k%", "[x"]
        vals = ["", "v", "a = b", "x: y", "two\nlines", " lead", "trail ", "%(a)s", "100%", "%%", "é ü", "# v", "; v", "[v]", "\tt"]
        doc = []
        for s_ in rng.sample(names, rng.randint(0, 4)):
            doc.append([s_, [[k, rng.choice(vals)] for k in rng.sample(keys, rng.randint(0, 4))]])
        return doc

    def extra_checks(self, ctx):
        drv, rng, tier = ctx["driver"], ctx["rng"], ctx["tier"]
        if drv is None:
            return []
        fails = []
        n_text = 300 if tier == "quick" else 6000
        n, ok, bad = ini_diff.run(drv, rng, n_text)
        ctx["dist"]["ini_reader_vs_cpython"] = {"texts": n, "accepted": ok, "disagreements": len(bad)}
        for b in bad[:2]:
            fails.append({"case": {"op": "ini_parse", "args": {"text": b["text"]}}, "observed": {"real": b["real"]},
                          "required": {"model": b["model"]}, "kind": "reader-model-vs-cpython"})
        docs = [self.gen_doc(rng) for _ in range(150 if tier == "quick" else 3000)]
        outs = drv.call([{"op": "ini_render_sorted", "args": {"doc": d}} for d in docs])
        nbad = 0
        for d, o in zip(docs, outs):
            try:
                real = ini_diff.real_render(d)
            except Exception as e:  # noqa  (e.g. interpolation refusing a value)
                real = {"err": type(e).__name__}
            if real != o:
                nbad += 1
                if nbad <= 2:
                    fails.append({"case": {"op": "ini_render", "args": {"doc": d}}, "observed": {"real": real}, "required": {"model": o},
                                  "kind": "writer-model-vs-cpython"})
        ctx["dist"]["ini_writer_vs_cpython"] = {"documents": len(docs), "disagreements": nbad}
        return fails

    # ------------------------------------------------------------------ shrinking
    def shrink_candidates(self, case):
        if case["op"] != "tree":
            return []
        out = []
        s = case["args"]["spec"]

        def variant(mut):
            c = copy.deepcopy(case)
            try:
                mut(c["args"]["spec"], c["args"])
            except Exception:
                return
            if c != case:
                out.append(c)
        if len(s["variants"]) > 1:
            for i in range(len(s["variants"])):
                variant(lambda sp, a, i=i: (sp["variants"].pop(i), a.__setitem__("main_variant", None)))
        variant(lambda sp, a: a.__setitem__("main_variant", None))
        for i, v in enumerate(s["variants"]):
            if v["variants"]:
                variant(lambda sp, a, i=i: sp["variants"][i].__setitem__("variants", []))
                for j in range(len(v["variants"])):
                    variant(lambda sp, a, i=i, j=j: sp["variants"][i]["variants"].pop(j))
                    variant(lambda sp, a, i=i, j=j: sp["variants"][i]["variants"][j].__setitem__("variants", []))
            if v["paths"]:
                variant(lambda sp, a, i=i: sp["variants"][i].__setitem__("paths", []))
        for k, empty in (("images", []), ("checksums", [])):
            if s[k]:
                variant(lambda sp, a, k=k, empty=empty: sp.__setitem__(k, empty))
        if s["stage2"]["mainimage"] or s["stage2"]["instimage"]:
            variant(lambda sp, a: sp.__setitem__("stage2", {"mainimage": None, "instimage": None}))
        if s["media"]["discnum"] is not None:
            variant(lambda sp, a: sp.__setitem__("media", {"discnum": None, "totaldiscs": None}))
        if s["is_layered"]:
            variant(lambda sp, a: (sp.__setitem__("is_layered", False), sp.__setitem__("base_product", None)))
        if s["release"]["name"] != "Fedora":
            variant(lambda sp, a: sp["release"].__setitem__("name", "Fedora"))
        if len(s["tree"]["platforms"]) > 0 and not s["images"]:
            variant(lambda sp, a: sp["tree"].__setitem__("platforms", []))
        return out


PROP = C04()

MANIFEST = dict(
    technique="Lean 4 proof over an executable model of the treeinfo writer/reader on INI documents and of the discinfo line format: "
              "lookup-form specification of the written document (induction over the variant forest), the assembled current-format reader "
              "proved against any view of that specification, text layer through the proved parse/render model of configparser; byte-exact "
              "differential correspondence and a direct round-trip oracle on the real library; reader/writer text models compared with "
              "CPython on random texts in every run",
    text="C04_tree_readback: serialize t = ok d -> deserialize d = ok (norm t) for forests of any depth and width, every child type, any "
         "number of platforms/images/checksums; C04_tree_fixpoint / C04_tree_bytes: on a normal-form tree the cycle is the identity and the "
         "second dumps is byte-identical; C04_tree_text: loads(dumps t) = norm t through the text (comment-named ; WARNING options dropped by "
         "the reader: proved); C04_disc_readback: loads(dumps x) = x on the text, decimal and line joins proved.",
    note="Hypotheses (all decidable, each with a witness or justification): integer timestamp exact as a double (F17), UIDs/platforms free "
         "of ',' and UIDs unique, no top-level addon (F24), no platform '<x>-<arch>' (F25), checksum type/value free of ':', dict keys "
         "distinct, the normal form passes the reader's validators (derived for normal-form trees), representability of the written document "
         "(Boolean criterion proved sufficient). F8 (top-level filed under id) is inside norm: readback holds, fixpoint excludes it. "
         "Independence of the bytes from dict insertion order is C08.",
    ref="7/C04")
