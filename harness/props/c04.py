"""C04 - treeinfo and discinfo survive a write/read cycle unchanged."""
import copy, json
import checklib
from checklib import Prop
from formats import treeinfo as TF
from formats import discinfo as DF
import ini_diff


def strip_parent(v):
    v = dict(v)
    v.pop("parent", None)
    v["variants"] = [strip_parent(c) for c in v["variants"]]
    return v


def no_parent(spec):
    return dict(spec, variants=[strip_parent(v) for v in spec["variants"]])


class C04(Prop):
    id = "C04"
    lean_module = "ProductMD.Properties.C04"
    quick_budget = 900
    thorough_budget = 30000
    rule = ("trees generated per the quantifier (binary/src, layered, 1-4 top-level variants incl. dashed UIDs filed under the UID, "
            "children of every type to depth 3, any subset of the seven path kinds, mixed-case option names, several platforms, "
            "integer timestamps up to 2^53, optional stage2/media/checksums) and discinfo files (timestamps from random 64-bit "
            "patterns, descriptions, ALL / integer lists): real dumps bytes = IniText.render of the model document, real loads "
            "snapshot = model = documented normalisation of the input, second dump identical, every section/option the format "
            "prescribes present (independent INI reader); non-trivial = distinct inputs the library agreed to write")
    assumptions = ["the reader/writer models of Model/IniParse.lean are CPython's configparser as SortedConfigParser configures it "
                   "(parse(render d) = d is PROVED for the models, Proofs/IniRoundTrip.lean + Proofs/IniTextTie.lean; the models are "
                   "compared with the real parser on random texts and documents in every run: extra_checks)",
                   "float(repr(x)) == x for finite x and int(float(str(n))) == n for |n| <= 2^53 (CPython; explicit hypotheses of the "
                   "theorems, evaluated by CPython itself for the driver)",
                   "Python dicts are modelled as association lists; theorems are stated for the sorted representative, "
                   "independence of the bytes from the insertion order is C08"]
    partial = {}

    # ------------------------------------------------------------------ generators
    def cases(self, rng, tier, budget):
        # regions covered by a known finding are visited a fixed small number of times (the pipeline stops
        # consuming cases after 50 failures, known or not), everything else scales with the budget
        n_tree = budget * 2 // 3
        edge_left, by_id_left, disc_edge_left = 12, 12, 8
        # 1. every named class of the audit, round-robin (docs/audit_C04.md), alternating the sequence flags
        rounds = 5 if tier == "quick" else 60
        n_cls = 0
        for rnd in range(rounds):
            for ci, cls in enumerate(TF.CLASSES):
                if cls.endswith("!") and rnd >= 2:
                    continue
                spec, mv = TF.gen_class(rng, cls, tier)
                args = {"spec": spec, "main_variant": mv, "cls": cls}
                if not cls.endswith("!"):
                    args["seq"] = self.gen_seq(rng, spec, (rnd + ci) % 6)
                n_cls += 1
                yield {"op": "tree", "args": args}
        # 2. random trees
        for i in range(max(0, n_tree - n_cls)):
            if edge_left and rng.random() < 0.04:
                edge_left -= 1
                yield self.edge_tree(rng, tier)
                continue
            by_id = 0.0
            if by_id_left and rng.random() < 0.1:
                by_id = 1.0
            spec, mv = TF.gen(rng, tier, dashed_by_id=by_id)
            if any(v["key"] != v["uid"] for v in spec["variants"]):
                by_id_left -= 1
            args = {"spec": spec, "main_variant": mv}
            if rng.random() < 0.4:
                args["seq"] = self.gen_seq(rng, spec, rng.randrange(6))
            yield {"op": "tree", "args": args}
        # 3. discinfo: every pool entry round-robin, then random
        n_disc = budget - max(n_tree, n_cls)
        for i in range(n_disc):
            spec = DF.gen(rng, tier)
            if i < len(DF.DESCRIPTIONS):
                spec["description"] = DF.DESCRIPTIONS[i]
            elif i < len(DF.DESCRIPTIONS) + len(DF.DISC_POOL):
                spec["disc_numbers"] = list(DF.DISC_POOL[i - len(DF.DESCRIPTIONS)])
            elif i < len(DF.DESCRIPTIONS) + len(DF.DISC_POOL) + len(DF.SIMPLE_TS):
                spec["timestamp"] = {"$float": repr(DF.SIMPLE_TS[i - len(DF.DESCRIPTIONS) - len(DF.DISC_POOL)])}
            elif disc_edge_left and rng.random() < 0.06:
                disc_edge_left -= 1
                spec["description"] = rng.choice([" padded ", "trailing ", "\"one-sided", "it's'", "\tx"])
            args = {"spec": spec}
            if i % 3 == 0:
                args["seq"] = {"readonly": True, "interleave": i % 2 == 0, "repeat": True}
            yield {"op": "disc", "args": args}

    def gen_seq(self, rng, spec, k):
        """what else happens to the object around the dump (docs/GENERATOR_AUDIT.md section B)"""
        seq = {"style": k % 2, "interleave": k in (1, 4), "readonly": k in (0, 2, 3), "repeat": True}
        if k == 2:
            seq["fail_first"] = rng.choice(["abs-stage2", "media-half", "abs-checksum", "abs-image", "layered-no-base"])
        if k in (3, 4):
            seq["update"] = TF.gen_update(rng, spec)
            seq["update_when"] = "before-load" if k == 3 else "after-load"
        return seq

    def edge_tree(self, rng, tier):
        """regions where the proof needs a hypothesis the quantifier does not obviously grant"""
        spec, mv = TF.gen(rng, tier)
        kind = rng.choice(["ts", "top-addon", "platform-suffix"])
        if kind == "ts":
            spec["tree"]["build_timestamp"] = rng.choice([2 ** 53 + 1, -(2 ** 53) - 1, 10 ** 30, 2 ** 60 + 1, 2 ** 64 + 12345])
        elif kind == "top-addon":
            spec["variants"][0]["type"] = "addon"
        else:
            arch = spec["tree"]["arch"]
            p = "xen-" + arch
            spec["tree"]["platforms"] = sorted(set(spec["tree"]["platforms"]) | {p})
            spec["images"].append([p, [["kernel", "images/xen/vmlinuz"]]])
        return {"op": "tree", "args": {"spec": spec, "main_variant": mv}}

    # ------------------------------------------------------------------ real side
    def real(self, case):
        a = case["args"]
        if case["op"] == "ini_parse":
            return ini_diff.real_parse(a["text"])
        if case["op"] == "ini_render":
            try:
                return {"ok": ini_diff.real_render(a["doc"])}
            except Exception as e:  # noqa
                return {"err": type(e).__name__}
        if case["op"] == "disc":
            seq = a.get("seq") or {}
            pre = {}
            try:
                di = DF.build(a["spec"])
                if seq.get("interleave"):
                    TF.guarded(DF.dumps, DF.build(dict(a["spec"], description="decoy", disc_numbers=["ALL"])))
                if seq.get("readonly"):
                    TF.guarded(di.validate)
                text = DF.dumps(di)
                if seq.get("repeat"):
                    pre["dump_twice_same"] = DF.dumps(di) == text
                    pre["state_after_dump_ok"] = checklib.canon(DF.snap(di)) == checklib.canon(a["spec"])
            except Exception as e:  # noqa
                return {"dump": {"err": TF.err_name(e)}}
            out = {"dump": {"ok": text}}
            if pre:
                out["pre"] = pre
            try:
                d2 = DF.loads(text)
                out["load"] = {"ok": DF.snap(d2)}
                out["dump2"] = TF.guarded(DF.dumps, d2)
            except Exception as e:  # noqa
                out["load"] = {"err": TF.err_name(e)}
            return out
        seq = a.get("seq") or {}
        mv = a.get("main_variant")
        try:
            ti = TF.build(dict(a["spec"], _style=seq.get("style", 0)))
        except Exception as e:  # noqa
            return {"build": {"err": TF.err_name(e)}}
        pre = {}
        want0 = checklib.canon(TF.canon_spec(a["spec"]))
        if seq.get("interleave"):
            # another object built, written and read in between: no state may leak between objects
            decoy = TF.build(self.decoy_spec())
            dtext = TF.guarded(TF.dumps, decoy, None)
            if "ok" in dtext:
                TF.guarded(TF.loads, dtext["ok"])
        if seq.get("readonly"):
            TF.read_only_calls(ti)
        if seq.get("fail_first"):
            pre["failed_first"] = self.fail_then_repair(ti, seq["fail_first"], mv)
        if seq:
            pre["state_ok"] = checklib.canon(TF.snap(ti)) == want0
        out = {"dump": TF.guarded(TF.dumps, ti, mv)}
        if seq.get("repeat") and "ok" in out["dump"]:
            pre["dump_twice_same"] = TF.guarded(TF.dumps, ti, mv) == out["dump"]
            pre["state_after_dump_ok"] = checklib.canon(TF.snap(ti)) == want0
        if seq.get("update") and seq.get("update_when") == "before-load" and "ok" in out["dump"]:
            pre["first_dump"] = out["dump"]["ok"]
            TF.apply_update(ti, seq["update"])
            out["dump"] = TF.guarded(TF.dumps, ti, mv)
        if pre:
            out["pre"] = pre
        if "ok" not in out["dump"]:
            return out
        text = out["dump"]["ok"]
        out["doc"] = TF.guarded(TF.read_ini, text)
        try:
            t2 = TF.loads(text)
            out["load"] = {"ok": TF.snap(t2)}
            out["dump2"] = TF.guarded(TF.dumps, t2, a.get("main_variant"))
            if seq.get("update") and seq.get("update_when") == "after-load":
                TF.apply_update(t2, seq["update"])
                out["dump3"] = TF.guarded(TF.dumps, t2, mv)
                if "ok" in out["dump3"]:
                    out["doc3"] = TF.guarded(TF.read_ini, out["dump3"]["ok"])
                    out["load3"] = TF.guarded(lambda: TF.snap(TF.loads(out["dump3"]["ok"])))
        except Exception as e:  # noqa
            out["load"] = {"err": TF.err_name(e)}
        return out

    _decoy = None

    def decoy_spec(self):
        if C04._decoy is None:
            import random
            C04._decoy = TF.gen_class(random.Random(7), "deep-all-child-types")[0]
        return C04._decoy

    def fail_then_repair(self, ti, kind, mv):
        """make the object invalid, let the dump fail, repair: the later dump must be the one of the original object"""
        undo = None
        if kind == "abs-stage2":
            old = ti.stage2.mainimage
            ti.stage2.mainimage = "/abs/stage2"
            undo = lambda: setattr(ti.stage2, "mainimage", old)
        elif kind == "media-half":
            old = (ti.media.discnum, ti.media.totaldiscs)
            ti.media.discnum, ti.media.totaldiscs = 1, None
            undo = lambda: (setattr(ti.media, "discnum", old[0]), setattr(ti.media, "totaldiscs", old[1]))
        elif kind == "abs-checksum":
            ti.checksums.checksums["/abs/path"] = ("md5", "0")
            undo = lambda: ti.checksums.checksums.pop("/abs/path")
        elif kind == "abs-image" and ti.images.images:
            p = sorted(ti.images.images)[0]
            ti.images.images[p]["__abs__"] = "/abs/image"
            undo = lambda: ti.images.images[p].pop("__abs__")
        elif kind == "layered-no-base" and not ti.release.is_layered and ti.base_product.name is None:
            ti.release.is_layered = True
            undo = lambda: setattr(ti.release, "is_layered", False)
        if undo is None:
            return "skipped"
        r = TF.guarded(TF.dumps, ti, mv)
        undo()
        return r.get("err", "no-error")


    # ------------------------------------------------------------------ model side
    def model_requests(self, case):
        a = case["args"]
        if case["op"] in ("ini_parse", "ini_render"):
            return []
        if case["op"] == "disc":
            return [{"op": "di_cycle", "args": {"spec": DF.model_spec(a["spec"]), "floats": DF.floats_for(a["spec"])}}]
        eff = self.effective(case)
        reqs = [{"op": "ti_cycle", "args": {"spec": TF.model_tree_spec(eff), "main_variant": a.get("main_variant"), "floats": TF.floats_for(eff)}}]
        e2 = self.effective_after_load(case)
        if e2 is not None:
            reqs.append({"op": "ti_cycle", "args": {"spec": TF.model_tree_spec(e2), "main_variant": a.get("main_variant"), "floats": TF.floats_for(e2)}})
        return reqs

    def effective(self, case):
        """the spec the checked dump is the dump of (after an in-place update before the load, if any)"""
        a = case["args"]
        seq = a.get("seq") or {}
        if seq.get("update") and seq.get("update_when") == "before-load":
            return TF.apply_update_spec(a["spec"], seq["update"])
        return a["spec"]

    def effective_after_load(self, case):
        a = case["args"]
        seq = a.get("seq") or {}
        if seq.get("update") and seq.get("update_when") == "after-load":
            return TF.apply_update_spec(TF.norm_spec(a["spec"]), seq["update"])
        return None

    def model_result(self, case, outs):
        o = outs[0]
        if len(outs) > 1 and isinstance(o, dict):
            o = dict(o, second=outs[1])
        return o

    def compare(self, case, real_out, model_out):
        if "build" in real_out:
            return None
        r, m = {}, {}
        r["dump"], m["dump"] = real_out["dump"], model_out.get("dump")
        if "ok" in real_out["dump"] and "ok" in (model_out.get("dump") or {}):
            if case["op"] == "disc":
                rl = real_out.get("load", {})
                r["load"] = {"ok": DF.model_spec(rl["ok"])} if "ok" in rl else rl
                m["load"] = model_out.get("load")
                if "ok" in rl:
                    r["dump2"], m["dump2"] = real_out.get("dump2"), model_out.get("dump2")
            else:
                rl, ml = real_out.get("load", {}), model_out.get("load") or {}
                r["load"] = no_parent(rl["ok"]) if "ok" in rl else rl
                m["load"] = TF.canon_spec(ml["ok"], with_parent=False) if "ok" in ml else ml
                if "ok" in rl:
                    r["dump2"], m["dump2"] = real_out.get("dump2"), model_out.get("dump2")
                if "dump3" in real_out and "second" in model_out:
                    r["dump3"], m["dump3"] = real_out["dump3"], model_out["second"].get("dump")
                # assumptions about the reader, validated on this document
                mld = model_out.get("load_doc") or {}
                r["reader: load via text = load via document"] = True
                m["reader: load via text = load via document"] = (
                    json.dumps(mld, sort_keys=True) == json.dumps(ml, sort_keys=True))
                if model_out.get("representable"):
                    r["reader: parse(render d) = canon d"] = True
                    m["reader: parse(render d) = canon d"] = bool(model_out.get("parse_is_canon"))
        if checklib.canon(r) != checklib.canon(m):
            keys = [k for k in r if checklib.canon(r.get(k)) != checklib.canon(m.get(k))]
            return {"real": dict((k, r.get(k)) for k in keys), "model": dict((k, m.get(k)) for k in keys)}
        return None

    # ------------------------------------------------------------------ the property on the real library
    def oracle(self, case, real_out):
        if case["op"] in ("ini_parse", "ini_render"):
            drv = checklib.Driver()
            if case["op"] == "ini_parse":
                m = drv.call([{"op": "ini_parse", "args": case["args"]}])[0]
                r = real_out
                if "err" in r:
                    r = {"err": ini_diff.ERRMAP.get(r["err"], r["err"])}
                else:
                    r = {"ok": ini_diff.sort_doc(r["ok"])}
                    m = {"ok": ini_diff.sort_doc(m["ok"])} if "ok" in m else m
            else:
                m = {"ok": drv.call([{"op": "ini_render_sorted", "args": case["args"]}])[0]}
                r = real_out
            return None if r == m else {"observed": {"real": r}, "required": {"model": m}, "kind": "text-model-vs-cpython"}
        if "build" in real_out or "ok" not in real_out.get("dump", {}):
            return None                      # the library does not agree to write this object
        a = case["args"]
        text = real_out["dump"]["ok"]
        load = real_out.get("load", {})
        pre = real_out.get("pre") or {}
        for flag, kind, req in (("state_ok", "state-changed", "building, read-only calls, a failed dump and another object in between leave the facts as put in"),
                                ("dump_twice_same", "repeat-dump-differs", "the same dump twice gives the same bytes"),
                                ("state_after_dump_ok", "dump-mutates", "a dump does not change the facts of the object")):
            if pre.get(flag) is False:
                return {"observed": {flag: False, "seq": dict((k, v) for k, v in (a.get("seq") or {}).items() if k != "update")}, "required": req, "kind": kind}
        if "ok" not in load:
            return {"observed": {"dumps": text, "loads": load}, "required": "the written file can be read back", "kind": "reload-refused"}
        if case["op"] == "disc":
            want = a["spec"]
            if checklib.canon(load["ok"]) != checklib.canon(want):
                return {"observed": load["ok"], "required": want, "kind": "facts-differ"}
        else:
            eff = self.effective(case)
            want = TF.canon_spec(TF.norm_spec(eff))
            if checklib.canon(load["ok"]) != checklib.canon(want):
                diff = [k for k in want if checklib.canon(load["ok"].get(k)) != checklib.canon(want.get(k))]
                return {"observed": dict((k, load["ok"].get(k)) for k in diff), "required": dict((k, want.get(k)) for k in diff),
                        "kind": "facts-differ"}
        if real_out.get("dump2") != real_out["dump"]:
            return {"observed": {"second": real_out.get("dump2")}, "required": {"first": text}, "kind": "bytes-differ"}
        if case["op"] == "tree":
            doc = real_out.get("doc", {})
            if "ok" not in doc:
                return {"observed": {"independent reader": doc, "text": text}, "required": "sections of `key = value` lines", "kind": "file-layout"}
            got = dict((k, v) for k, v in doc["ok"].items() if k != "general")
            exp = TF.expected_doc(self.effective(case), a.get("main_variant"))
            if got != exp:
                secs = sorted(k for k in set(got) | set(exp) if got.get(k) != exp.get(k))
                return {"observed": dict((k, got.get(k)) for k in secs), "required": dict((k, exp.get(k)) for k in secs), "kind": "file-facts"}
            e2 = self.effective_after_load(case)
            if e2 is not None:
                d3 = real_out.get("dump3", {})
                if "ok" not in d3:
                    return {"observed": {"dump after load and update": d3}, "required": "the updated object can be written", "kind": "update-after-load"}
                want3 = TF.canon_spec(TF.norm_spec(e2))
                l3 = real_out.get("load3", {})
                if "ok" not in l3 or checklib.canon(l3["ok"]) != checklib.canon(want3):
                    got3 = l3.get("ok") or {}
                    diff = [k for k in want3 if checklib.canon(got3.get(k) if isinstance(got3, dict) else None) != checklib.canon(want3.get(k))]
                    return {"observed": dict((k, got3.get(k) if isinstance(got3, dict) else l3) for k in diff) or l3,
                            "required": dict((k, want3.get(k)) for k in diff), "kind": "update-after-load"}
                doc3 = real_out.get("doc3", {}).get("ok", {})
                got3d = dict((k, v) for k, v in doc3.items() if k != "general")
                exp3 = TF.expected_doc(e2, a.get("main_variant"))
                if got3d != exp3:
                    secs = sorted(k for k in set(got3d) | set(exp3) if got3d.get(k) != exp3.get(k))
                    return {"observed": dict((k, got3d.get(k)) for k in secs), "required": dict((k, exp3.get(k)) for k in secs), "kind": "update-after-load"}
        return None

    def nontrivial(self, case, real_out):
        if case["op"] in ("ini_parse", "ini_render"):
            return True
        return "ok" in real_out.get("dump", {})

    def stats(self, case, real_out, dist):
        op = case["op"]
        if op in ("ini_parse", "ini_render"):
            return
        d = dist.setdefault(op, {"cases": 0, "written": 0, "refused": 0})
        d["cases"] += 1
        if "ok" in real_out.get("dump", {}):
            d["written"] += 1
        else:
            d["refused"] += 1
        if op == "tree":
            cls = case["args"].get("cls")
            if cls:
                dist.setdefault("classes", {})[cls] = dist.setdefault("classes", {}).get(cls, 0) + 1
            for k, v in (case["args"].get("seq") or {}).items():
                if v and k != "update":
                    key = "seq_%s" % (k if isinstance(v, bool) or k == "style" else "%s=%s" % (k, v))
                    d[key] = d.get(key, 0) + 1
            s = case["args"]["spec"]
            allv = list(TF.all_variants(s["variants"]))
            for k, v in (("src", s["tree"]["arch"] == "src"), ("layered", s["is_layered"]), ("dashed_top", any(x["uid"] != x["id"] for x in s["variants"])),
                         ("children", len(allv) > len(s["variants"])), ("depth3", any(c["variants"] for v_ in s["variants"] for c in v_["variants"])),
                         ("images", bool(s["images"])), ("stage2", bool(s["stage2"]["mainimage"])), ("media", s["media"]["discnum"] is not None),
                         ("checksums", bool(s["checksums"])), ("main_variant", case["args"].get("main_variant") is not None),
                         ("tops>=2", len(s["variants"]) >= 2)):
                if v:
                    d[k] = d.get(k, 0) + 1
            for x, _ in allv:
                if _ is not None:
                    d["child_" + x["type"]] = d.get("child_" + x["type"], 0) + 1
        else:
            k = "ALL" if case["args"]["spec"]["disc_numbers"] == ["ALL"] else "numbers"
            d[k] = d.get(k, 0) + 1

    # ------------------------------------------------------------------ the text layer stays tied to CPython
    def gen_doc(self, rng):
        names = ["s", "t", "general", "a]b", " pad ", "x y", "images-x86_64", "variant-A-b", "S", "é"]
        keys = ["a", "key", "Key", "a b", "; WARNING.0", "#c", "x.y", "UP", "é", "k%", "[x"]
        vals = ["", "v", "a = b", "x: y", "two\nlines", " lead", "trail ", "%(a)s", "100%", "%%", "é ü", "# v", "; v", "[v]", "\tt"]
        doc = []
        for s_ in rng.sample(names, rng.randint(0, 4)):
            doc.append([s_, [[k, rng.choice(vals)] for k in rng.sample(keys, rng.randint(0, 4))]])
        return doc

    def extra_checks(self, ctx):
        drv, rng, tier = ctx["driver"], ctx["rng"], ctx["tier"]
        if drv is None:
            return []
        fails = []
        # the adapter's tables against the tables regenerated from the source (equality, both inclusions)
        import json as _json, os as _os
        gen = _json.load(open(_os.path.join(checklib.ROOT, "lean", "generated.json")))["tables"]
        for name, mine in (("TREEINFO_PATH_FIELDS", TF.PATH_FIELDS), ("TREEINFO_VARIANT_TYPES", ["variant", "optional", "addon"])):
            if list(gen.get(name, [])) != list(mine):
                fails.append({"case": {"op": "table", "args": {"table": name}}, "observed": gen.get(name), "required": mine, "kind": "adapter-table"})
        # real files: dump(path) to a missing and to an existing destination, load(path): same bytes / facts as through StringIO
        import tempfile, shutil
        tmp = tempfile.mkdtemp(prefix="c04-")
        try:
            nfile = 0
            for i in range(12 if tier == "quick" else 200):
                inside = [c for c in TF.CLASSES if not c.endswith("!")]        # known-finding / refusal regions run in `cases`
                spec, mv = TF.gen_class(rng, inside[i % len(inside)], tier) if i % 2 else TF.gen(rng, tier)
                try:
                    ti = TF.build(spec)
                    text = TF.dumps(ti, mv)
                except Exception:  # noqa
                    continue
                path = _os.path.join(tmp, "treeinfo-%d" % i)
                if i % 3 == 0:
                    open(path, "w").write("[stale]\nold = content that is longer than nothing\n" * 50)
                try:
                    ti.dump(path, main_variant=mv)
                    on_disk = open(path, newline="").read()
                    t3 = TF.mod().TreeInfo()
                    t3.load(path)
                    same = on_disk == text and checklib.canon(TF.snap(t3)) == checklib.canon(TF.canon_spec(TF.norm_spec(spec)))
                except Exception as e:  # noqa
                    on_disk, same = {"err": TF.err_name(e)}, False
                nfile += 1
                if not same:
                    fails.append({"case": {"op": "tree", "args": {"spec": spec, "main_variant": mv}}, "observed": {"file": on_disk if isinstance(on_disk, dict) else on_disk[:400]},
                                  "required": {"dumps": text[:400]}, "kind": "file-vs-string"})
                    break
            ctx["dist"]["real_files"] = nfile
        finally:
            shutil.rmtree(tmp, ignore_errors=True)
        n_text = 300 if tier == "quick" else 6000
        n, ok, bad = ini_diff.run(drv, rng, n_text)
        ctx["dist"]["ini_reader_vs_cpython"] = {"texts": n, "accepted": ok, "disagreements": len(bad)}
        for b in bad[:2]:
            fails.append({"case": {"op": "ini_parse", "args": {"text": b["text"]}}, "observed": {"real": b["real"]},
                          "required": {"model": b["model"]}, "kind": "reader-model-vs-cpython"})
        docs = [self.gen_doc(rng) for _ in range(150 if tier == "quick" else 3000)]
        outs = drv.call([{"op": "ini_render_sorted", "args": {"doc": d}} for d in docs])
        nbad = 0
        for d, o in zip(docs, outs):
            try:
                real = ini_diff.real_render(d)
            except Exception as e:  # noqa  (e.g. interpolation refusing a value)
                real = {"err": type(e).__name__}
            if real != o:
                nbad += 1
                if nbad <= 2:
                    fails.append({"case": {"op": "ini_render", "args": {"doc": d}}, "observed": {"real": real}, "required": {"model": o},
                                  "kind": "writer-model-vs-cpython"})
        ctx["dist"]["ini_writer_vs_cpython"] = {"documents": len(docs), "disagreements": nbad}
        return fails

    # ------------------------------------------------------------------ shrinking
    def shrink_candidates(self, case):
        if case["op"] != "tree":
            return []
        out = []
        s = case["args"]["spec"]
        if case["args"].get("seq"):
            c0 = copy.deepcopy(case)
            c0["args"].pop("seq")
            out.append(c0)
            c1 = copy.deepcopy(case)
            c1["args"]["seq"] = dict((k, v) for k, v in case["args"]["seq"].items() if k in ("update", "update_when"))
            if c1["args"]["seq"] != case["args"]["seq"] and c1["args"]["seq"]:
                out.append(c1)
            if case["args"]["seq"].get("update"):
                return out                     # the update refers to the forest shape: shrink the sequence only

        def variant(mut):
            c = copy.deepcopy(case)
            try:
                mut(c["args"]["spec"], c["args"])
            except Exception:
                return
            if c != case:
                out.append(c)
        if len(s["variants"]) > 1:
            for i in range(len(s["variants"])):
                variant(lambda sp, a, i=i: (sp["variants"].pop(i), a.__setitem__("main_variant", None)))
        variant(lambda sp, a: a.__setitem__("main_variant", None))
        for i, v in enumerate(s["variants"]):
            if v["variants"]:
                variant(lambda sp, a, i=i: sp["variants"][i].__setitem__("variants", []))
                for j in range(len(v["variants"])):
                    variant(lambda sp, a, i=i, j=j: sp["variants"][i]["variants"].pop(j))
                    variant(lambda sp, a, i=i, j=j: sp["variants"][i]["variants"][j].__setitem__("variants", []))
            if v["paths"]:
                variant(lambda sp, a, i=i: sp["variants"][i].__setitem__("paths", []))
        for k, empty in (("images", []), ("checksums", [])):
            if s[k]:
                variant(lambda sp, a, k=k, empty=empty: sp.__setitem__(k, empty))
        if s["stage2"]["mainimage"] or s["stage2"]["instimage"]:
            variant(lambda sp, a: sp.__setitem__("stage2", {"mainimage": None, "instimage": None}))
        if s["media"]["discnum"] is not None:
            variant(lambda sp, a: sp.__setitem__("media", {"discnum": None, "totaldiscs": None}))
        if s["is_layered"]:
            variant(lambda sp, a: (sp.__setitem__("is_layered", False), sp.__setitem__("base_product", None)))
        if s["release"]["name"] != "Fedora":
            variant(lambda sp, a: sp["release"].__setitem__("name", "Fedora"))
        if len(s["tree"]["platforms"]) > 0 and not s["images"]:
            variant(lambda sp, a: sp["tree"].__setitem__("platforms", []))
        return out


PROP = C04()

MANIFEST = dict(
    technique="Lean 4 proof over an executable model of the treeinfo writer/reader on INI documents and of the discinfo line format: "
              "lookup-form specification of the written document (induction over the variant forest), the assembled current-format reader "
              "proved against any view of that specification, text layer through the proved parse/render model of configparser; byte-exact "
              "differential correspondence and a direct round-trip oracle on the real library; reader/writer text models compared with "
              "CPython on random texts in every run",
    text="C04_tree_readback: serialize t = ok d -> deserialize d = ok (norm t) for forests of any depth and width, every child type, any "
         "number of platforms/images/checksums; C04_tree_fixpoint / C04_tree_bytes: on a normal-form tree the cycle is the identity and the "
         "second dumps is byte-identical; C04_tree_text: loads(dumps t) = norm t through the text (comment-named ; WARNING options dropped by "
         "the reader: proved); C04_disc_readback: loads(dumps x) = x on the text, decimal and line joins proved.",
    note="Hypotheses (all decidable, each with a witness or justification): integer timestamp exact as a double (F17), UIDs/platforms free "
         "of ',' and UIDs unique, no top-level addon (F24), no platform '<x>-<arch>' (F25), checksum type/value free of ':', dict keys "
         "distinct, the normal form passes the reader's validators (derived for normal-form trees), representability of the written document "
         "(Boolean criterion proved sufficient). F8 (top-level filed under id) is inside norm: readback holds, fixpoint excludes it. "
         "Independence of the bytes from dict insertion order is C08.",
    ref="7/C04")
