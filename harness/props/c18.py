"""C18 - a dump that fails validation leaves the destination file untouched.

Fault enumeration on the REAL library, complete over the generated validator inventory: for each of the seven formats a
valid object is written to a real temporary path (and, separately, a path where no file exists); then, one at a time,
every `_validate*` method of every object that a dump validates is made to raise, every validated field gets a really
invalid value, (for the JSON formats) the payload gets a value the encoder refuses, and the object is put into REAL
invalid states that make a section writer fail although no validator refuses (STATE_FAULTS: treeinfo without variants,
unknown main_variant, Media with totaldiscs None, duplicate variant UID across levels, ...).  After the failing `dump(path)`
the bytes/existence of the destination are compared with what was there before (tie O).

Correspondence (tie C): the order of effects observed at run time (validate / _get_parser / serialize / memory buffer /
build_file into the buffer or into the opened destination / open for writing / plain write, wrapped from outside) and the final file content are compared with the Lean model `run` executing
the effect script that tools/gen_effects.py read from the source, fed with the independently observed outcomes of
validate() and serialize() on the same object.
"""
import builtins, io, json, os, random, shutil, tempfile
import checklib
from checklib import Prop, ROOT
import fmt7

ABSTRACT = {"common.MetadataBase", "composeinfo.VariantBase"}      # never instantiated on their own
FORMAT_CLASS = {"composeinfo": "composeinfo.ComposeInfo", "images": "images.Images", "rpms": "rpms.Rpms", "modules": "modules.Modules",
                "extra_files": "extra_files.ExtraFiles", "treeinfo": "treeinfo.TreeInfo", "discinfo": "discinfo.DiscInfo"}
WRITE_MODES = set("wax+")


def generated():
    return json.load(open(os.path.join(ROOT, "lean", "generated.json")))


def clsname(o):
    return "%s.%s" % (type(o).__module__.split(".")[-1], type(o).__name__)


class Raiser(object):
    def __init__(self, exc):
        self.exc = exc

    def __call__(self, *a, **k):
        raise self.exc("injected failure")


def validated_instances(obj):
    """objects whose validate() runs during a clean dump, in order of first validation; -> [(instance, persistent?)]"""
    import productmd.common as C
    orig = C.MetadataBase.validate

    def trace_once():
        seen = []

        def wrapped(self):
            if not any(s is self for s in seen):
                seen.append(self)
            return orig(self)
        C.MetadataBase.validate = wrapped
        try:
            obj.dump(io.StringIO())
        finally:
            C.MetadataBase.validate = orig
        return seen
    a, b = trace_once(), trace_once()
    return [(x, any(x is y for y in b)) for x in a]


def _stable_key(inst):
    """content key of an instance (primitive attributes only): the order of first validation follows set iteration for
    images (hash = id: differs from build to build), so `nth` must not depend on it"""
    def prim(v):
        return v is None or isinstance(v, (str, int, float, bool)) or \
            (isinstance(v, (list, tuple)) and all(prim(x) for x in v)) or \
            (isinstance(v, dict) and all(isinstance(k, str) and prim(x) for k, x in v.items()))
    return json.dumps(dict((k, v) for k, v in vars(inst).items() if prim(v)), sort_keys=True, default=str)


def nth_instance(obj, cls, nth):
    same = [(inst, persistent) for inst, persistent in validated_instances(obj) if clsname(inst) == cls]
    same.sort(key=lambda ip: _stable_key(ip[0]))          # stable: ties keep the order of first validation
    return same[nth] if nth < len(same) else (None, False)


PAYLOAD_FAULTS = {
    # a value json cannot encode, stored where no validator looks (the library's own add() accepts it)
    "rpms": lambda o: [d for v in o.rpms.values() for a in v.values() for s in a.values() for d in s.values()][0].__setitem__("sigkey", set(["x"])),
    "modules": lambda o: [m for v in o.modules.values() for a in v.values() for m in a.values()][0]["rpms"].append(set(["x"])),
    "extra_files": lambda o: o.add("Server", "x86_64", "Server/x86_64/os/EULA-set", set([1, 2]), {"md5": "x"}),
    "composeinfo": lambda o: [v for v in o.variants.variants.values()][0].paths.os_tree.__setitem__(sorted([v for v in o.variants.variants.values()][0].arches)[0], set(["x"])),
    "images": lambda o: sorted((i for v in o.images.values() for s in v.values() for i in s), key=lambda i: i.path)[0].checksums.__setitem__("sha256", set(["x"])),
}


def _dup_uid(o):
    from productmd.composeinfo import Variant
    top = sorted(o.variants.variants.values(), key=lambda v: v.uid)[0]
    kid = sorted(top.variants.values(), key=lambda v: v.uid)[0]
    v = Variant(o)
    v.id = kid.uid.replace("-", "")
    v.uid = kid.uid                       # same UID as the child one level down
    v.name, v.type, v.arches = "dup", "variant", set(top.arches)
    o.variants.add(v)


def _first_variant(o):
    return sorted(o.variants.variants.values(), key=lambda v: v.uid)[0]


def _first_cell(o):
    v = sorted(o.images)[0]
    return o.images[v], sorted(o.images[v])[0]


# REAL invalid states that make a SECTION WRITER fail although no validator refuses (-> optional dump keyword arguments)
STATE_FAULTS = {
    "treeinfo-no-variants": ("treeinfo", lambda o: o.variants.variants.clear()),
    "treeinfo-main-variant-unknown": ("treeinfo", lambda o: {"main_variant": "NoSuchVariant"}),
    "treeinfo-media-totaldiscs-none": ("treeinfo", lambda o: (setattr(o.media, "discnum", 1), setattr(o.media, "totaldiscs", None)) and None),
    "treeinfo-platforms-none": ("treeinfo", lambda o: setattr(o.tree, "platforms", None)),
    "treeinfo-variant-paths-none": ("treeinfo", lambda o: setattr(_first_variant(o), "paths", None)),
    "composeinfo-duplicate-uid-across-levels": ("composeinfo", _dup_uid),
    "composeinfo-arches-none": ("composeinfo", lambda o: setattr(_first_variant(o), "arches", None)),
    "composeinfo-path-table-none": ("composeinfo", lambda o: setattr(_first_variant(o).paths, "os_tree", None)),
    "images-cell-none": ("images", lambda o: _first_cell(o)[0].__setitem__(_first_cell(o)[1], None)),
    "images-foreign-object-in-cell": ("images", lambda o: _first_cell(o)[0][_first_cell(o)[1]].add("not an image")),
    "rpms-compose-section-missing": ("rpms", lambda o: setattr(o, "compose", None)),
    "modules-compose-section-missing": ("modules", lambda o: setattr(o, "compose", None)),
    "extra_files-header-missing": ("extra_files", lambda o: setattr(o, "header", None)),
}


def _image_collision(o):
    from productmd.images import Image
    v = sorted(o.images)[0]
    a = sorted(o.images[v])[0]
    i0 = sorted(o.images[v][a], key=lambda i: i.path)[0]
    i = Image(o)
    for k in ("mtime", "size", "volume_id", "type", "format", "arch", "disc_count", "implant_md5", "bootable", "subvariant", "unified", "additional_variants"):
        setattr(i, k, getattr(i0, k))
    i.path, i.checksums, i.disc_number = i0.path + ".copy", {"sha256": "0" * 64}, 99
    o.add(v, a, i)
    i.disc_number = i0.disc_number          # edited AFTER add(): now equal on all UNIQUE_IMAGE_ATTRIBUTES, different checksums (F11-style)


def _src_arch_key(o):
    v = sorted(o.images)[0]
    o.images[v]["src"] = o.images[v].pop(sorted(o.images[v])[0])     # an arch key add() would refuse


def _toplevel_addon(o):
    from productmd.treeinfo import Variant
    v = Variant(o)
    v.id = v.uid = "HA2"
    v.name, v.type = "n", "addon"
    o.variants.add(v)                                                 # F24: written as [addon-HA2], looked up as [variant-HA2]


def _platform_suffix(o):
    p = "kvm-" + o.tree.arch                                          # F25: read back as platform "kvm"
    o.tree.platforms.add(p)
    o.images.images[p] = {"kernel": "k"}


# WRITTEN-BUT-UNREADABLE: real states every write-side validator accepts (the unchanged dump SUCCEEDS) but the reader refuses
UNREADABLE = {
    "discinfo-description-with-newline": ("discinfo", lambda o: setattr(o, "description", "Fedora\n20")),
    "images-identity-collision-after-add": ("images", _image_collision),
    "images-src-arch-key": ("images", _src_arch_key),
    "treeinfo-checksum-value-with-colon": ("treeinfo", lambda o: o.checksums.add("images/x.img", "sha256", "ab:cd")),
    "treeinfo-toplevel-addon": ("treeinfo", _toplevel_addon),
    "treeinfo-platform-with-arch-suffix": ("treeinfo", _platform_suffix),
}


class Observer(object):
    """wraps (from outside) the statements of dump on one object: validate / _get_parser / serialize / build_file (into the
    opened destination = buildFile, into anything else = buildMem), the creation of a memory buffer by dump (newBuf), the two
    ways of opening the destination (openW) and a plain write to it issued by dump itself (writeBuf)"""
    def __init__(self, obj, dest):
        self.obj, self.dest, self.trace, self.depth, self.in_ofo, self.dest_fo = obj, dest, [], 0, 0, None

    def __enter__(self):
        import sys, six
        import productmd.common as C
        self.C, self.six = C, six
        o, me = self.obj, self
        self.saved = dict((n, o.__dict__.get(n, None)) for n in ("validate", "_get_parser", "serialize", "build_file"))
        cls = type(o)

        def validate():
            if me.depth == 0:
                me.trace.append("validate")
            return cls.validate(o)

        def _get_parser():
            me.trace.append("getParser")
            return cls._get_parser(o)

        def serialize(*a, **k):
            if me.depth == 0:
                me.trace.append("serialize")
            me.depth += 1
            try:
                return cls.serialize(o, *a, **k)
            finally:
                me.depth -= 1

        def build_file(parser, f, *a, **k):
            me.trace.append("buildFile" if (me.dest_fo is not None and f is me.dest_fo) else "buildMem")
            return cls.build_file(o, parser, f, *a, **k)
        o.validate, o._get_parser, o.serialize, o.build_file = validate, _get_parser, serialize, build_file
        self.orig_ofo, self.orig_open, self.orig_sio = C.open_file_obj, builtins.open, six.StringIO

        def ofo(f, mode="r"):
            if f == me.dest and set(mode) & WRITE_MODES:
                me.trace.append("openW")
                me.in_ofo += 1
            return me.orig_ofo(f, mode)

        class Proxy(object):
            def __init__(self_, fo):
                self_._fo = fo

            def write(self_, data):
                fr = sys._getframe(1).f_code
                if fr.co_name == "dump" and "productmd" in fr.co_filename:
                    me.trace.append("writeBuf")
                return self_._fo.write(data)

            def __enter__(self_):
                return self_

            def __exit__(self_, *e):
                self_._fo.close()
                return False

            def __getattr__(self_, name):
                return getattr(self_._fo, name)

        def opn(f, mode="r", *a, **k):
            if f == me.dest and set(mode) & WRITE_MODES:
                if me.in_ofo:
                    me.in_ofo -= 1           # the open performed by open_file_obj itself
                else:
                    me.trace.append("openW")
                me.dest_fo = Proxy(me.orig_open(f, mode, *a, **k))
                return me.dest_fo
            return me.orig_open(f, mode, *a, **k)

        def sio(*a, **k):
            fr = sys._getframe(1).f_code
            if fr.co_name == "dump" and "productmd" in fr.co_filename and me.depth == 0:
                me.trace.append("newBuf")
            return me.orig_sio(*a, **k)
        C.open_file_obj, builtins.open, six.StringIO = ofo, opn, sio
        self.orig_load = C.MetadataBase.load

        def load(self_, f):
            if f == me.dest:
                me.trace.append("readBack")
            return me.orig_load(self_, f)
        C.MetadataBase.load = load
        self.orig_os = dict((n, getattr(os, n)) for n in ("unlink", "remove", "rename", "replace"))

        def destr(name):
            orig = self.orig_os[name]

            def f(p, *a, **k):
                if p == me.dest or (a and a[0] == me.dest):
                    me.trace.append("unlink")
                return orig(p, *a, **k)
            return f
        for n in self.orig_os:
            setattr(os, n, destr(n))
        return self

    def __exit__(self, *exc):
        self.C.open_file_obj, builtins.open, self.six.StringIO = self.orig_ofo, self.orig_open, self.orig_sio
        for n, f in self.orig_os.items():
            setattr(os, n, f)
        self.C.MetadataBase.load = self.orig_load
        for n, v in self.saved.items():
            if v is None:
                self.obj.__dict__.pop(n, None)
            else:
                self.obj.__dict__[n] = v
        return False


FALSY = [None, False, 0, 0.0, "", [], {}]
# audit A1/A2/A3/A5: the destination NAME - blanks, the formats' delimiters, non-ASCII, long, sub-directory, looks like another type
DEST_NAMES = ["dest", "my dest file", " lead", "d\u00e9st-\u0663", "a:b=c#d%s[x]", "None", "n" * 200, "sub dir/dest", "dest.json", "\U0001F600"]
PRIORS = ["valid", "none", "hardlink", "symlink", "readonly", "rodir"]
EXTRA_PRIORS = ["hardlink", "symlink", "readonly"] + (["rodir"] if os.geteuid() != 0 else [])   # chmod on a directory does not bind root


def make_destination(obj, d, prior, name="dest"):
    """-> (dest, other): the destination path in the requested state, and the second name under which the same data is
    reachable (second hard link / symlink target), if any"""
    dest, other = os.path.join(d, name), None
    os.makedirs(os.path.dirname(dest), exist_ok=True)
    if prior == "valid":
        obj.dump(dest)
    elif prior == "hardlink":                     # e.g. the metadata file was hardlinked into another compose
        obj.dump(dest)
        other = os.path.join(d, "second-link")
        os.link(dest, other)
    elif prior == "symlink":
        other = os.path.join(d, "target")
        obj.dump(other)
        os.symlink(other, dest)
    elif prior == "readonly":
        obj.dump(dest)
        os.chmod(dest, 0o444)
    elif prior == "rodir":
        os.mkdir(os.path.join(d, "ro"))
        dest = os.path.join(d, "ro", os.path.basename(name))
        obj.dump(dest)
        os.chmod(os.path.join(d, "ro"), 0o555)
    return dest, other


def destination_meta(dest, other):
    """what besides the bytes must survive a failed dump: the very same directory entry (inode, link count, kind, mode),
    and the data under its other name"""
    if not os.path.lexists(dest):
        return {"exists": False}
    lst = os.lstat(dest)
    m = {"exists": True, "is_symlink": os.path.islink(dest), "inode": lst.st_ino, "nlink": lst.st_nlink, "mode": oct(lst.st_mode & 0o777)}
    if m["is_symlink"]:
        m["link_target"] = os.path.relpath(os.readlink(dest), os.path.dirname(dest))      # temp dir names differ from run to run
    if other is not None:
        m["other_name"] = read_state(other)
        m["other_inode"] = os.lstat(other).st_ino if os.path.lexists(other) else None
    return m


def read_state(path):
    if not os.path.exists(path):
        return None
    with open(path, "rb") as f:
        return f.read().decode("utf-8", "surrogateescape")


class C18(Prop):
    id = "C18"
    lean_module = "ProductMD.Properties.C18"
    quick_budget = 1
    thorough_budget = 6
    exhaustive = True
    rule = ("complete fault enumeration on real files: 7 formats x destination {plain file, no file; in rotation: hardlinked file, symlink "
            "to a file, read-only file, (non-root) read-only directory - same bytes AND same inode/link count/kind/mode required} x every _validate* of every "
            "object validated during a dump (injected ValueError/TypeError) + a really invalid value for every validated field + an "
            "unencodable payload value + 13 real invalid states failing in a section writer (IndexError/KeyError/TypeError/"
            "AttributeError/ValueError without a validator refusing) + 6 written-but-unreadable states (every writer accepts, the reader "
            "refuses: F11/F24/F25-style) dumped over a good file; oracle: bytes/existence of the destination before vs after a dump that raised; "
            "correspondence: observed effect order, failing statement and final content vs Lean `run` on the generated script; "
            "non-trivial = the dump raised")
    assumptions = ["an unrecognised statement in dump (`unknown`) may fail but does not itself touch the file system (the real file is "
                   "compared anyway)",
                   "open(path, 'w') truncates/creates at once and a partially written file is flushed when the with-block is left "
                   "(checked by the correspondence on real files)"]
    partial = {}

    def __init__(self):
        self._gen = None
        self.covered = set()
        self.reached_classes = {}
        self._last = {}

    def gen(self):
        if self._gen is None:
            self._gen = generated()
        return self._gen

    # ------------------------------------------------------------------ generators
    def invalid_values(self, cls):
        """(field, value) pairs that really violate a rule of `cls`, derived from the generated rule lists"""
        out = []
        for m in self.gen()["validators"]["classes"].get(cls, []):
            for r in m["rules"]:
                while r.get("k") == "guarded":
                    r = r["r"]
                f, k = r.get("f"), r.get("k")
                if k == "type":
                    ts = r["types"]
                    v = 12345 if "int" not in ts else ("x" if "str" not in ts else [1])
                    out.append((f, v))
                elif k == "value":
                    out.append((f, "no-such-value"))
                elif k == "re":
                    out.append((f, "1x!"))
                elif k == "notBlank":
                    out.append((f, ""))
                elif k == "custom" and "verify_label" in r.get("name", ""):
                    out.append(("label", "GA"))
        seen, res = set(), []
        for fv in out:
            key = json.dumps(fv)
            if key not in seen:
                seen.add(key); res.append(fv)
        return res

    def cases(self, rng, tier, budget):
        checklib.use_repo()
        for rep in range(budget if tier != "search" else 3):
            for fmt in fmt7.FORMATS:
                seed = rng.randrange(10 ** 6)
                obj = fmt7.build(fmt, random.Random(seed))
                insts = validated_instances(obj)
                counts = {}
                yield {"op": "dump_fault", "args": {"fmt": fmt, "seed": seed, "prior": "valid", "fault": {"kind": "none"}}}
                yield {"op": "dump_fault", "args": {"fmt": fmt, "seed": seed, "prior": "none", "fault": {"kind": "none"}}}
                for prior in EXTRA_PRIORS:
                    yield {"op": "dump_fault", "args": {"fmt": fmt, "seed": seed, "prior": prior, "fault": {"kind": "none"}}}
                for inst, persistent in insts:
                    cls = clsname(inst)
                    nth = counts.get(cls, 0); counts[cls] = nth + 1
                    self.reached_classes.setdefault(fmt, set()).add(cls)
                    methods = sorted(n for n in dir(inst) if n.startswith("_validate") and callable(getattr(inst, n)))
                    for j, m in enumerate(methods):
                        self.covered.add((cls, m))
                        exc = "ValueError" if (j + nth) % 3 else "TypeError"
                        extra = EXTRA_PRIORS[(j + nth + len(self.covered)) % len(EXTRA_PRIORS)]     # one further destination kind, in rotation
                        for prior in ("valid", "none", extra):
                            yield {"op": "dump_fault", "args": {"fmt": fmt, "seed": seed, "prior": prior,
                                                                "fault": {"kind": "inject", "cls": cls, "nth": nth, "method": m, "exc": exc}}}
                    if persistent:
                        for f, v in self.invalid_values(cls):
                            if hasattr(inst, f):
                                yield {"op": "dump_fault", "args": {"fmt": fmt, "seed": seed, "prior": "valid" if (nth + len(f)) % 4 else "none",
                                                                    "fault": {"kind": "value", "cls": cls, "nth": nth, "field": f, "value": v}}}
                        # audit A8: falsy values of EVERY type for every validated field (all of them in thorough, two in rotation in quick);
                        # sets / tuples are not JSON-able case arguments and are left out
                        fields = sorted(set(f for f, _ in self.invalid_values(cls) if hasattr(inst, f)))
                        for fi, f in enumerate(fields):
                            picks = FALSY if tier != "quick" else [FALSY[(fi + nth + k) % len(FALSY)] for k in (0, 3)]
                            for v in picks:
                                yield {"op": "dump_fault", "args": {"fmt": fmt, "seed": seed, "prior": "valid", "then": ["again", "repair", None][(fi + nth) % 3],
                                                                    "fault": {"kind": "value", "cls": cls, "nth": nth, "field": f, "value": v}}}
                if fmt in PAYLOAD_FAULTS:
                    for prior in ["valid", "none"] + EXTRA_PRIORS:
                        yield {"op": "dump_fault", "args": {"fmt": fmt, "seed": seed, "prior": prior, "fault": {"kind": "payload"}}}
                for name in sorted(UNREADABLE):
                    if UNREADABLE[name][0] == fmt:
                        for prior in ["valid", "none"] + EXTRA_PRIORS[:1]:
                            yield {"op": "dump_fault", "args": {"fmt": fmt, "seed": seed, "prior": prior, "fault": {"kind": "unreadable", "name": name}}}
                for name in sorted(STATE_FAULTS):
                    if STATE_FAULTS[name][0] == fmt:
                        for prior in ["valid", "none"] + EXTRA_PRIORS:
                            yield {"op": "dump_fault", "args": {"fmt": fmt, "seed": seed, "prior": prior, "fault": {"kind": "state", "name": name}}}

    # ------------------------------------------------------------------ real side
    def real(self, case):
        out = self._real(case)
        self._last = {checklib.key_of(case): out}
        return out

    def _real(self, case):
        checklib.use_repo()
        a = case["args"]
        fmt, fault = a["fmt"], a["fault"]
        obj = fmt7.build(fmt, random.Random(a["seed"]))
        d = tempfile.mkdtemp(prefix="c18-")
        dest = os.path.join(d, "dest")
        restore = []
        try:
            other = None
            name = DEST_NAMES[int(checklib.key_of([a["fmt"], a["fault"]])[:6], 16) % len(DEST_NAMES)] if a.get("names", True) else "dest"
            dest = os.path.join(d, name)
            os.makedirs(os.path.dirname(dest), exist_ok=True)
            if a["prior"] != "none":
                dest, other = make_destination(obj, d, a["prior"], name)
            before = read_state(dest)
            meta_before = destination_meta(dest, other)
            # ---- apply the fault
            applied = True
            kw, inst, old_value = {}, None, None
            if fault["kind"] == "inject":
                inst, persistent = nth_instance(obj, fault["cls"], fault["nth"])
                if inst is None:
                    applied = False
                else:
                    r = Raiser(ValueError if fault.get("exc") != "TypeError" else TypeError)
                    if persistent:
                        setattr(inst, fault["method"], r)
                    else:                       # object created inside serialize (e.g. treeinfo General): patch its class
                        k = type(inst)
                        had = fault["method"] in vars(k)
                        old = vars(k).get(fault["method"])
                        setattr(k, fault["method"], lambda self, _r=r: _r())
                        restore.append((k, fault["method"], had, old))
            elif fault["kind"] == "value":
                inst, persistent = nth_instance(obj, fault["cls"], fault["nth"])
                if inst is None:
                    applied = False
                else:
                    old_value = getattr(inst, fault["field"], None)
                    setattr(inst, fault["field"], fault["value"])
            elif fault["kind"] == "payload":
                PAYLOAD_FAULTS[fmt](obj)
            elif fault["kind"] == "state":
                kw = STATE_FAULTS[fault["name"]][1](obj)
                kw = kw if isinstance(kw, dict) else {}
            elif fault["kind"] == "unreadable":
                UNREADABLE[fault["name"]][1](obj)
            # ---- outcomes of the object's own steps, observed independently of dump (input of the model)
            outcomes = {}
            try:
                obj.validate(); outcomes["validate"] = None
            except Exception as e:
                outcomes["validate"] = checklib.err_class(e)
            sio = io.StringIO()
            obj.build_file(obj._get_parser(), sio)
            outcomes["getParser"] = {"ok": sio.getvalue()}
            p = obj._get_parser()
            try:
                obj.serialize(p, **kw)
                sio = io.StringIO()
                try:
                    obj.build_file(p, sio)
                    outcomes["serialize"] = {"ok": sio.getvalue()}
                    try:                                      # would a fresh instance read this text back?
                        type(obj)().load(io.StringIO(sio.getvalue()))
                        outcomes["readBack"] = None
                    except Exception as e:
                        outcomes["readBack"] = checklib.err_class(e)
                except Exception as e:
                    # the encoder gave up: the model needs the full intended text only up to the failure point
                    outcomes["serialize"] = {"ok": sio.getvalue()}
                    outcomes["buildFail"] = [len(sio.getvalue()), type(e).__name__]
            except Exception as e:
                outcomes["serialize"] = checklib.err_class(e)
            writable = os.access(dest, os.W_OK) if os.path.lexists(dest) else os.access(os.path.dirname(dest), os.W_OK)
            if not writable:
                outcomes["openErr"] = "Other"
            # ---- the dump itself, observed
            with Observer(obj, dest) as ob:
                try:
                    obj.dump(dest, **kw)
                    result = "ok"
                except Exception as e:
                    result = {"err": type(e).__name__, "eff": ob.trace[-1] if ob.trace else None}
            after = read_state(dest)
            meta_after = destination_meta(dest, other)
            then = None
            if a.get("then") and result != "ok" and fault["kind"] == "value" and inst is not None:
                if a["then"] == "again":             # the failed call once more: same refusal, file still untouched
                    try:
                        obj.dump(dest, **kw)
                        then = {"step": "again", "result": "ok"}
                    except Exception as e:
                        then = {"step": "again", "result": {"err": type(e).__name__}}
                    then["unchanged"] = read_state(dest) == before
                else:                                # failed call -> repair -> success: the file now holds the object
                    setattr(inst, fault["field"], old_value)
                    try:
                        obj.dump(dest, **kw)
                        sio2 = io.StringIO()
                        obj.dump(sio2, **kw)
                        then = {"step": "repair", "result": "ok", "file_is_dumps": read_state(dest) == sio2.getvalue()}
                    except Exception as e:
                        then = {"step": "repair", "result": {"err": type(e).__name__}}
            for key in ("inode", "other_inode"):          # inode numbers differ from run to run: keep only "is it the same one"
                if key in meta_before or key in meta_after:
                    same = meta_before.get(key) == meta_after.get(key)
                    if key in meta_before:
                        meta_before[key] = "original"
                    if key in meta_after:
                        meta_after[key] = "original" if same else "another"
            return {"applied": applied, "before": before, "after": after, "result": result, "trace": ob.trace,
                    "meta_before": meta_before, "meta_after": meta_after, "then": then,
                    "outcomes": outcomes, "script": self.gen()["effects"]["owners"][FORMAT_CLASS[fmt]]}
        finally:
            for k, name, had, old in restore:
                if had:
                    setattr(k, name, old)
                else:
                    delattr(k, name)
            for root_, dirs_, files_ in os.walk(d):
                try:
                    os.chmod(root_, 0o755)
                except OSError:
                    pass
            shutil.rmtree(d, ignore_errors=True)

    # ------------------------------------------------------------------ model side
    def model_requests(self, case):
        # the model's input (outcomes of validate()/serialize() on this very object) was observed by `real`, which the
        # pipeline always runs first on the same case
        if case["op"] != "dump_fault":
            return []
        real_out = self._last.get(checklib.key_of(case))
        if real_out is None:
            real_out = self.real(case)
        return [{"op": "dump_run", "args": {"script": real_out["script"], "obj": real_out["outcomes"], "before": real_out["before"]}}]

    def compare(self, case, real_out, model_out):
        r = real_out
        mres = model_out.get("result")
        if isinstance(mres, dict):
            mres = {"err": mres["err"], "eff": mres["eff"]}
        rres = r["result"]
        if isinstance(rres, dict):
            cls = rres["err"]
            rres = {"err": cls if cls in ("TypeError", "ValueError", "KeyError", "AttributeError", "IndexError", "RuntimeError") else "Other", "eff": rres["eff"]}
        real_view = {"result": rres, "after": r["after"], "trace": r["trace"]}
        model_view = {"result": mres, "after": model_out.get("after"), "trace": model_out.get("trace")}
        if real_view != model_view:
            return {"real": real_view, "model": model_view}
        return None

    def oracle(self, case, real_out):
        r = real_out
        t = r.get("then")
        if t is not None and r["after"] == r["before"]:
            if t["step"] == "again" and (t["result"] == "ok" or not t["unchanged"]):
                return {"observed": {"first": r["result"], "second_call": t}, "required": "the refused dump refused again, destination still untouched", "kind": "second-call-differs"}
            if t["step"] == "repair" and (t["result"] != "ok" or not t["file_is_dumps"]):
                return {"observed": {"first": r["result"], "after_repair": t}, "required": "after repairing the field the dump succeeds and the file holds dumps()", "kind": "repair-fails"}
        if r["result"] == "ok":
            return None
        if r["after"] == r["before"] and r.get("meta_after") != r.get("meta_before"):
            mb, ma = r.get("meta_before") or {}, r.get("meta_after") or {}
            changed = dict((k, {"before": mb.get(k), "after": ma.get(k)}) for k in sorted(set(mb) | set(ma)) if mb.get(k) != ma.get(k) and k != "other_name")
            if mb.get("other_name") != ma.get("other_name"):
                changed["other_name_bytes"] = "changed"
            return {"observed": {"error": r["result"]["err"], "failed_at": r["result"]["eff"], "destination": case["args"]["prior"], "changed": changed},
                    "required": "after a dump that raised the destination is the very same directory entry (inode, link count, symlink, mode) "
                                "and the data under its other name is untouched", "kind": "destination-replaced"}
        if r["after"] != r["before"]:
            def short(s):
                return None if s is None else {"bytes": len(s.encode("utf-8", "surrogateescape")), "head": s[:60]}
            return {"observed": {"error": r["result"]["err"], "failed_at": r["result"]["eff"], "destination": case["args"]["prior"], "destination_before": short(r["before"]),
                                 "destination_after": short(r["after"])},
                    "required": "destination unchanged (same bytes, or still absent) after a dump that raised",
                    "kind": "encoder-failure" if case["args"]["fault"]["kind"] == "payload" else "destination-damaged"}
        return None

    def nontrivial(self, case, real_out):
        return real_out["result"] != "ok"

    def stats(self, case, real_out, dist):
        a = case["args"]
        dist["destination:" + a["prior"]] = dist.get("destination:" + a["prior"], 0) + 1
        k = "%s/%s" % (a["fmt"], a["fault"]["kind"])
        dist[k] = dist.get(k, 0) + 1
        res = real_out["result"]
        key = "dump ok" if res == "ok" else "raised in %s" % res["eff"]
        dist[key] = dist.get(key, 0) + 1
        if a["fault"]["kind"] == "unreadable":
            k2 = "written-but-unreadable confirmed (reader refuses the written text)" if real_out["outcomes"].get("readBack") else "UNREADABLE recipe is readable (stale recipe)"
            dist[k2] = dist.get(k2, 0) + 1
        if a["fault"]["kind"] == "value" and res == "ok":
            dist["invalid value not refused (guarded / unchecked)"] = dist.get("invalid value not refused (guarded / unchecked)", 0) + 1

    # ------------------------------------------------------------------ completeness of the enumeration
    def extra_checks(self, ctx):
        fails = []
        inv = self.gen()["validators"]["classes"]
        want = set((c, m["method"]) for c, ms in inv.items() if c not in ABSTRACT for m in ms)
        missing = sorted(want - self.covered)
        ctx["dist"]["inventory"] = {"validators_in_inventory": len(want), "injected": len(want & self.covered),
                                    "classes_reached": dict((f, sorted(c)) for f, c in self.reached_classes.items())}
        extra = sorted(self.covered - want - set((c, m) for c, m in self.covered if c in ABSTRACT))
        if extra:
            fails.append({"case": {"op": "inventory", "args": {"not_in_inventory": extra}},
                          "observed": "validators run by a dump that the generated inventory does not list: %s" % extra,
                          "required": "validator inventory (translator) and the validators really run coincide", "kind": "coverage"})
        if missing:
            fails.append({"case": {"op": "inventory", "args": {"missing": missing}},
                          "observed": "validators of the generated inventory that no dump of the seven generated objects reaches: %s" % missing,
                          "required": "fault enumeration complete over the validator inventory (extend harness/fmt7.py)", "kind": "coverage"})
        return fails


PROP = C18()

MANIFEST = dict(
    technique="Lean 4 proof over an effect-script interpreter (abstract file system; script regenerated from the AST of every dump method) + decide on the generated scripts; complete fault enumeration on real files; run-time effect order vs script",
    text="Theorem C18_general: for ANY effect script in which nothing that runs code of the object (validators, section writers, the encoder of build_file, unrecognised statements) follows open-for-write, any object (arbitrary outcome of every step = any failure point) and any file system, a dump that fails anywhere except in the final plain write leaves the whole file system unchanged. C18_here/C18_every_dump/C18_shape (decide on the scripts read from the source on every run): MetadataBase.dump and TreeInfo.dump have the standard shape validate* getParser validate* serialize validate* newBuf buildMem openW writeBuf, and each of the seven formats runs one of them. C18_standard/C18_dump: for that shape EVERY failure, without exception, leaves the file system unchanged. C18_nested: a refusing validator anywhere in the section tree makes dump fail with that error before anything is opened; C18_success: otherwise exactly the serialised text is written; C18_encoder_failure_covered: an encoder failure happens in memory, destination untouched. C18_counterexample (order before F2), C18_preF19_witness (encoder on the opened file) and C18_unlink_witness (destination removed before the work is done; `unlink` = os.unlink/remove/rename/replace/shutil.* read from the source as a destructive effect) exhibit the damage of the unsafe orders.",
    note="The with-block/open semantics (truncate at once, partial content flushed) are modelled and compared with real files on every case. Statements outside the dump idiom become `unknown` (fallible, assumed not to touch the file system). HTTP/file-object destinations are outside the property.",
    ref="7/C18")
