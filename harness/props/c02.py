"""C02 - image manifests survive a write/read cycle unchanged."""
import copy, json
import checklib
from checklib import Prop
from formats import images as F


def bool_ints(spec):
    return sorted(set(img["path"] for img in spec["pool"] for f in F.INT_FIELDS if isinstance(img.get(f), bool)))


def norm_compose(c):
    c = dict(c)
    if not c.get("label"):
        c["label"] = None; c["final"] = False          # documented: `final` is written only together with a label
    return c


def unbool_doc(doc):
    """the document with every bool in an integer attribute of an image replaced by the int it equals"""
    doc = copy.deepcopy(doc)
    for d in doc["payload"]["images"].values():
        for cell in d.values():
            for r in cell:
                for f in F.INT_FIELDS:
                    if isinstance(r.get(f), bool):
                        r[f] = int(r[f])
    return doc


class C02(Prop):
    id = "C02"
    lean_module = "ProductMD.Properties.C02"
    quick_budget = 260
    thorough_budget = 6000
    rule = ("manifests built through Image()/Images.add from generated specs (every image type x format round-robin, every binary "
            "arch of RPM_ARCHES, 0-6 images per cell with distinct paths in non-sorted insertion order, images removed again through the public containers (emptied cells, variants without arches, deleted variants, re-adds), sizes > 2^32 up to 2^64+3, "
            "null / non-empty volume ids, null / 32-hex md5, 1-3 checksum types, unified with additional variants, objects shared "
            "between cells, header 0.0/1.0/1.1/1.2/2.0): real dumps bytes == model bytes, real loads snapshot == model == spec "
            "(all 15 attributes per cell as multisets, compose), second dump byte-identical; non-trivial = written manifest with >= 1 image")
    assumptions = ["json.load(json.dump(v)) = v up to dict key order (CPython json, exercised by every case)",
                   "dict keys are str; floats inside checksums / additional_variants are opaque tokens",
                   "image objects are not mutated between Images.add and dumps"]
    partial = {
        "C02_readback_partial": "hypothesis Uniq (identity collisions are written but refused on reload: F11, C02_F11_witness, a real defect with a "
                                "decide'd witness). The former hypothesis ProperInts (F22: a bool in an int attribute came back as 1/0) is gone: "
                                "_assert_type refuses a bool where bool is not listed (Gen.assertTypeBoolStrict, translated from the method body), so "
                                "ProperInts follows from validate = ok (C02_valid_ints_proper, C02_bool_int_refused). C02_fixpoint / C02_bytes add "
                                "DistinctPaths (the quantifier's own condition) and, for C02_bytes, json.load(printed text) = document as the explicit hypothesis hjson",
    }

    # ------------------------------------------------------------------ cases
    def cases(self, rng, tier, budget):
        yield {"op": "cycle", "args": {"spec": {"version": "0.0", "compose": F.gen_compose(rng), "pool": [], "adds": []}}}
        n_f11 = n_f19 = 0                                  # the known-finding stream F11 is capped (it counts as failures); so is the bool stream
        for n in range(budget):
            r = rng.random()
            if r >= 0.86 and r < 0.90 and n_f11 >= 10:
                r = 0.0
            if r >= 0.90 and r < 0.92 and n_f19 >= 6:
                r = 0.0
            if r < 0.86:
                spec = F.gen(rng, tier, wide=(n % 3 != 0))           # two thirds with the wide pools (generator audit)
                if n % 5 == 0:
                    spec["styles"] = [rng.choice(["assign", "inplace"]) for _ in spec["pool"]]
            elif r < 0.90:                                   # F11 stream: identity collision under a pre-1.1 header
                spec = F.gen(rng, tier, version=rng.choice(["0.0", "1.0"]))
                if not spec["pool"]:
                    continue
                i = rng.randrange(len(spec["pool"]))
                twin = copy.deepcopy(spec["pool"][i]); twin["path"] = "collide/" + twin["path"]
                twin["checksums"] = dict((k, v[::-1] + "0") for k, v in twin["checksums"].items())
                spec["pool"].append(twin)
                spec["adds"].append([rng.choice([a[0] for a in spec["adds"]]), "x86_64", len(spec["pool"]) - 1])
                n_f11 += 1
            elif r < 0.92:                                   # bool where an int is documented: refused on dump (TypeError) since the F22 repair;
                spec = F.gen(rng, tier)                      # with the bare isinstance loop it is written as true/false and read back as 1/0
                if not spec["pool"]:
                    continue
                img = rng.choice(spec["pool"]); img[rng.choice(F.INT_FIELDS)] = (n % 4 != 0)
                n_f19 += 1
                F.make_unique(spec["pool"]) if not isinstance(img["disc_number"], bool) else None
            else:                                            # the library refuses to write: one attribute out of its domain
                spec = F.gen(rng, tier)
                if not spec["pool"]:
                    continue
                img = rng.choice(spec["pool"])
                f, val = rng.choice([("size", 0), ("path", ""), ("type", "floppy"), ("format", "zip"), ("checksums", {}), ("volume_id", ""),
                                     ("implant_md5", "ABC"), ("bootable", 1), ("subvariant", None), ("additional_variants", ["x"]),
                                     ("mtime", "1"), ("disc_count", None), ("arch", ""), ("unified", None), ("disc_number", 1.5),
                                     ("checksums", {"md5": {"$other": True}})])
                if n % 2:
                    # falsy values of every type for every attribute, round-robin (legal ones must round-trip, the others be refused)
                    f = F.rr(F.FIELDS)
                    val = F.rr([None, False, 0, {"$float": "0.0"}, "", [], {}, {"$other": False}])
                    # (False in an int attribute: refused with TypeError like every other wrong type - F22 repaired)
                if f == "additional_variants":
                    img["unified"] = False
                img[f] = val
                if rng.random() < 0.3:
                    spec["compose"][rng.choice(["date", "id", "respin"])] = rng.choice([None, "x", 5])
            if rng.random() < 0.18 and spec["adds"]:
                # images removed again through the public containers: emptied cells, variants without arches, re-adds
                spec["edits"] = F.gen_edits(rng, spec)
            yield {"op": "cycle", "args": {"spec": spec}}
        # ---- sequences (generator audit, section B)
        for n in range(max(12, budget // 8)):
            spec = F.gen(rng, tier, wide=True, max_variants=2, max_arches=2, max_cell=3)
            kind = ["modify_after_load", "repair", "twin", "doc", "edit"][n % 5]
            if kind == "modify_after_load":
                # dump -> load -> MODIFY the loaded object (new images, removals) -> dump -> load: compared with the spec
                extra = F.gen(rng, tier, wide=True, max_variants=1, max_arches=1, max_cell=2)
                base = len(spec["pool"])
                post = [["add", v, a, base + i] for v, a, i in extra["adds"]]
                cells = F.cells_of_spec(spec)
                for v, d in cells.items():
                    for a, c in d.items():
                        if c and rng.random() < 0.4:
                            post.append(["discard", v, a, rng.choice(c)])
                rng.shuffle(post)
                spec2 = dict(spec, pool=spec["pool"] + extra["pool"])
                F.make_unique(spec2["pool"])
                yield {"op": "cycle2", "args": {"spec": spec2, "post": post}}
            elif kind == "repair" and spec["pool"]:
                # failed dumps (one attribute out of its domain) -> repair -> dumps: the text of the clean spec
                i = rng.randrange(len(spec["pool"]))
                f, val = F.rr([("size", 0), ("path", ""), ("type", "DVD"), ("type", "dvd "), ("format", "ISO"), ("format", "tar"), ("checksums", {}),
                               ("implant_md5", "A" * 32), ("implant_md5", "a" * 31), ("bootable", None), ("subvariant", None), ("mtime", None),
                               ("disc_number", "1"), ("volume_id", ""), ("arch", None), ("unified", 0), ("additional_variants", None)])
                yield {"op": "repair", "args": {"spec": spec, "image": i, "field": f, "value": val}}
            elif kind == "twin":
                yield {"op": "twin", "args": {"spec": spec}}
            elif kind == "edit":
                if not spec["adds"]:
                    continue
                # a SUCCESSFUL dumps, then a filed image is changed in place to another valid value of a non-identity
                # attribute (no add / discard in between), then dumps again: the second text describes the object as it is now
                i = spec["adds"][rng.randrange(len(spec["adds"]))][2]
                old = spec["pool"][i]
                f = F.rr(["mtime", "size", "volume_id", "implant_md5", "bootable", "mtime", "size"])
                val = {"mtime": (old.get("mtime") or 0) + 1 + rng.randrange(10 ** 6), "size": (old.get("size") or 0) + 1 + rng.randrange(10 ** 9),
                       "volume_id": "EDITED-%d" % rng.randrange(1000), "implant_md5": "%032x" % rng.getrandbits(128),
                       "bootable": not old.get("bootable")}[f]
                if isinstance(old.get(f), dict) or old.get(f) == val:
                    continue
                yield {"op": "edit", "args": {"spec": spec, "image": i, "field": f, "value": val}}
            else:
                # a document not written by the library: keys the reader has documented defaults for are absent
                doc = F.doc_of_spec(spec, F.rr(["1.2", "1.1", "1.2", "2.0"]), keep_defaults=rng.random() < 0.3)
                recs = [r for d in doc["payload"]["images"].values() for c in d.values() for r in c]
                saved = [dict() for _ in recs]
                for r, sv in zip(recs, saved):
                    if rng.random() < 0.5 and "format" in r:
                        sv["format"] = r.pop("format")                                    # read as "iso"
                    if rng.random() < 0.3 and not r.get("unified"):
                        for k in ("unified", "additional_variants"):
                            if k in r:
                                sv[k] = r.pop(k)
                    if rng.random() < 0.2:
                        r["mtime"] = str(r["mtime"]); r["bootable"] = int(r["bootable"])     # coerced by the reader
                    if rng.random() < 0.15:
                        r["disc_count"] = True                  # JSON `true` in an int attribute: the reader's int() makes it 1 (then valid)
                # the quantifier is over manifests whose images are distinguishable (identity unique since 1.1): an absent key
                # is read as its default, so records whose DEFAULTED identity would coincide with another image's (with other
                # checksums) get their explicit keys back, until the document is as distinguishable as the spec was
                while True:
                    groups = {}
                    for i, r in enumerate(recs):
                        groups.setdefault(json.dumps(F.identity7(F.read_record(r)), sort_keys=True), []).append(i)
                    clash = [i for g in groups.values() if len(set(json.dumps(recs[j].get("checksums"), sort_keys=True) for j in g)) > 1
                             for i in g if saved[i]]
                    if not clash:
                        break
                    for i in clash:
                        recs[i].update(saved[i]); saved[i] = {}
                yield {"op": "doc", "args": {"doc": doc}}

    # ------------------------------------------------------------------ real side
    def real_seq(self, case):
        im = F.lib()
        a = case["args"]
        def guarded_dumps(m):
            try:
                return {"ok": m.dumps()}
            except Exception as e:
                return checklib.err_class(e)
        if case["op"] == "doc":
            out = {}
            m = im.Images()
            try:
                m.loads(json.dumps(F.dec(a["doc"])))
            except Exception as e:
                return {"loads": checklib.err_class(e)}
            out["loads"] = {"ok": F.snap(m)}
            out["dumps"] = guarded_dumps(m)
            if "ok" in out["dumps"]:
                m2 = im.Images()
                try:
                    m2.loads(out["dumps"]["ok"]); out["loads2"] = {"ok": F.snap(m2)}; out["dumps2"] = guarded_dumps(m2)
                except Exception as e:
                    out["loads2"] = checklib.err_class(e)
            return out
        spec = a["spec"]
        if case["op"] == "twin":
            # two objects built interleaved in one process from the same spec; every read-only call twice
            m1 = im.Images(); m2 = im.Images()
            for m in (m1, m2):
                m.header.version = spec["version"]
                for f, val in spec["compose"].items():
                    setattr(m.compose, f, copy.deepcopy(val))
            o1 = []; o2 = []
            for attrs in spec["pool"]:
                o1.append(F.new_image(im, m1, attrs)); o2.append(F.new_image(im, m2, attrs, "inplace"))
            for v, arch, idx in spec["adds"]:
                m1.add(v, arch, o1[idx]); m2.add(v, arch, o2[idx])
            t1 = guarded_dumps(m1); t2 = guarded_dumps(m2); t1b = guarded_dumps(m1)
            ids = [list(im.identify_image(o)) for o in o1]
            return {"dumps": t1, "twin": t2, "again": t1b, "identify_twice": ids == [list(im.identify_image(o)) for o in o1],
                    "after_reads": F.snap_cells(m1.images)}
        if case["op"] == "repair":
            m, objs = F.build(spec)
            obj = objs[a["image"]]
            good = getattr(obj, a["field"])
            setattr(obj, a["field"], F.dec(copy.deepcopy(a["value"])))
            bad = guarded_dumps(m)
            setattr(obj, a["field"], good)
            out = {"failed": bad, "dumps": guarded_dumps(m)}
            if "ok" in out["dumps"]:
                m2 = im.Images(); m2.loads(out["dumps"]["ok"]); out["loads"] = {"ok": F.snap(m2)}
            return out
        if case["op"] == "edit":
            m, objs = F.build(spec)
            first = guarded_dumps(m)
            setattr(objs[a["image"]], a["field"], copy.deepcopy(a["value"]))
            out = {"first": "ok" if "ok" in first else first, "dumps": guarded_dumps(m)}
            if "ok" in out["dumps"]:
                m2 = im.Images()
                try:
                    m2.loads(out["dumps"]["ok"]); out["loads"] = {"ok": F.snap(m2)}; out["dumps2"] = guarded_dumps(m2)
                except Exception as e:
                    out["loads"] = checklib.err_class(e)
            return out
        if case["op"] == "cycle2":
            base = dict(spec, pool=spec["pool"])
            m, objs = F.build(base)
            t1 = m.dumps()
            m2 = im.Images(); m2.loads(t1)
            # modify the LOADED object: new image objects are created for it, removals go by path
            fresh = {}
            for e in a["post"]:
                if e[0] == "add":
                    if e[3] not in fresh:
                        fresh[e[3]] = F.new_image(im, m2, spec["pool"][e[3]])
                    m2.add(e[1], e[2], fresh[e[3]])
                else:
                    path = spec["pool"][e[3]]["path"]
                    for o in list(m2[e[1]][e[2]]):
                        if o.path == path:
                            m2[e[1]][e[2]].discard(o)
            out = {"dumps": guarded_dumps(m2)}
            if "ok" in out["dumps"]:
                m3 = im.Images()
                try:
                    m3.loads(out["dumps"]["ok"]); out["loads"] = {"ok": F.snap(m3)}; out["dumps2"] = guarded_dumps(m3)
                except Exception as e:
                    out["loads"] = checklib.err_class(e)
            return out

    def final_spec(self, case):
        """the spec describing the object that is finally dumped in a sequence case"""
        a = case["args"]
        spec = a["spec"]
        if case["op"] == "cycle2":
            return dict(spec, version="1.2", edits=list(spec.get("edits", [])) + a["post"])
        if case["op"] == "edit":
            pool = copy.deepcopy(spec["pool"])
            pool[a["image"]][a["field"]] = copy.deepcopy(a["value"])
            return dict(spec, pool=pool)
        return spec

    def real(self, case):
        if case["op"] != "cycle":
            try:
                return self.real_seq(case)
            except Exception as e:
                return {"build": checklib.err_class(e)}
        spec = case["args"]["spec"]
        im = F.lib()
        out = {}
        try:
            m, objs = F.build(spec)
        except Exception as e:
            return {"build": checklib.err_class(e)}
        out["build"] = "ok"
        try:
            t1 = m.dumps()
            out["dumps"] = {"ok": t1}
        except Exception as e:
            out["dumps"] = checklib.err_class(e)
            out["version_after"] = m.header.version
            return out
        out["version_after"] = m.header.version
        m2 = im.Images()
        try:
            m2.loads(t1)
            out["loads"] = {"ok": F.snap(m2)}
        except Exception as e:
            out["loads"] = checklib.err_class(e)
            return out
        try:
            out["dumps2"] = {"ok": m2.dumps()}
        except Exception as e:
            out["dumps2"] = checklib.err_class(e)
        return out

    # ------------------------------------------------------------------ model side
    def model_requests(self, case):
        if case["op"] == "doc":
            return [{"op": "images_loads", "args": {"doc": F.enc(case["args"]["doc"])}}]
        if case["op"] in ("cycle2", "twin", "repair", "edit"):
            return [{"op": "images_cycle", "args": {"state": F.model_state(self.final_spec(case))}}]
        return [{"op": "images_cycle", "args": {"state": F.model_state(case["args"]["spec"])}}]

    def model_result(self, case, outs):
        o = outs[0]
        if case["op"] == "doc":
            return {"loads": {"ok": F.snap_of_model_state(o["ok"])} if "ok" in o else o}
        if isinstance(o, dict) and "ok" in o.get("loads", {}):
            o = dict(o); o["loads"] = {"ok": F.snap_of_model_state(o["loads"]["ok"])}
        return o

    def compare(self, case, real_out, model_out):
        if case["op"] == "doc":
            r, mo = real_out.get("loads"), model_out.get("loads")
            return None if checklib.canon(r) == checklib.canon(mo) else {"real": r, "model": mo}
        if case["op"] in ("cycle2", "twin", "repair", "edit"):
            if "build" in real_out:
                return None
            r, mo = real_out.get("dumps"), model_out.get("dumps")
            if checklib.canon(r) != checklib.canon(mo):
                return {"real": {"dumps-sha": checklib.key_of(r)[:10]}, "model": {"dumps-sha": checklib.key_of(mo)[:10]}}
            return None
        if real_out.get("build") != "ok":
            return None                                   # the spec could not be built (not part of this property)
        r = dict((k, real_out.get(k)) for k in ("dumps", "loads", "dumps2"))
        mo = dict((k, model_out.get(k)) for k in ("dumps", "loads", "dumps2"))
        if checklib.canon(r) != checklib.canon(mo):
            def brief(x):
                return dict((k, (v if not (isinstance(v, dict) and "ok" in v and isinstance(v["ok"], str)) else {"ok-sha": checklib.key_of(v["ok"])[:10]})) for k, v in x.items())
            return {"real": brief(r), "model": brief(mo)}
        return None

    # ------------------------------------------------------------------ the property itself, on the real output
    def oracle_seq(self, case, real_out):
        a = case["args"]
        if "build" in real_out:
            return None
        if case["op"] == "doc":
            doc = F.dec(a["doc"])
            if "ok" not in real_out.get("loads", {}):
                return {"kind": "document-refused", "observed": real_out.get("loads"), "required": "a valid document whose optional keys are absent loads"}
            want = dict((v, dict((aa, sorted((F.read_record(r) for r in c), key=F.rec_key)) for aa, c in d.items())) for v, d in doc["payload"]["images"].items())
            if checklib.canon(real_out["loads"]["ok"]["images"]) != checklib.canon(want):
                return {"kind": "attributes-changed", "observed": {"read": real_out["loads"]["ok"]["images"], "document": doc["payload"]["images"]},
                        "required": "every image read under its variant and arch with the document's attributes and the documented defaults (format iso, unified False, additional_variants [])"}
            if "ok" in real_out.get("dumps", {}):
                l2 = real_out.get("loads2", {})
                if "ok" not in l2 or checklib.canon(l2["ok"]["images"]) != checklib.canon(want):
                    return {"kind": "attributes-changed", "observed": {"second_read": l2}, "required": "written and re-read manifest equals the document's content"}
                if real_out.get("dumps2") != real_out["dumps"]:
                    return {"kind": "bytes-differ", "observed": {"second_dump": "differs"}, "required": "writing the re-read manifest reproduces the file byte for byte"}
            return None
        spec = self.final_spec(case)
        if case["op"] == "twin":
            if real_out["twin"] != real_out["dumps"] or real_out["again"] != real_out["dumps"] or not real_out["identify_twice"]:
                return {"kind": "twin-differs", "observed": {"twin_equal": real_out["twin"] == real_out["dumps"], "second_call_equal": real_out["again"] == real_out["dumps"],
                                                             "identify_twice_equal": real_out["identify_twice"]},
                        "required": "two objects built interleaved from the same content (attributes assigned vs default containers filled in place) are written identically; read-only calls are repeatable"}
            if checklib.canon(real_out["after_reads"]) != checklib.canon(F.expected_snapshot(spec, keep_empty=True)):
                return {"kind": "state-changed-by-read", "observed": real_out["after_reads"], "required": "dumps / identify_image leave the manifest as built"}
            return None
        if case["op"] == "repair":
            if "ok" in real_out["failed"]:
                return None                                   # the value was accepted: nothing to repair
            if "ok" not in real_out["dumps"]:
                return {"kind": "repair-failed", "observed": real_out["dumps"], "required": "after the attribute is repaired the manifest is written"}
        if "ok" in real_out.get("dumps", {}):
            lo = real_out.get("loads", {})
            if "ok" not in lo:
                return {"kind": "reload-refused", "observed": {"reload": lo.get("err"), "identity_collisions": [], "built_under_version": spec["version"]},
                        "required": "a manifest the library wrote can be read back"}
            if checklib.canon(lo["ok"]["images"]) != checklib.canon(F.expected_snapshot(spec)):
                return {"kind": "attributes-changed", "observed": {"read_back": lo["ok"]["images"], "sequence": case["op"]},
                        "required": "after the sequence, every image is read back under its variant and arch with all fifteen attributes as put in"}
            if "dumps2" in real_out and real_out["dumps2"] != real_out["dumps"]:
                return {"kind": "bytes-differ", "observed": {"second_dump": "differs", "bool_in_int_fields": [], "only_bool_to_int": False},
                        "required": "writing the re-read manifest reproduces the file byte for byte"}
        return None

    def oracle(self, case, real_out):
        if case["op"] != "cycle":
            return self.oracle_seq(case, real_out)
        spec = case["args"]["spec"]
        if real_out.get("build") != "ok" or "ok" not in real_out.get("dumps", {}):
            return None                                   # the library did not agree to write
        filed = sorted(set(i for d in F.cells_of_spec(spec).values() for c in d.values() for i in c))
        facts = {"identity_collisions": F.uniq_violations([spec["pool"][i] for i in filed]),
                 "built_under_version": spec["version"], "bool_in_int_fields": bool_ints(spec)}
        lo = real_out.get("loads", {})
        if "ok" not in lo:
            return {"kind": "reload-refused", "observed": dict(facts, reload=lo.get("err")),
                    "required": "a manifest the library wrote can be read back"}
        got, want = lo["ok"]["images"], F.expected_snapshot(spec)
        if checklib.canon(got) != checklib.canon(want):
            diff = []
            for v in sorted(set(got) | set(want)):
                for a in sorted(set(got.get(v, {})) | set(want.get(v, {}))):
                    g, w = got.get(v, {}).get(a), want.get(v, {}).get(a)
                    if checklib.canon(g) != checklib.canon(w):
                        diff.append({"variant": v, "arch": a, "read_back": g, "written": w})
            only_bool = False
            return {"kind": "attributes-changed", "observed": dict(facts, cells=diff[:3], only_bool_to_int=only_bool),
                    "required": "every image read back under the same variant and arch with all fifteen attributes unchanged"}
        if checklib.canon(lo["ok"]["compose"]) != checklib.canon(norm_compose(spec["compose"])):
            return {"kind": "compose-changed", "observed": {"read_back": lo["ok"]["compose"], "written": spec["compose"]},
                    "required": "compose section intact"}
        d2 = real_out.get("dumps2", {})
        if d2.get("ok") != real_out["dumps"]["ok"]:
            only_bool = "ok" in d2 and bool(facts["bool_in_int_fields"]) and \
                json.dumps(unbool_doc(json.loads(real_out["dumps"]["ok"])), indent=4, sort_keys=True, separators=(",", ": ")) == d2["ok"]
            return {"kind": "bytes-differ", "observed": dict(facts, only_bool_to_int=only_bool, second_dump=(d2 if "err" in d2 else "text differs from the first dump")),
                    "required": "writing the re-read manifest reproduces the file byte for byte"}
        return None

    def nontrivial(self, case, real_out):
        if case["op"] == "doc":
            return "ok" in real_out.get("loads", {})
        return "ok" in real_out.get("dumps", {}) and bool(case["args"]["spec"]["adds"])

    def stats(self, case, real_out, dist):
        if case["op"] != "cycle":
            dist["seq:" + case["op"]] = dist.get("seq:" + case["op"], 0) + 1
            if case["op"] == "repair":
                k = "seq:repair.failed:" + ("accepted" if "ok" in real_out.get("failed", {}) else str(real_out.get("failed", real_out).get("err")))
                dist[k] = dist.get(k, 0) + 1
            if case["op"] == "doc":
                return
        spec = case["args"]["spec"]
        def inc(k, n=1):
            dist[k] = dist.get(k, 0) + n
        inc("cases")
        inc("images", len(spec["pool"])); inc("filings", len(spec["adds"]))
        inc("shared_objects", sum(1 for i in range(len(spec["pool"])) if len(set((a[0], a[1]) for a in spec["adds"] if a[2] == i)) > 1))
        inc("version:" + str(spec["version"]))
        if spec.get("edits"):
            inc("with_edits")
            cells = F.cells_of_spec(spec)
            inc("empty_cells", sum(1 for d in cells.values() for c in d.values() if not c))
            inc("variants_without_arches", sum(1 for d in cells.values() if not d))
        inc("dumps:" + ("ok" if "ok" in real_out.get("dumps", {}) else str(real_out.get("dumps", real_out.get("build")))))
        inc("unified", sum(1 for i in spec["pool"] if i.get("unified") is True))
        inc("size>2^32", sum(1 for i in spec["pool"] if isinstance(i.get("size"), int) and i["size"] > 2 ** 32))
        tys = dist.setdefault("types_formats_used", [])
        for i in spec["pool"]:
            tf = "%s/%s" % (i.get("type"), i.get("format"))
            if tf not in tys:
                tys.append(tf)
        ar = dist.setdefault("arches_used", [])
        for a in spec["adds"]:
            if a[1] not in ar:
                ar.append(a[1])

    def shrink_candidates(self, case):
        if case["op"] != "cycle":
            return []
        spec = case["args"]["spec"]
        out = []
        for i in range(len(spec["adds"])):
            s = copy.deepcopy(spec)
            del s["adds"][i]
            s["edits"] = F.valid_edits(s["pool"], s["adds"], s.get("edits", []))
            used = sorted(set(a[2] for a in s["adds"]) | set(e[3] for e in s["edits"] if e[0] in ("add", "discard")))
            remap = dict((old, new) for new, old in enumerate(used))
            s["pool"] = [s["pool"][o] for o in used]
            s["adds"] = [[a[0], a[1], remap[a[2]]] for a in s["adds"]]
            s["edits"] = [(e[:3] + [remap[e[3]]] if e[0] in ("add", "discard") else e) for e in s.get("edits", [])]
            s["edits"] = F.valid_edits(s["pool"], s["adds"], s["edits"])
            out.append({"op": "cycle", "args": {"spec": s}})
        for i in range(len(spec.get("edits", []))):
            s = copy.deepcopy(spec); del s["edits"][i]
            s["edits"] = F.valid_edits(s["pool"], s["adds"], s["edits"])
            out.append({"op": "cycle", "args": {"spec": s}})
        if spec["compose"].get("label"):
            s = copy.deepcopy(spec); s["compose"]["label"] = None; s["compose"]["final"] = False
            out.append({"op": "cycle", "args": {"spec": s}})
        return out


PROP = C02()

MANIFEST = dict(
    technique="Lean 4 proof over an executable model of images.py (serialize / deserialize / add mirrored statement by statement, validators and version gates regenerated from the source) + byte-exact differential check of dumps/loads against the real library + round-trip oracle on the real library",
    text="Theorem C02_readback_partial: for every manifest (any number of variants, arches, images per cell, objects filed in several cells) whose compose section and images validate (generated rule lists), whose cells are keyed by admissible arches and which satisfies identity uniqueness, serialize succeeds, deserialize of the written document succeeds, and the manifest read holds exactly the same multiset of (variant, arch, 15-attribute record) filings (C02_cells per cell, C02_all overall), compose section in normal form (C02_compose_norm_id: identity when a label is set or final is False), current version; C02_cycle_closed: the result satisfies the hypotheses again. C02_image_roundtrip / C02_compose_roundtrip are the field-level statements. C02_fixpoint: with distinct paths inside every cell the re-read manifest is written to a document with the same canonical form, hence the same bytes (the image table is a function of the multiset of filings: toPy_canon_perm); C02_bytes: dumps -> loads -> dumps returns the identical text, with json.load o print = id as explicit hypothesis. C02_empty_cells_not_written / C02_document_of_filings: cells may be empty sets and variants may lack arches (images removed through the public containers); the writer emits a key exactly for variants / (variant, arch) pairs that have a filing and never an empty list, and the document depends on the manifest only through its filings. C02_reload_canon (Img.reload_canon): the reader does not depend on the key order of the written document - deserialize(doc) and deserialize(key-sorted doc) both succeed and give the same content (Img.Same); C02_bytes_parsed: dumps -> modelled CPython json parser -> loads -> dumps returns the identical text from hypotheses on the OBJECT only (validators pass, containers hold JSON values, integers within the digit limit), no hypothesis about the library model left. The hypothesis Uniq is necessary: C02_F11_witness (decide). Integer attributes need no hypothesis: _assert_type accepts a bool only where bool is listed (generated flag Gen.assertTypeBoolStrict read from the method body), so a validated image holds ints (C02_valid_ints_proper) and a bool is refused with TypeError (C02_bool_int_refused, C02_bool_int_refused_witness; F22 repaired).",
    note="JSON parser not modelled (document-level statement; parser exercised by every generated case). F11: a manifest with an identity collision built under a pre-1.1 header is written but refused on reload (known finding).",
    ref="7/C02")
