"""C02 - image manifests survive a write/read cycle unchanged."""
import copy, json
import checklib
from checklib import Prop
from formats import images as F


def bool_ints(spec):
    return sorted(set(img["path"] for img in spec["pool"] for f in F.INT_FIELDS if isinstance(img.get(f), bool)))


def norm_compose(c):
    c = dict(c)
    if not c.get("label"):
        c["label"] = None; c["final"] = False          # documented: `final` is written only together with a label
    return c


def unbool_doc(doc):
    """the document with every bool in an integer attribute of an image replaced by the int it equals"""
    doc = copy.deepcopy(doc)
    for d in doc["payload"]["images"].values():
        for cell in d.values():
            for r in cell:
                for f in F.INT_FIELDS:
                    if isinstance(r.get(f), bool):
                        r[f] = int(r[f])
    return doc


class C02(Prop):
    id = "C02"
    lean_module = "ProductMD.Properties.C02"
    quick_budget = 260
    thorough_budget = 6000
    rule = ("manifests built through Image()/Images.add from generated specs (every image type x format round-robin, every binary "
            "arch of RPM_ARCHES, 0-6 images per cell with distinct paths in non-sorted insertion order, images removed again through the public containers (emptied cells, variants without arches, deleted variants, re-adds), sizes > 2^32 up to 2^64+3, "
            "null / non-empty volume ids, null / 32-hex md5, 1-3 checksum types, unified with additional variants, objects shared "
            "between cells, header 0.0/1.0/1.1/1.2/2.0): real dumps bytes == model bytes, real loads snapshot == model == spec "
            "(all 15 attributes per cell as multisets, compose), second dump byte-identical; non-trivial = written manifest with >= 1 image")
    assumptions = ["json.load(json.dump(v)) = v up to dict key order (CPython json, exercised by every case)",
                   "dict keys are str; floats inside checksums / additional_variants are opaque tokens",
                   "image objects are not mutated between Images.add and dumps"]
    partial = {
        "C02_readback_partial": "hypotheses Uniq (identity collisions are written but refused on reload: F11, C02_F11_witness) and ProperInts "
                                "(a bool in an int attribute comes back as 1/0: F22, C02_bool_int_witness); both excluded regions are real "
                                "defects with decide'd witnesses. C02_fixpoint / C02_bytes add DistinctPaths (the quantifier's own condition) and, "
                                "for C02_bytes, json.load(printed text) = document as the explicit hypothesis hjson",
    }

    # ------------------------------------------------------------------ cases
    def cases(self, rng, tier, budget):
        yield {"op": "cycle", "args": {"spec": {"version": "0.0", "compose": F.gen_compose(rng), "pool": [], "adds": []}}}
        n_f11 = n_f19 = 0                                  # the two known-finding streams are capped (they count as failures)
        for n in range(budget):
            r = rng.random()
            if r >= 0.86 and r < 0.90 and n_f11 >= 10:
                r = 0.0
            if r >= 0.90 and r < 0.92 and n_f19 >= 6:
                r = 0.0
            if r < 0.86:
                spec = F.gen(rng, tier)
            elif r < 0.90:                                   # F11 stream: identity collision under a pre-1.1 header
                spec = F.gen(rng, tier, version=rng.choice(["0.0", "1.0"]))
                if not spec["pool"]:
                    continue
                i = rng.randrange(len(spec["pool"]))
                twin = copy.deepcopy(spec["pool"][i]); twin["path"] = "collide/" + twin["path"]
                twin["checksums"] = dict((k, v[::-1] + "0") for k, v in twin["checksums"].items())
                spec["pool"].append(twin)
                spec["adds"].append([rng.choice([a[0] for a in spec["adds"]]), "x86_64", len(spec["pool"]) - 1])
                n_f11 += 1
            elif r < 0.92:                                   # bool where an int is documented
                spec = F.gen(rng, tier)
                if not spec["pool"]:
                    continue
                img = rng.choice(spec["pool"]); img[rng.choice(F.INT_FIELDS)] = True
                n_f19 += 1
                F.make_unique(spec["pool"]) if not isinstance(img["disc_number"], bool) else None
            else:                                            # the library refuses to write: one attribute out of its domain
                spec = F.gen(rng, tier)
                if not spec["pool"]:
                    continue
                img = rng.choice(spec["pool"])
                f, val = rng.choice([("size", 0), ("path", ""), ("type", "floppy"), ("format", "zip"), ("checksums", {}), ("volume_id", ""),
                                     ("implant_md5", "ABC"), ("bootable", 1), ("subvariant", None), ("additional_variants", ["x"]),
                                     ("mtime", "1"), ("disc_count", None), ("arch", ""), ("unified", None), ("disc_number", 1.5),
                                     ("checksums", {"md5": {"$other": True}})])
                if f == "additional_variants":
                    img["unified"] = False
                img[f] = val
                if rng.random() < 0.3:
                    spec["compose"][rng.choice(["date", "id", "respin"])] = rng.choice([None, "x", 5])
            if rng.random() < 0.18 and spec["adds"]:
                # images removed again through the public containers: emptied cells, variants without arches, re-adds
                spec["edits"] = F.gen_edits(rng, spec)
            yield {"op": "cycle", "args": {"spec": spec}}

    # ------------------------------------------------------------------ real side
    def real(self, case):
        spec = case["args"]["spec"]
        im = F.lib()
        out = {}
        try:
            m, objs = F.build(spec)
        except Exception as e:
            return {"build": checklib.err_class(e)}
        out["build"] = "ok"
        try:
            t1 = m.dumps()
            out["dumps"] = {"ok": t1}
        except Exception as e:
            out["dumps"] = checklib.err_class(e)
            out["version_after"] = m.header.version
            return out
        out["version_after"] = m.header.version
        m2 = im.Images()
        try:
            m2.loads(t1)
            out["loads"] = {"ok": F.snap(m2)}
        except Exception as e:
            out["loads"] = checklib.err_class(e)
            return out
        try:
            out["dumps2"] = {"ok": m2.dumps()}
        except Exception as e:
            out["dumps2"] = checklib.err_class(e)
        return out

    # ------------------------------------------------------------------ model side
    def model_requests(self, case):
        return [{"op": "images_cycle", "args": {"state": F.model_state(case["args"]["spec"])}}]

    def model_result(self, case, outs):
        o = outs[0]
        if isinstance(o, dict) and "ok" in o.get("loads", {}):
            o = dict(o); o["loads"] = {"ok": F.snap_of_model_state(o["loads"]["ok"])}
        return o

    def compare(self, case, real_out, model_out):
        if real_out.get("build") != "ok":
            return None                                   # the spec could not be built (not part of this property)
        r = dict((k, real_out.get(k)) for k in ("dumps", "loads", "dumps2"))
        mo = dict((k, model_out.get(k)) for k in ("dumps", "loads", "dumps2"))
        if checklib.canon(r) != checklib.canon(mo):
            def brief(x):
                return dict((k, (v if not (isinstance(v, dict) and "ok" in v and isinstance(v["ok"], str)) else {"ok-sha": checklib.key_of(v["ok"])[:10]})) for k, v in x.items())
            return {"real": brief(r), "model": brief(mo)}
        return None

    # ------------------------------------------------------------------ the property itself, on the real output
    def oracle(self, case, real_out):
        spec = case["args"]["spec"]
        if real_out.get("build") != "ok" or "ok" not in real_out.get("dumps", {}):
            return None                                   # the library did not agree to write
        filed = sorted(set(i for d in F.cells_of_spec(spec).values() for c in d.values() for i in c))
        facts = {"identity_collisions": F.uniq_violations([spec["pool"][i] for i in filed]),
                 "built_under_version": spec["version"], "bool_in_int_fields": bool_ints(spec)}
        lo = real_out.get("loads", {})
        if "ok" not in lo:
            return {"kind": "reload-refused", "observed": dict(facts, reload=lo.get("err")),
                    "required": "a manifest the library wrote can be read back"}
        got, want = lo["ok"]["images"], F.expected_snapshot(spec)
        if checklib.canon(got) != checklib.canon(want):
            diff = []
            for v in sorted(set(got) | set(want)):
                for a in sorted(set(got.get(v, {})) | set(want.get(v, {}))):
                    g, w = got.get(v, {}).get(a), want.get(v, {}).get(a)
                    if checklib.canon(g) != checklib.canon(w):
                        diff.append({"variant": v, "arch": a, "read_back": g, "written": w})
            only_bool = False
            return {"kind": "attributes-changed", "observed": dict(facts, cells=diff[:3], only_bool_to_int=only_bool),
                    "required": "every image read back under the same variant and arch with all fifteen attributes unchanged"}
        if checklib.canon(lo["ok"]["compose"]) != checklib.canon(norm_compose(spec["compose"])):
            return {"kind": "compose-changed", "observed": {"read_back": lo["ok"]["compose"], "written": spec["compose"]},
                    "required": "compose section intact"}
        d2 = real_out.get("dumps2", {})
        if d2.get("ok") != real_out["dumps"]["ok"]:
            only_bool = "ok" in d2 and bool(facts["bool_in_int_fields"]) and \
                json.dumps(unbool_doc(json.loads(real_out["dumps"]["ok"])), indent=4, sort_keys=True, separators=(",", ": ")) == d2["ok"]
            return {"kind": "bytes-differ", "observed": dict(facts, only_bool_to_int=only_bool, second_dump=(d2 if "err" in d2 else "text differs from the first dump")),
                    "required": "writing the re-read manifest reproduces the file byte for byte"}
        return None

    def nontrivial(self, case, real_out):
        return "ok" in real_out.get("dumps", {}) and bool(case["args"]["spec"]["adds"])

    def stats(self, case, real_out, dist):
        spec = case["args"]["spec"]
        def inc(k, n=1):
            dist[k] = dist.get(k, 0) + n
        inc("cases")
        inc("images", len(spec["pool"])); inc("filings", len(spec["adds"]))
        inc("shared_objects", sum(1 for i in range(len(spec["pool"])) if len(set((a[0], a[1]) for a in spec["adds"] if a[2] == i)) > 1))
        inc("version:" + str(spec["version"]))
        if spec.get("edits"):
            inc("with_edits")
            cells = F.cells_of_spec(spec)
            inc("empty_cells", sum(1 for d in cells.values() for c in d.values() if not c))
            inc("variants_without_arches", sum(1 for d in cells.values() if not d))
        inc("dumps:" + ("ok" if "ok" in real_out.get("dumps", {}) else str(real_out.get("dumps", real_out.get("build")))))
        inc("unified", sum(1 for i in spec["pool"] if i.get("unified") is True))
        inc("size>2^32", sum(1 for i in spec["pool"] if isinstance(i.get("size"), int) and i["size"] > 2 ** 32))
        tys = dist.setdefault("types_formats_used", [])
        for i in spec["pool"]:
            tf = "%s/%s" % (i.get("type"), i.get("format"))
            if tf not in tys:
                tys.append(tf)
        ar = dist.setdefault("arches_used", [])
        for a in spec["adds"]:
            if a[1] not in ar:
                ar.append(a[1])

    def shrink_candidates(self, case):
        spec = case["args"]["spec"]
        out = []
        for i in range(len(spec["adds"])):
            s = copy.deepcopy(spec)
            del s["adds"][i]
            s["edits"] = F.valid_edits(s["pool"], s["adds"], s.get("edits", []))
            used = sorted(set(a[2] for a in s["adds"]) | set(e[3] for e in s["edits"] if e[0] in ("add", "discard")))
            remap = dict((old, new) for new, old in enumerate(used))
            s["pool"] = [s["pool"][o] for o in used]
            s["adds"] = [[a[0], a[1], remap[a[2]]] for a in s["adds"]]
            s["edits"] = [(e[:3] + [remap[e[3]]] if e[0] in ("add", "discard") else e) for e in s.get("edits", [])]
            s["edits"] = F.valid_edits(s["pool"], s["adds"], s["edits"])
            out.append({"op": "cycle", "args": {"spec": s}})
        for i in range(len(spec.get("edits", []))):
            s = copy.deepcopy(spec); del s["edits"][i]
            s["edits"] = F.valid_edits(s["pool"], s["adds"], s["edits"])
            out.append({"op": "cycle", "args": {"spec": s}})
        if spec["compose"].get("label"):
            s = copy.deepcopy(spec); s["compose"]["label"] = None; s["compose"]["final"] = False
            out.append({"op": "cycle", "args": {"spec": s}})
        return out


PROP = C02()

MANIFEST = dict(
    technique="Lean 4 proof over an executable model of images.py (serialize / deserialize / add mirrored statement by statement, validators and version gates regenerated from the source) + byte-exact differential check of dumps/loads against the real library + round-trip oracle on the real library",
    text="Theorem C02_readback_partial: for every manifest (any number of variants, arches, images per cell, objects filed in several cells) whose compose section and images validate (generated rule lists), whose cells are keyed by admissible arches, whose integer attributes are ints and which satisfies identity uniqueness, serialize succeeds, deserialize of the written document succeeds, and the manifest read holds exactly the same multiset of (variant, arch, 15-attribute record) filings (C02_cells per cell, C02_all overall), compose section in normal form (C02_compose_norm_id: identity when a label is set or final is False), current version; C02_cycle_closed: the result satisfies the hypotheses again. C02_image_roundtrip / C02_compose_roundtrip are the field-level statements. C02_fixpoint: with distinct paths inside every cell the re-read manifest is written to a document with the same canonical form, hence the same bytes (the image table is a function of the multiset of filings: toPy_canon_perm); C02_bytes: dumps -> loads -> dumps returns the identical text, with json.load o print = id as explicit hypothesis. C02_empty_cells_not_written / C02_document_of_filings: cells may be empty sets and variants may lack arches (images removed through the public containers); the writer emits a key exactly for variants / (variant, arch) pairs that have a filing and never an empty list, and the document depends on the manifest only through its filings. Hypotheses are necessary: C02_F11_witness, C02_bool_int_witness (decide).",
    note="JSON parser not modelled (document-level statement; parser exercised by every generated case). F11: a manifest with an identity collision built under a pre-1.1 header is written but refused on reload (known finding).",
    ref="7/C02")
