"""C08 - serialisation is canonical: the bytes written depend on the content only.

Per case: ONE content (a spec of the shared adapters), k construction orders of it (every unordered container of the spec
rearranged by a seeded shuffle: variants at every level, arch sets, path tables, image adds and object creation order,
checksum dicts, platforms, image tables), dumped 1-3 times in S SEPARATE INTERPRETER PROCESSES with different
PYTHONHASHSEED values (harness/c08_worker.py; quick S = 3, thorough S = 16).

oracle (tie O): all byte strings equal; JSON text is exactly `json.dumps(parsed, indent=4, sort_keys=True)` of itself
(sorted keys at every level, 4-space indentation); treeinfo text has sorted sections and sorted options; caller-ordered
lists (additional_variants, disc numbers, module rpm lists, extra-file entries) come out in the caller's order; the object
after the dumps differs from the object before only in what the model says a dump changes.
repeat-dump dimension (op `c08_seq`): ONE object, sequences mixing `dump(main_variant=<each top-level key>)` and plain dumps in every
order (treeinfo, >= 2 top-level variants) resp. dumps -> (load into another object | read attributes | get_variants | dump_for_tree)
-> dumps (JSON formats, discinfo); every output is compared with a FRESH object of the same content dumped with the same argument
(hidden state of the real object; the model's dump is pure, C08_repeat_treeinfo).
correspondence (tie C): the Lean model's rendering of the base order and of every rearranged order (the definitions the
C08 theorems are about) equals the real bytes.
"""
import copy, json, os, random, subprocess
import checklib
from checklib import Prop, ROOT, REPO, PY
import formats.composeinfo as FCI
import formats.images as FIM
import formats.treeinfo as FTI
import formats.discinfo as FDI

try:                                       # rpms / modules / extra_files adapters (builder `builders`)
    import c08_manifests as FMF
except Exception:                          # noqa
    FMF = None

QUICK_SEEDS = [0, 1, 2]
THOROUGH_SEEDS = [0, 1, 2, 3, 5, 7, 11, 42, 99, 123, 1000, 4242, 65535, 123456, 2 ** 31 - 1, 4294967295]
JSON_FORMATS = ("composeinfo", "images", "rpms", "modules", "extra_files")


# ------------------------------------------------------------------------------------------------- rearrangements
def shuffled_dict(d, rng):
    items = list(d.items())
    rng.shuffle(items)
    return dict(items)


def permute(fmt, spec, seed):
    """the same content with every unordered container listed in another order (seed 0 = as given)"""
    if seed == 0:
        return spec
    rng = random.Random("perm-%s-%d" % (fmt, seed))
    s = copy.deepcopy(spec)
    if fmt == "composeinfo":
        def pv(v):
            rng.shuffle(v["arches"])
            v["paths"] = dict((cat, shuffled_dict(d, rng)) for cat, d in shuffled_dict(v["paths"], rng).items())
            rng.shuffle(v["variants"])
            for k in v["variants"]:
                pv(k)
        rng.shuffle(s["variants"])
        for v in s["variants"]:
            pv(v)
    elif fmt == "images":
        n = len(s["pool"])
        order = list(range(n))
        rng.shuffle(order)                      # object creation order (identity hashes follow allocation)
        new_index = dict((old, new) for new, old in enumerate(order))
        s["pool"] = [s["pool"][old] for old in order]
        for img in s["pool"]:
            if isinstance(img.get("checksums"), dict):
                img["checksums"] = shuffled_dict(img["checksums"], rng)
        s["adds"] = [[v, a, new_index[i]] for v, a, i in s["adds"]]
        rng.shuffle(s["adds"])
    elif fmt == "treeinfo":
        def pv(v):
            rng.shuffle(v["paths"])
            rng.shuffle(v["variants"])
            for k in v["variants"]:
                pv(k)
        rng.shuffle(s["variants"])
        for v in s["variants"]:
            pv(v)
        rng.shuffle(s["tree"]["platforms"])
        rng.shuffle(s["checksums"])
        rng.shuffle(s["images"])
        for p in s["images"]:
            rng.shuffle(p[1])
    elif fmt == "discinfo":
        pass                                    # no unordered part: disc numbers are caller-ordered content
    elif FMF is not None:
        # every other rearranged rpms history also DROPS the writes that a later write of the same slot replaces: the same content
        # (last write wins) built with fewer calls must be written as the same bytes
        s = FMF.permute(fmt, s, rng, reduce=(fmt == "rpms" and seed % 2 == 0))
    return s


# ------------------------------------------------------------------------------------------------- generators
def boost_composeinfo(spec, rng):
    """>= 3 children added in non-ascending id order under some top-level variant"""
    tops = [v for v in spec["variants"] if "-" not in v["uid"]]
    if not tops:
        return spec
    p = rng.choice(tops)
    ids = rng.sample(["zz9", "B2", "a1", "Mid", "C0", "10", "9", "aa", "Z"], rng.randint(3, 5))
    ids.sort(reverse=True)
    if rng.random() < 0.5:
        rng.shuffle(ids)
    have = set(k["id"] for k in p["variants"])
    for i, cid in enumerate(ids):
        if cid in have:
            continue
        arches = rng.sample(sorted(p["arches"]), rng.randint(1, len(p["arches"])))
        uid = p["uid"] + "-" + cid
        paths = {}
        for cat in rng.sample(FCI.CATEGORIES, rng.randint(0, 3)):
            paths[cat] = dict((a, "%s/%s/%s" % (uid, a, cat)) for a in arches)
        p["variants"].append({"key": cid, "id": cid, "uid": uid, "name": "Kid %s" % cid, "type": rng.choice(["variant", "optional", "addon"]),
                              "arches": arches, "paths": paths, "release": None, "variants": []})
    return spec


KEY_SHAPES = ["Server", "server", "SERVER", "S\u00e9rver", "\U0001F4BF", "ppc", "ppc64", "ppc64le", "None", "null", "0", "1.0", "False",
              "a b", " lead", "trail ", "tab\tkey", "\u00a0", "a.b", "a:b", 'q"uote', "back\\slash", "a,b", "a/b", "a=b", "#h", "%p", "[b]", ";s", "a--b", "x" * 300, "\u0663", "\uff17", "Z", "a", "_"]


def boost_composeinfo2(spec, rng, cls):
    """further container classes: >= 3 top-level variants (ids sorting differently by case / digits), >= 3 children at depth >= 2,
    >= 3 path categories each with >= 3 arches (prefix family ppc/ppc64/ppc64le, non-ASCII arch names), long path values"""
    arches = ["x86_64", "ppc64le", "ppc64", "ppc", "aarch64", "s390x", "\u00e9arch", "None", "0"]

    def var(parent, vid, n_arch=4):
        uid = vid if parent is None else parent["uid"] + "-" + vid
        pool = sorted(parent["arches"]) if parent is not None else arches
        ar = rng.sample(pool, min(len(pool), n_arch))
        ar.sort(reverse=True)
        return {"key": vid, "id": vid, "uid": uid, "name": "n " + vid, "type": "variant", "arches": ar, "paths": {}, "release": None, "variants": []}
    if cls == 0:
        have = set(v["id"] for v in spec["variants"])
        for vid in ["zz", "b", "Z9", "B", "10", "9", "a"][:rng.randint(3, 6)]:
            if vid not in have and not any(vid.lower() == h.lower() and False for h in have):
                spec["variants"].append(var(None, vid))
    elif cls == 1:
        top = var(None, "Deep%d" % rng.randrange(100), 6)
        mid = var(top, "Mid")
        mid["arches"] = list(top["arches"])
        for cid in ["z", "M", "a1", "A1", "00"][:rng.randint(3, 5)]:
            k = var(mid, cid, 3)
            mid["variants"].append(k)
            if cid == "z":
                for gid in ["y", "X", "1"]:
                    k["variants"].append(var(k, gid, 2))
        top["variants"].append(mid)
        spec["variants"].append(top)
    elif cls == 2:
        v = var(None, "Paths%d" % rng.randrange(100), 6)
        cats = list(FCI.CATEGORIES)
        rng.shuffle(cats)
        for cat in sorted(cats[:rng.randint(3, 14)], reverse=True):
            v["paths"][cat] = dict((a, ("%s/%s/%s" % (v["uid"], a, cat)) + ("/" + "p" * 300 if rng.random() < 0.1 else "")) for a in v["arches"])
        spec["variants"].append(v)
    return spec


def boost_images2(spec, rng, cls):
    """>= 3 variants / >= 3 arches per variant with key shapes (descending), >= 3 checksum types incl. keys differing only in case,
    additional_variants with >= 3 entries in non-sorted order and a repeated entry"""
    t = FIM.tables()
    k = rng.randrange(len(t["tf"]))

    def add(v, a, **over):
        img = FIM.gen_image(rng, k + len(spec["pool"]), v if all(ord(c) < 128 for c in v) and len(v) < 50 else "V", a, t)
        img["disc_number"] = 3000 + len(spec["pool"])
        img["disc_count"] = 9000
        img.update(over)
        spec["pool"].append(img)
        spec["adds"].append([v, a, len(spec["pool"]) - 1])
    if cls == 0:
        for v in sorted(["server", "Server", "\uff17", "\U0001F4BF"] + rng.sample(KEY_SHAPES[2:], 2), reverse=True):
            add(v, "x86_64")
    elif cls == 1:
        for a in sorted(["ppc", "ppc64", "ppc64le", "aarch64", "s390x", "i386"][:rng.randint(3, 6)], reverse=True):
            add("Everything", a)
    elif cls == 2:
        cks = {}
        for ty in ["sha256", "SHA256", "md5", "Sha256", "sha1", "\u00e9"][:rng.randint(3, 6)]:
            cks[ty] = "%064x" % rng.getrandbits(256)
        add("Client", "x86_64", checksums=cks)
        add("Client", "x86_64", checksums=dict(reversed(list(cks.items()))))
    elif cls == 3:
        add("Workstation", "x86_64", unified=True, additional_variants=["Server", "Client", "A", "server", "Client", "10", "9"][:rng.randint(3, 7)])
    elif cls == 4:
        # TWINS in one cell: distinct paths (and mtime / size), the SAME seven identity attributes and the SAME checksums - legal (only
        # differing checksums are refused) - on a manifest whose header version makes `Images.add` run its uniqueness scan (>= 1.1)
        spec["version"] = rng.choice(["1.2", "1.1", "2.0"])
        base = FIM.gen_image(rng, k, "Twins", "x86_64", t)
        base["disc_number"], base["disc_count"] = 4000 + len(spec["pool"]), 9000
        for j, name in enumerate(["zz-latest", "a-22", "M-copy", "0-first"][:rng.randint(2, 4)]):
            tw = copy.deepcopy(base)
            tw["path"] = "Twins/x86_64/images/%s.%s" % (name, base["format"])
            tw["mtime"], tw["size"] = 1000 + j, 5 + j
            spec["pool"].append(tw)
            spec["adds"].append(["Twins", "x86_64", len(spec["pool"]) - 1])
    return spec


def boost_treeinfo2(spec, rng, cls):
    """>= 3 top-level variants, >= 3 children at depth 2, >= 3 checksums, >= 3 image platforms each with >= 3 images, all in
    descending order; names that differ only in case, prefix families, non-ASCII"""
    def var(uid_parent, vid, typ="variant"):
        uid = vid if uid_parent is None else uid_parent + "-" + vid
        return {"key": vid, "id": vid, "uid": uid, "name": "N " + vid, "type": typ,
                "paths": [[f, "p/%s/%s" % (vid, f)] for f in rng.sample(FTI.PATH_FIELDS, rng.randint(0, 7))], "variants": []}
    have = set(v["key"] for v in spec["variants"])
    if cls == 0:
        for vid in ["zz", "b", "Z9", "B", "10", "9"][:rng.randint(3, 6)]:
            if vid not in have:
                spec["variants"].append(var(None, vid))
    elif cls == 1:
        top = var(None, "Deep%d" % rng.randrange(100))
        mid = var(top["uid"], "Mid", "addon")
        for cid in ["z", "M", "a1", "A1"][:rng.randint(3, 4)]:
            mid["variants"].append(var(mid["uid"], cid, rng.choice(["addon", "variant", "optional"])))
        top["variants"].append(mid)
        spec["variants"].append(top)
    elif cls == 2:
        paths = ["z/last", "images/boot.iso", "Images/boot.iso", "a b/c", "10", "9", "\u00e9/x", "images/pxeboot/vmlinuz"]
        spec["checksums"] = [[p, rng.choice(["sha256", "md5", "SHA256"]), "%064x" % rng.getrandbits(256)] for p in paths[:rng.randint(3, 8)]]
    elif cls == 3:
        plats = ["xen", "XEN", "ppc", "ppc64", "ppc64le", "efi", "\u00e9fi"][:rng.randint(3, 7)]
        plats.sort(reverse=True)
        names = ["kernel", "Kernel", "initrd", "boot.iso", "zz", "10", "9", "\u00e9"]
        spec["images"] = [[p, [[n, "images/%s/%s" % (p, n)] for n in sorted(names[:rng.randint(3, 8)], reverse=True)]] for p in plats]
        spec["tree"]["platforms"] = sorted(set(spec["tree"]["platforms"]) | set(plats), reverse=True)
    return spec


def boost_images(spec, rng):
    """a cell with >= 3 images whose path order differs from insertion order; equal base names in different directories"""
    t = FIM.tables()
    v, a = rng.choice(["Server", "Client", "Everything"]), rng.choice(["x86_64", "aarch64", "ppc64le"])
    k = rng.randrange(len(t["tf"]))
    names = ["boot.iso", "boot.iso", "boot.iso", "zz.iso", "Aa.iso", "10.iso", "9.iso"]
    dirs = ["iso", "os/images", "images", "z", "A", "0"]
    paths = []
    for j in range(rng.randint(3, 6)):
        while True:
            p = "%s/%s/%s/%s" % (v, a, rng.choice(dirs), names[j % len(names)])
            if p not in paths:
                paths.append(p)
                break
    paths.sort(reverse=True)
    if rng.random() < 0.4:
        rng.shuffle(paths)
    for j, p in enumerate(paths):
        img = FIM.gen_image(rng, k + j, v, a, t)
        img["path"] = p
        img["disc_number"] = 1000 + len(spec["pool"])          # keeps the identity tuples apart
        img["disc_count"] = 2000
        spec["pool"].append(img)
        spec["adds"].append([v, a, len(spec["pool"]) - 1])
    return spec


def boost_treeinfo(spec, rng):
    """>= 3 addons under a top-level variant, >= 3 platforms"""
    tops = [v for v in spec["variants"] if v["key"] == v["id"] and "-" not in v["uid"]]
    if tops:
        p = rng.choice(tops)
        have = set(k["id"] for k in p["variants"])
        ids = rng.sample(["zeta", "HA", "beta", "Alpha", "RS", "10", "9"], rng.randint(3, 5))
        ids.sort(reverse=True)
        if rng.random() < 0.5:
            rng.shuffle(ids)
        for cid in ids:
            if cid in have:
                continue
            p["variants"].append({"key": cid, "id": cid, "uid": p["uid"] + "-" + cid, "name": "Addon " + cid,
                                  "type": rng.choice(["addon", "addon", "variant", "optional"]),
                                  "paths": [[f, "addons/%s/%s" % (cid, f)] for f in rng.sample(FTI.PATH_FIELDS, rng.randint(0, 3))],
                                  "variants": []})
    plats = set(spec["tree"]["platforms"]) | set(rng.sample(["xen", "uboot", "efi", "z-last", "A-first", "ppc64le", "0"], rng.randint(3, 5)))
    plats = sorted(plats, reverse=True)
    spec["tree"]["platforms"] = plats
    return spec


def _u3(keys):
    keys = list(dict.fromkeys(keys))
    return len(keys) >= 3 and keys != sorted(keys)


def _shapes(prefix, keys, f):
    keys = list(keys)
    low = [k.lower() for k in keys]
    if len(set(low)) < len(set(keys)):
        f.append(prefix + ":keys differing only in case")
    if any(ord(c) > 127 for k in keys for c in k):
        f.append(prefix + ":non-ASCII key")
    if any(len(k) >= 300 for k in keys):
        f.append(prefix + ":key >= 300 chars")
    if any(k in ("None", "null", "0", "1.0", "False") for k in keys):
        f.append(prefix + ":key that looks like another type")
    if any(a != b and b.startswith(a) for a in keys for b in keys):
        f.append(prefix + ":one key a prefix of another")
    if any(k != k.strip() or "\t" in k or "\u00a0" in k for k in keys):
        f.append(prefix + ":key with leading/trailing blank, tab or NBSP")
    if any(c in k for k in keys for c in '"\\,/=#%[];'):
        f.append(prefix + ":key containing a delimiter / quote / backslash")
    if any(ord(c) > 0xFFFF for k in keys for c in k) and any(0xD7FF < ord(c) <= 0xFFFF for k in keys for c in k):
        f.append(prefix + ":astral and high-BMP key in one dict (code-point vs UTF-16 order)")


def features(fmt, spec):
    """which unordered containers of the case have >= 3 entries whose insertion order differs from the sorted order (the coverage
    matrix of docs/audit_C08.md), plus key shapes"""
    f = []
    if fmt == "composeinfo":
        if _u3(v["key"] for v in spec["variants"]):
            f.append("ci:top-level variant dict >=3 unsorted")
        _shapes("ci:variant ids", [v["id"] for v, _ in FCI.walk(spec)], f)
        for v, parent in FCI.walk(spec):
            ids = [k["id"] for k in v["variants"]]
            if _u3(ids):
                f.append("ci:>=3 kids, non-ascending" if parent is None else "ci:child dict at depth >=2, >=3 unsorted")
            if _u3(v["arches"]):
                f.append("ci:>=3 arches, unsorted")
            _shapes("ci:arches", v["arches"], f)
            if _u3(v["paths"]):
                f.append("ci:path categories >=3 unsorted")
            if any(_u3(d) for d in v["paths"].values()):
                f.append("ci:arch table of a path category >=3 unsorted")
            if any(len(p) >= 300 for d in v["paths"].values() for p in d.values()):
                f.append("ci:path value >= 300 chars")
        if len(spec["variants"]) >= 2:
            f.append("ci:>=2 top-level")
    elif fmt == "images":
        cells = FIM.cells_of_adds(spec["pool"], spec["adds"])
        if _u3(cells):
            f.append("im:variant dict >=3 unsorted")
        _shapes("im:variant keys", cells, f)
        for v, d in cells.items():
            if _u3(d):
                f.append("im:arch dict >=3 unsorted")
            _shapes("im:arch keys", d, f)
            for a, c in d.items():
                ps = [spec["pool"][i]["path"] for i in c]
                if len(ps) >= 3 and ps != sorted(ps):
                    f.append("im:cell >=3, path order != insertion order")
                bases = [p.rsplit("/", 1)[-1] for p in ps]
                if len(set(bases)) < len(bases):
                    f.append("im:same base name in one cell")
        for i in spec["pool"]:
            ck = i.get("checksums") or {}
            if len(ck) >= 2:
                f.append("im:>=2 checksum types")
            if _u3(ck):
                f.append("im:checksum dict >=3 unsorted")
            _shapes("im:checksum keys", ck, f)
            av = i.get("additional_variants") or []
            if len(av) >= 3 and av != sorted(av):
                f.append("im:additional_variants >=3, not sorted (caller order)")
            if len(set(av)) < len(av):
                f.append("im:additional_variants with a repeated entry")
        idx = [x[2] for x in spec["adds"]]
        if len(set(idx)) < len(idx):
            f.append("im:one object filed in several cells")
        for v, d in cells.items():
            for a, c in d.items():
                ids = [json.dumps([FIM.identity7(spec["pool"][i]), spec["pool"][i]["checksums"]], sort_keys=True, default=str) for i in c]
                if len(set(ids)) < len(ids) and spec.get("version") not in ("0.0", "1.0"):
                    f.append("im:twins in one cell (equal identity and checksums, distinct paths), header >= 1.1")
    elif fmt == "treeinfo":
        if _u3(v["key"] for v in spec["variants"]):
            f.append("ti:top-level variant dict >=3 unsorted")
        uids = [v["uid"] for v in spec["variants"]]
        if len(set(uids)) < len(uids):
            f.append("ti:two top-level variants with one UID")
        for v, parent in FTI.all_variants(spec["variants"]):
            uids = [k["uid"] for k in v["variants"]]
            if _u3(uids):
                f.append("ti:>=3 addons, non-ascending" if parent is None else "ti:child dict at depth >=2, >=3 unsorted")
            if _u3(p[0] for p in v["paths"]):
                f.append("ti:variant path table >=3 unsorted")
        pl = spec["tree"]["platforms"]
        if _u3(pl):
            f.append("ti:>=3 platforms, unsorted")
        _shapes("ti:platforms", pl, f)
        if len(spec["variants"]) >= 2:
            f.append("ti:>=2 top-level")
        if len(spec["checksums"]) >= 2:
            f.append("ti:>=2 checksums")
        if _u3(c[0] for c in spec["checksums"]):
            f.append("ti:checksum table >=3 unsorted")
        _shapes("ti:checksum paths", [c[0] for c in spec["checksums"]], f)
        if _u3(p[0] for p in spec["images"]):
            f.append("ti:image platform table >=3 unsorted")
        if any(_u3(x[0] for x in p[1]) for p in spec["images"]):
            f.append("ti:images of one platform >=3 unsorted")
        for p in spec["images"]:
            _shapes("ti:image names", [x[0] for x in p[1]], f)
    elif fmt == "discinfo":
        d = spec["disc_numbers"]
        if len(d) >= 2 and d != sorted(d):
            f.append("di:disc numbers not ascending")
        if len(d) >= 3 and d != sorted(d) and len(set(d)) < len(d):
            f.append("di:>=3 disc numbers, not ascending, one repeated")
    elif FMF is not None:
        f.extend(FMF.features(fmt, spec))
    return sorted(set(f))


# ------------------------------------------------------------------------------------------------- text checks
def ini_layout(text):
    """None if sections and options are sorted and every option line is `key = value`; else a description"""
    secs, cur = [], None
    for line in text.split("\n"):
        if line.startswith("[") and line.endswith("]"):
            cur = [line[1:-1], []]
            secs.append(cur)
        elif line == "" or line.startswith("\t"):
            continue
        elif cur is None or " = " not in line:
            return "unexpected line %r" % line
        else:
            cur[1].append(line.split(" = ", 1)[0])
    names = [s[0] for s in secs]
    if names != sorted(names):
        return "sections not sorted: %r" % names
    for n, opts in secs:
        if opts != sorted(opts):
            return "options of [%s] not sorted: %r" % (n, opts)
    return None


def json_layout(text):
    try:
        doc = json.loads(text)
    except ValueError as e:
        return "not JSON: %s" % e
    if json.dumps(doc, indent=4, sort_keys=True, separators=(",", ": ")) != text:
        return "text is not json.dumps(indent=4, sort_keys=True) of its own content"
    return None


def order_kept(fmt, spec, text):
    """caller-ordered lists appear in the caller's order"""
    if fmt == "images":
        doc = json.loads(text)
        want = dict((i["path"], i["additional_variants"]) for i in spec["pool"] if i.get("unified"))
        for v, d in doc["payload"]["images"].items():
            for a, l in d.items():
                for img in l:
                    if img.get("unified") and want.get(img["path"]) != img.get("additional_variants"):
                        return "additional_variants of %s: %r, caller gave %r" % (img["path"], img.get("additional_variants"), want.get(img["path"]))
    elif fmt == "discinfo":
        lines = text.split("\n")
        d = spec["disc_numbers"]
        exp = "ALL" if d == ["ALL"] else ",".join(str(i) for i in d)
        if len(lines) < 4 or lines[3] != exp:
            return "disc numbers line %r, caller gave %r" % (lines[3:4], exp)
    elif FMF is not None and fmt in ("rpms", "modules", "extra_files"):
        return FMF.order_kept(fmt, spec, text)
    return None


def expected_after(fmt, before):
    """what the dumps may change (everything else in the snapshot must stay)"""
    cur = None
    if fmt in JSON_FORMATS:
        import productmd.common
        cur = ".".join(str(i) for i in productmd.common.VERSION)
    exp = copy.deepcopy(before)
    if cur is not None:
        exp["version"] = cur                    # Header.serialize: set_current_version()
    if fmt == "composeinfo":
        for uid, (vtype, lay, name) in exp["layered"].items():
            if vtype == "layered-product":
                exp["layered"][uid] = [vtype, True, name]          # Variant.serialize: release.is_layered = True
    return exp


class Workers(object):
    """one persistent interpreter process per hash seed"""
    def __init__(self):
        self.procs = {}

    def get(self, hs):
        p = self.procs.get(hs)
        if p is None or p.poll() is not None:
            env = dict(os.environ, PYTHONHASHSEED=str(hs), PRODUCTMD_REPO=REPO)
            p = subprocess.Popen([PY, os.path.join(ROOT, "harness", "c08_worker.py")], stdin=subprocess.PIPE, stdout=subprocess.PIPE,
                                 text=True, env=env)
            self.procs[hs] = p
        return p

    def ask(self, seeds, req):
        line = json.dumps(req, ensure_ascii=True) + "\n"
        out = {}
        for i in range(0, len(seeds), 4):                  # at most 4 interpreters busy at a time
            group = seeds[i:i + 4]
            for hs in group:
                p = self.get(hs)
                p.stdin.write(line)
                p.stdin.flush()
            for hs in group:
                ans = self.procs[hs].stdout.readline()
                if not ans:
                    raise checklib.Infra("C08 worker for hash seed %s died" % hs)
                out[hs] = json.loads(ans)
        return out

    def close(self):
        for p in self.procs.values():
            try:
                p.stdin.close()
                p.wait(timeout=5)
            except Exception:  # noqa
                p.kill()
        self.procs = {}


class C08(Prop):
    id = "C08"
    lean_module = "ProductMD.Properties.C08"
    quick_budget = 470
    thorough_budget = 2400
    rule = ("per case one content x k construction orders (seeded shuffles of every unordered container) x S hash seeds in separate "
            "interpreter processes x 1-3 dumps: all byte strings equal, equal to the Lean model's rendering of every order; JSON text = "
            "json.dumps(indent=4, sort_keys=True) of itself, INI sections/options sorted, caller-ordered lists kept, object state after "
            "dumps as modelled; non-trivial = distinct content with >= 2 orders")
    assumptions = ["CPython dict/set iteration order is a function of insertion history and hash seed (covered in the theorems by quantifying "
                   "over all rearrangements)", "json.load is the inverse of the modelled printer (layout oracle)"]
    partial = {"C08_perm_treeinfo": "full for EVERY main_variant under the side condition that siblings are told apart by key and by UID at "
               "every level (TI.c8Siblings); without the UID part the statement is false - two top-level variants of one UID and "
               "main_variant = that UID give order-dependent bytes (C08_treeinfo_shared_uid_witness, finding F44); for main_variant None or a "
               "top-level key the UID part is not needed (C08_perm_treeinfo_top_key)",
               "C08_perm_composeinfo": "bytes of successful dumps (which exception a failing dump raises can depend on the order: the first "
               "offending child wins)"}

    def __init__(self):
        self.workers = Workers()
        self.tier = "quick"

    # ---- generators
    def formats(self):
        fm = ["composeinfo", "images", "treeinfo", "discinfo"]
        if FMF is not None:
            fm += ["rpms", "modules", "extra_files"]
        return fm

    def gen_spec(self, fmt, rng, tier, i):
        mv = None
        if fmt == "composeinfo":
            spec = FCI.gen(rng, tier)
            for v, _ in FCI.walk(spec):                   # valid contents: the writer refuses blank releases of layered products
                pass
            # round-robin over the container classes (i % 8): 0-2 children of a top-level variant, 3-5 the further classes, 6-7 plain
            if i % 8 <= 2:
                spec = boost_composeinfo(spec, rng)
            elif i % 8 <= 5:
                spec = boost_composeinfo2(spec, rng, i % 8 - 3)
        elif fmt == "images":
            spec = FIM.gen(rng, tier, version=rng.choice(["1.2", "1.2", "1.1", "0.0", "2.0"]))
            if i % 8 <= 2:
                spec = boost_images(spec, rng)
            else:
                spec = boost_images2(spec, rng, i % 8 - 3)
        elif fmt == "treeinfo":
            spec, mv = FTI.gen(rng, tier)
            if i % 8 <= 2:
                spec = boost_treeinfo(spec, rng)
            elif i % 8 <= 6:
                spec = boost_treeinfo2(spec, rng, i % 8 - 3)
            elif i % 16 == 7:
                # two top-level variants that share ONE UID (legal: a top-level UID is not validated; types variant/addon keep their
                # sections apart) and main_variant = that UID: resolved by a first-match UID scan (C08_treeinfo_shared_uid_witness, F44)
                have = set(v["key"] for v in spec["variants"])
                ids = [x for x in ("Xs", "Ys") if x not in have]
                if len(ids) == 2:
                    uid = "Sh-ared%d" % rng.randrange(10)
                    for vid, typ in zip(ids, rng.choice([("variant", "addon"), ("addon", "optional")])):
                        spec["variants"].append({"key": vid, "id": vid, "uid": uid, "name": "N " + vid, "type": typ,
                                                 "paths": [["packages", "pkgs-" + vid], ["repository", "repo-" + vid]], "variants": []})
                    mv = uid
        elif fmt == "discinfo":
            spec = FDI.gen(rng, tier)
            if i % 3 == 0:                              # >= 3 disc numbers, not ascending, one repeated (caller-ordered content)
                spec["disc_numbers"] = rng.choice([[3, 1, 2, 1], [10, 9, 2 ** 40, 0, 10], [2, 2, 1], [5, 4, 3, 2, 1]])
        else:
            spec = FMF.gen(fmt, rng, tier)
            if i % 6 != 5:
                spec = FMF.boost(fmt, spec, rng, i)
        return spec, mv

    def cases(self, rng, tier, budget):
        self.tier = tier
        seeds = THOROUGH_SEEDS if tier == "thorough" else QUICK_SEEDS
        fm = self.formats()
        weights = {"discinfo": 0.25}
        per = max(4, int(budget / sum(weights.get(f, 1.0) for f in fm)))
        for fmt in fm:
            n = max(3, int(per * weights.get(fmt, 1.0)))
            for i in range(n):
                spec, mv = self.gen_spec(fmt, rng, tier, i)
                k = 1 if fmt == "discinfo" else rng.choice([2, 3, 3, 4])
                orders = [0] + [rng.randrange(1, 10 ** 6) for _ in range(k)]
                # construction styles: every second case rebuilds the containers of the rearranged objects through the other public
                # idioms (in-place refill, remove + re-add, add + remove, empty buckets); every third case builds all objects first
                styles = [0] + [(o if (i % 2 == 0 and fmt in ("composeinfo", "images", "treeinfo", "discinfo")) else 0) for o in orders[1:]]
                yield {"op": "c08", "args": {"fmt": fmt, "spec": spec, "mv": mv, "orders": orders, "ndumps": rng.choice([1, 2, 3]),
                                            "hashseeds": seeds, "styles": styles, "interleave": i % 3 == 1}}
        for c in self.seq_cases(rng, tier, budget, seeds):
            yield c

    def seq_cases(self, rng, tier, budget, seeds):
        """repeat-dump dimension: ONE object, a sequence of dumps and uses; every dump is compared with a FRESH object of the same
        content dumped with the same argument.  treeinfo: `dump(main_variant=<each top-level key>)` and plain dumps in every order
        (all permutations for <= 3 arguments, 6 random ones otherwise), each followed by one more plain dump; JSON formats and
        discinfo: dumps -> (load the text into another object | read every attribute | get_variants / __getitem__ | dump_for_tree)
        -> dumps."""
        import itertools
        n_ti = max(6, budget // 18)
        made = 0
        tries = 0
        while made < n_ti and tries < 40 * n_ti:
            tries += 1
            spec, _ = FTI.gen(rng, tier)
            keys = [v["key"] for v in spec["variants"]]
            if len(keys) < 2:
                continue
            if made % 2 == 0:
                spec = boost_treeinfo(spec, rng)
            items = [None] + sorted(keys)
            perms = list(itertools.permutations(items))
            if len(perms) > 6:
                perms = rng.sample(perms, 6)
            for pm in perms:
                steps = [{"dump": x} for x in pm] + [{"dump": None}]
                if rng.random() < 0.3:
                    steps.insert(rng.randrange(1, len(steps)), {"touch": rng.choice(["attrs", "get_variants", "load_other"])})
                yield {"op": "c08_seq", "args": {"fmt": "treeinfo", "spec": spec, "steps": steps, "hashseeds": seeds[:1]}}
            made += 1
        # extra_files: per-tree exports with a basepath that REALLY prefixes stored paths, between dumps
        if "extra_files" in self.formats():
            made = tries = 0
            n_ef = max(6, budget // 25)
            while made < n_ef and tries < 20 * n_ef:
                tries += 1
                spec, _ = self.gen_spec("extra_files", rng, tier, tries)
                cells = {}
                for o in spec["ops"]:
                    if "/" in o["path"]:
                        cells.setdefault((o["variant"], o["arch"]), []).append(o["path"])
                if not cells:
                    continue
                (v, a), paths = rng.choice(sorted(cells.items()))
                prefixes = set()
                for pth in paths:
                    parts = pth.split("/")
                    for i in range(1, len(parts)):
                        prefixes.add("/".join(parts[:i]))
                prefixes = sorted(prefixes)
                b1 = rng.choice(prefixes)
                b2 = rng.choice([x for x in prefixes if x != b1] or [b1 + "/x"])
                if rng.random() < 0.5:
                    b1 += "/"
                if rng.random() < 0.3:
                    b2 += "/"
                steps = [{"dump": None}, {"export": [v, a, b1]}, {"dump": None}, {"export": [v, a, b2]}, {"export": [v, a, b1]}, {"dump": None}]
                yield {"op": "c08_seq", "args": {"fmt": "extra_files", "spec": spec, "steps": steps, "hashseeds": seeds[:1]}}
                made += 1
        # dump -> modify -> dump on one object vs a fresh object of the modified content (scalars reassigned; add-based formats grow)
        for fmt in self.formats():
            for i in range(max(3, budget // 90)):
                spec, mv = self.gen_spec(fmt, rng, tier, i)
                new = copy.deepcopy(spec)
                if fmt == "composeinfo":
                    new["compose"]["respin"] = 77
                    new["compose"]["id"] = new["compose"]["id"] + ".77"
                    new["release"]["version"] = "9.9"
                    for nv in new["variants"][:2]:
                        nv["name"] = nv["name"] + " (renamed)"
                        if "zz-arch" not in nv["arches"]:
                            nv["arches"] = nv["arches"] + ["zz-arch"]
                        nv["paths"].setdefault("os_tree", {})["zz-arch"] = "%s/zz-arch/os" % nv["uid"]
                elif fmt == "treeinfo":
                    new["release"]["version"] = "9.9"
                    for nv in new["variants"][:2]:
                        nv["name"] = nv["name"] + " (renamed)"
                        nv["paths"] = [p_ for p_ in nv["paths"] if p_[0] != "debug_packages"] + [["debug_packages", "changed/debug"]]
                    new["tree"]["build_timestamp"] = 424242
                    new["tree"]["platforms"] = sorted(set(new["tree"]["platforms"]) | set(["zz-new", "AA-new"]), reverse=True)
                elif fmt == "discinfo":
                    new["description"] = "changed description"
                    new["disc_numbers"] = [3, 1, 2]
                elif fmt == "images":
                    spec["adds"] = list(spec["adds"])
                    new = boost_images2(copy.deepcopy(spec), rng, i % 4)
                    new["compose"]["respin"] = 77
                else:
                    new = FMF.boost(fmt, copy.deepcopy(spec), rng, i)
                    new["compose"]["respin"] = 77
                steps = [{"dump": mv}, {"modify": new}, {"dump": mv}, {"touch": "attrs"}, {"dump": mv}]
                yield {"op": "c08_seq", "args": {"fmt": fmt, "spec": spec, "steps": steps, "hashseeds": seeds[:1], "modified": True}}
        others = [f for f in self.formats() if f != "treeinfo"]
        per = max(2, budget // 70)
        for fmt in others:
            for i in range(per):
                spec, _ = self.gen_spec(fmt, rng, tier, i)
                touches = ["load_other", "attrs", "get_variants", "dump_for_tree"]
                rng.shuffle(touches)
                steps = [{"dump": None}]
                for t in touches:
                    steps += [{"touch": t}, {"dump": None}]
                yield {"op": "c08_seq", "args": {"fmt": fmt, "spec": spec, "steps": steps, "hashseeds": seeds[:1]}}

    # ---- real side
    def real_seq(self, case):
        a = case["args"]
        checklib.use_repo()
        req = {"mode": "seq", "fmt": a["fmt"], "spec": a["spec"], "steps": a["steps"]}
        try:
            ans = self.workers.ask(list(a.get("hashseeds") or QUICK_SEEDS[:1]), req)
        except (BrokenPipeError, OSError) as e:
            raise checklib.Infra("C08 worker: %s" % e)
        hs = sorted(ans)[0]
        return {"seq": ans[hs]["steps"], "err": ans[hs].get("err")}

    def real(self, case):
        if case["op"] == "c08_seq":
            return self.real_seq(case)
        a = case["args"]
        fmt = a["fmt"]
        checklib.use_repo()
        specs = [permute(fmt, a["spec"], s) for s in a["orders"]]
        req = {"fmt": fmt, "specs": specs, "ndumps": a.get("ndumps", 1), "mv": a.get("mv"), "styles": a.get("styles"),
               "interleave": a.get("interleave")}
        try:
            ans = self.workers.ask(list(a.get("hashseeds") or QUICK_SEEDS), req)
        except (BrokenPipeError, OSError) as e:
            raise checklib.Infra("C08 worker: %s" % e)
        texts, table, states, errs = {}, [], [], set()
        issues = []
        first = None
        order_texts = [None] * len(specs)
        base_content = None
        skipped = 0
        hist_diff = None
        for hs in sorted(ans):
            for oi, r in enumerate(ans[hs]["runs"]):
                if order_texts[oi] is None:
                    order_texts[oi] = r.get("text") if not r.get("err") else {"err": r["err"]}
                for it in r.get("issues") or []:
                    if it not in issues:
                        issues.append(it)
                if r.get("content") is not None:
                    if base_content is None:
                        base_content = r["content"]
                    elif r["content"] != base_content:
                        # `permute` keeps the calls of every order-sensitive cell in their order (C08_perm_history_*): such a rearranged
                        # history must build the same mapping with the same per-call outcomes
                        skipped += 1
                        if hist_diff is None:
                            hist_diff = {"hashseed": hs, "order": a["orders"][oi], "rearranged history": specs[oi]["ops"],
                                         "base [mapping sha : outcomes sha]": base_content, "this": r["content"]}
                        continue
                if r.get("err"):
                    errs.add(r["err"])
                    table.append([hs, a["orders"][oi], "ERR:" + r["err"]])
                    continue
                if first is None:
                    first = r["text"]
                texts.setdefault(r["sha"][0], r["text"])
                for di, s in enumerate(r["sha"]):
                    table.append([hs, a["orders"][oi], di, s])
                    if str(di) in r.get("other", {}):
                        texts.setdefault(s, r["other"][str(di)])
                states.append([hs, a["orders"][oi], r.get("before"), r.get("after")])
        out = {"first": first, "texts": texts, "table": table, "states": states, "errs": sorted(errs), "order_texts": order_texts,
               "other_content": skipped, "issues": issues}
        if FMF is not None and fmt in ("rpms", "modules", "extra_files"):
            out["hist"] = FMF.history(fmt, a["spec"])
            out["hist_diff"] = hist_diff
        return out

    # ---- model side
    @staticmethod
    def _seq_keys(a):
        """(phase, main_variant, spec of that phase) for every distinct dump call of a sequence; a `modify` step starts a new phase"""
        out, seen, ph, sp = [], set(), 0, a["spec"]
        for st in a["steps"]:
            if "modify" in st:
                ph += 1
                sp = st["modify"]
            if "dump" in st and (ph, st["dump"]) not in seen:
                seen.add((ph, st["dump"]))
                out.append((ph, st["dump"], sp))
        return out

    def model_requests(self, case):
        a = case["args"]
        fmt = a["fmt"]
        if case["op"] == "c08_seq":
            if fmt != "treeinfo":
                return []
            return [{"op": "ti_dumps", "args": {"spec": FTI.model_tree_spec(sp), "main_variant": mv}} for _, mv, sp in self._seq_keys(a)]
        reqs = []
        for s in a["orders"][:(3 if self.tier == "thorough" else 2)]:      # the model renders the base order and 1 (thorough: 2) rearranged orders
            spec = permute(fmt, a["spec"], s)
            if fmt == "composeinfo":
                reqs.append({"op": "composeinfo_dumps", "args": {"spec": FCI.strip_parent(spec)}})
            elif fmt == "images":
                reqs.append({"op": "images_dumps", "args": {"state": FIM.model_state(spec)}})
            elif fmt == "treeinfo":
                # wire form of the shared adapter (bool media numbers / bool timestamps travel as what they are written as)
                reqs.append({"op": "ti_dumps", "args": {"spec": FTI.model_tree_spec(spec), "main_variant": a.get("mv")}})
            elif fmt == "discinfo":
                reqs.append({"op": "di_dumps", "args": {"spec": FDI.model_spec(spec)}})
            elif FMF is not None:
                reqs.extend(FMF.model_requests(fmt, spec))
        if fmt == "composeinfo":
            # the dump as a state transformer (CI.dumpsSt): n dumps in a row on one object, and the object afterwards
            import productmd.common
            cur = ".".join(str(i) for i in productmd.common.VERSION)
            reqs.append({"op": "c08_ci_dumps_state", "args": {"spec": FCI.strip_parent(a["spec"]), "version": cur,
                                                               "ndumps": a.get("ndumps", 1)}})
        if FMF is not None and fmt in ("rpms", "modules", "extra_files"):
            reqs.append(FMF.model_history_request(fmt, a["spec"]))       # the model's cells and per-call outcomes of the base history
        return reqs

    def model_result(self, case, outs):
        fmt = case["args"]["fmt"]
        if case["op"] == "c08_seq":
            keys = self._seq_keys(case["args"])
            return dict((json.dumps([ph, mv]), (o["ok"]["text"] if "ok" in o else "ERR:" + str(o.get("err")))) for (ph, mv, _), o in zip(keys, outs))
        res = []
        state = None
        hist = None
        if FMF is not None and fmt in ("rpms", "modules", "extra_files"):
            hist = FMF.model_history(outs[-1])
            outs = outs[:-1]
        if fmt == "composeinfo":
            st = json.loads(outs[-1])
            outs = outs[:-1]
            layered = {}

            def rec(vs):
                for v in vs:
                    r = v.get("release")
                    layered[v["uid"]] = [v["type"], True if r is None else r["is_layered"], None if r is None else r["name"]]
                    rec(v["variants"])
            rec(st["ci"]["variants"])
            state = {"outs": [o.get("ok") if "ok" in o else {"err": o.get("err")} for o in st["outs"]],
                     "after": {"version": st["version"], "layered": layered}}
        for o in outs:
            if fmt == "composeinfo":
                o = json.loads(o)
                res.append(o.get("ok") if "ok" in o else {"err": o.get("err")})
            elif fmt == "treeinfo":
                res.append(o["ok"]["text"] if "ok" in o else o)
            elif fmt in ("images", "discinfo"):
                res.append(o.get("ok") if "ok" in o else o)
            else:
                res.append(FMF.model_text(fmt, o))
        if state is not None:
            return {"texts": res, "state": state}
        if hist is not None:
            return {"texts": res, "hist": hist}
        return res

    def compare(self, case, real_out, model_out):
        if case["op"] == "c08_seq":
            # the model's dump is a pure function of (content, main_variant): it must be what a FRESH real object writes
            ph = 0
            for st in real_out["seq"]:
                if st.get("modify"):
                    ph += 1
                if "fresh" in st and "dump" in st:
                    m = model_out.get(json.dumps([ph, st["dump"]]))
                    if m is not None and m != st["fresh"] and not (m.startswith("ERR:") and st["fresh"].startswith("ERR:")):
                        return {"real": _excerpt(st["fresh"], m), "model": _excerpt(m, st["fresh"])}
            return None
        state = None
        if isinstance(model_out, dict):
            hist = model_out.get("hist")
            state, model_out = model_out.get("state"), model_out["texts"]
            if hist is not None and real_out.get("hist") is not None and hist != real_out["hist"]:
                # the quantifier itself: which calls are order-sensitive w.r.t. each other (cells), which are refused
                rh = real_out["hist"]
                i = next((j for j in range(len(rh["cells"])) if j >= len(hist["cells"]) or rh["cells"][j] != hist["cells"][j]
                          or rh["outcomes"][j] != hist["outcomes"][j]), 0)
                return {"real": {"call": i, "cell": rh["cells"][i], "outcome": rh["outcomes"][i]},
                        "model": {"call": i, "cell": hist["cells"][i] if i < len(hist["cells"]) else None,
                                  "outcome": hist["outcomes"][i] if i < len(hist["outcomes"]) else None}}
        for m, r in zip(model_out, real_out["order_texts"]):
            if m != r:
                return {"real": _excerpt(r, m), "model": _excerpt(m, r)}
        if state is not None and real_out["states"] and real_out["first"] is not None:
            # CI.dumpsSt: every one of the n dumps writes the first text, and the object afterwards is the real one
            hs, order, before, after = real_out["states"][0]
            if any(o != real_out["first"] for o in state["outs"]):
                return {"real": "every dump = the first text", "model": [(_excerpt(o, real_out["first"]) if isinstance(o, str) else o) for o in state["outs"]]}
            if after is not None and state["after"] != dict((k, after[k]) for k in ("version", "layered") if k in after):
                return {"real": {"object after the dumps": after}, "model": {"object after the dumps": state["after"]}}
        return None

    # ---- the property on the real output
    def oracle_seq(self, case, real_out):
        a = case["args"]
        first = None
        for i, st in enumerate(real_out["seq"]):
            if "fresh" not in st:
                continue
            if st["text"] != st["fresh"]:
                call = ("dump_for_tree(out, %r, %r, %r)" % tuple(st["export"])) if "export" in st else "dump(main_variant=%r)" % (st["dump"],)
                return {"kind": "history-dependent",
                        "observed": {"step": i, "call": call, "history": a["steps"][:i],
                                     "this object": _excerpt(st["text"], st["fresh"]), "fresh object, same content, same call": _excerpt(st["fresh"], st["text"])},
                        "required": "a dump writes what a fresh object with the same content writes for the same call, whatever was dumped or read before"}
            if a["fmt"] != "treeinfo" and "dump" in st and not a.get("modified"):
                if first is None:
                    first = st["text"]
                elif st["text"] != first:
                    return {"kind": "history-dependent", "observed": {"step": i, "history": a["steps"][:i], "text": _excerpt(st["text"], first),
                                                                      "first dump": _excerpt(first, st["text"])},
                            "required": "every dumps() of the unchanged object equals the first"}
        return None

    def oracle(self, case, real_out):
        if case["op"] == "c08_seq":
            return self.oracle_seq(case, real_out)
        a = case["args"]
        fmt = a["fmt"]
        if real_out.get("hist_diff"):
            return {"kind": "history-order", "observed": real_out["hist_diff"],
                    "required": "a rearrangement of the add calls that keeps the calls of every order-sensitive cell (rpms slot, module entry, "
                                "extra-file list) in their relative order builds the same mapping, with the same outcome for every call"}
        shas = set(row[-1] for row in real_out["table"])
        if len(shas) > 1:
            rows = {}
            for row in real_out["table"]:
                rows.setdefault(row[-1], row[:-1])
            keys = sorted(rows)
            t0, t1 = real_out["texts"].get(keys[0], keys[0]), real_out["texts"].get(keys[1], keys[1])
            return {"kind": "bytes-differ",
                    "observed": {"distinct_outputs": len(shas), "run_a [hashseed, order, dump]": rows[keys[0]], "run_b": rows[keys[1]],
                                 "a": _excerpt(t0, t1), "b": _excerpt(t1, t0)},
                    "required": "the same bytes for every construction order, hash seed and repetition"}
        if real_out["first"] is None:
            return None                                    # the content is not writable at all: outside the quantifier
        text = real_out["first"]
        bad = json_layout(text) if fmt in JSON_FORMATS else (ini_layout(text) if fmt == "treeinfo" else None)
        if bad:
            return {"kind": "layout", "observed": bad, "required": "sorted keys / sections / options, 4-space indentation"}
        bad = order_kept(fmt, a["spec"], text)
        if bad:
            return {"kind": "order-kept", "observed": bad, "required": "caller-ordered lists are written in the caller's order"}
        for hs, order, before, after in real_out["states"]:
            if before is None or after is None:
                continue
            exp = expected_after(fmt, before)
            if after != exp:
                return {"kind": "state", "observed": {"hashseed": hs, "order": order, "after": after},
                        "required": {"after": exp, "why": "a dump may only set header.version and a layered variant's release.is_layered; every other public "
                                                                "attribute (content_sha: the adapter's full snapshot) stays as it was"}}
        if real_out.get("issues"):
            # rebuilding the SAME content through another public idiom (remove + re-add) was refused by the container itself
            return {"kind": "container-op-raised", "observed": real_out["issues"][0],
                    "required": "the public container operations used to build the same content in another style do not raise"}
        return None

    def nontrivial(self, case, real_out):
        if case["op"] == "c08_seq":
            return real_out.get("err") is None and sum(1 for st in real_out["seq"] if "fresh" in st and not st["text"].startswith("ERR:")) >= 2
        return real_out.get("first") is not None and (len(case["args"]["orders"]) >= 2 or case["args"]["fmt"] == "discinfo")

    def stats(self, case, real_out, dist):
        a = case["args"]
        fmt = a["fmt"]
        if case["op"] == "c08_seq":
            k = "seq:" + fmt
            dist[k] = dist.get(k, 0) + 1
            dist["seq:dumps compared with a fresh object"] = dist.get("seq:dumps compared with a fresh object", 0) + sum(1 for st in real_out["seq"] if "fresh" in st)
            if a.get("modified"):
                dist["seq:dump -> modify/grow -> dump vs fresh object"] = dist.get("seq:dump -> modify/grow -> dump vs fresh object", 0) + 1
            if any("export" in st for st in a["steps"]):
                dist["seq:extra_files dump_for_tree with a basepath that prefixes stored paths"] = dist.get("seq:extra_files dump_for_tree with a basepath that prefixes stored paths", 0) + 1
            if fmt == "treeinfo":
                mvs = [st["dump"] for st in a["steps"] if "dump" in st]
                if any(x is not None for x in mvs[:-1]) and mvs[-1] is None:
                    dist["seq:treeinfo plain dump after dump(main_variant=X)"] = dist.get("seq:treeinfo plain dump after dump(main_variant=X)", 0) + 1
            return
        dist[fmt] = dist.get(fmt, 0) + 1
        dist["runs"] = dist.get("runs", 0) + len(real_out["table"])
        dist["hashseeds"] = max(dist.get("hashseeds", 0), len(a.get("hashseeds") or []))
        if any(a.get("styles") or []):
            dist["style:containers refilled in place / remove+re-add / add+remove / empty buckets"] = dist.get("style:containers refilled in place / remove+re-add / add+remove / empty buckets", 0) + 1
        if a.get("interleave"):
            dist["style:all objects of the case built before the first dump"] = dist.get("style:all objects of the case built before the first dump", 0) + 1
        if real_out.get("other_content"):
            dist[fmt + ":orders reaching another content (VIOLATION of C08_perm_history)"] = dist.get(fmt + ":orders reaching another content (VIOLATION of C08_perm_history)", 0) + real_out["other_content"]
        if real_out.get("errs"):
            dist[fmt + ":unwritable"] = dist.get(fmt + ":unwritable", 0) + 1
        for f in features(fmt, a["spec"]):
            dist[f] = dist.get(f, 0) + 1

    def shrink_candidates(self, case):
        a = case["args"]
        fmt, spec = a["fmt"], a["spec"]
        out = []
        if case["op"] == "c08_seq":
            for i in range(len(a["steps"])):
                if len(a["steps"]) > 1:
                    c = copy.deepcopy(case)
                    del c["args"]["steps"][i]
                    out.append(c)
            if fmt == "treeinfo":
                used = set(st.get("dump") for st in a["steps"])
                for key in ("checksums", "images"):
                    if spec[key]:
                        c = copy.deepcopy(case)
                        c["args"]["spec"][key] = []
                        out.append(c)
                for i, v in enumerate(spec["variants"]):
                    if v["key"] not in used and len(spec["variants"]) > 1:
                        c = copy.deepcopy(case)
                        del c["args"]["spec"]["variants"][i]
                        out.append(c)
                    if v["variants"]:
                        c = copy.deepcopy(case)
                        c["args"]["spec"]["variants"][i]["variants"] = []
                        out.append(c)
            return out

        def with_spec(s):
            c = copy.deepcopy(case)
            c["args"]["spec"] = s
            return c
        if len(a["orders"]) > 2:
            for i in range(1, len(a["orders"])):
                c = copy.deepcopy(case)
                del c["args"]["orders"][i]
                if c["args"].get("styles") and i < len(c["args"]["styles"]):
                    del c["args"]["styles"][i]
                out.append(c)
        if a.get("ndumps", 1) > 1:
            c = copy.deepcopy(case)
            c["args"]["ndumps"] = 1
            out.append(c)
        if fmt in ("composeinfo", "treeinfo"):
            def drops(vs, path):
                for i, v in enumerate(vs):
                    yield path + [i]
                    for p in drops(v["variants"], path + [i]):
                        yield p
            for path in drops(spec["variants"], []):
                s = copy.deepcopy(spec)
                vs = s["variants"]
                for i in path[:-1]:
                    vs = vs[i]["variants"]
                if len(path) == 1 and len(vs) == 1:
                    continue
                del vs[path[-1]]
                if fmt == "treeinfo" and a.get("mv") not in [None] + [v["key"] for v in s["variants"]]:
                    continue
                out.append(with_spec(s))
            if fmt == "treeinfo":
                for key in ("checksums", "images"):
                    if spec[key]:
                        s = copy.deepcopy(spec)
                        s[key] = []
                        out.append(with_spec(s))
                if len(spec["tree"]["platforms"]) > 0:
                    for i in range(len(spec["tree"]["platforms"])):
                        s = copy.deepcopy(spec)
                        p = s["tree"]["platforms"].pop(i)
                        if not any(x[0] == p for x in s["images"]):
                            out.append(with_spec(s))
        elif fmt == "images":
            for i in range(len(spec["adds"])):
                s = copy.deepcopy(spec)
                del s["adds"][i]
                out.append(with_spec(s))
        elif FMF is not None and fmt in ("rpms", "modules", "extra_files"):
            out.extend(with_spec(s) for s in FMF.shrink(fmt, spec))
        return out

    # ---- the tie the quantifier excludes: equal paths in one cell
    def extra_checks(self, ctx):
        try:
            self.equal_path_probe(ctx)
        finally:
            self.workers.close()
        return []

    def equal_path_probe(self, ctx):
        """two image objects of one cell with the SAME path (allowed by the validators when their identity differs): the per-cell
        sort is by path only, so their relative order is the set's iteration order (object addresses).  Outside the property's
        quantifier ("images with distinct paths per cell"); recorded in the evidence, never a failure."""
        rng = random.Random("c08-ties-%s" % ctx["seed"])
        t = FIM.tables()
        differing = per_process = 0
        trials = 6 if ctx["tier"] != "thorough" else 30
        for i in range(trials):
            pool = []
            for j in range(4):
                img = FIM.gen_image(rng, j, "Server", "x86_64", t)
                img["path"] = "Server/x86_64/iso/same.iso"
                img["disc_number"] = j + 1
                img["disc_count"] = 9
                pool.append(img)
            spec = {"version": "1.2", "compose": FIM.gen_compose(rng, t), "pool": pool, "adds": [["Server", "x86_64", j] for j in range(4)]}
            case = {"op": "c08", "args": {"fmt": "images", "spec": spec, "orders": [0, 1 + i, 100 + i, 200 + i], "ndumps": 1,
                                        "hashseeds": QUICK_SEEDS}}
            r = self.real(case)
            if len(set(row[-1] for row in r["table"])) > 1:
                differing += 1
            by_order = {}
            for row in r["table"]:
                by_order.setdefault(row[1], set()).add(row[-1])
            if any(len(v) > 1 for v in by_order.values()):
                per_process += 1
        ctx["dist"]["equal-path probe: manifests tried"] = trials
        ctx["dist"]["equal-path probe: manifests whose bytes depended on the order"] = differing
        ctx["dist"]["equal-path probe: ... on the process alone (same construction order)"] = per_process


def _excerpt(a, b, width=160):
    """the part of text `a` around its first difference from `b`"""
    if not isinstance(a, str) or not isinstance(b, str):
        return a
    i = 0
    n = min(len(a), len(b))
    while i < n and a[i] == b[i]:
        i += 1
    lo = max(0, i - width // 2)
    return {"at": i, "text": a[lo:i + width]}


PROP = C08()
MANIFEST = dict(
    technique="proof (Lean 4) of permutation invariance of every writer over the executable model + differential correspondence + "
              "separate-process hash-seed oracle",
    text="C08: bytes are a function of content: theorems C08_perm_<format> (all rearrangements of all unordered containers), "
         "C08_repeat_<format>, C08_layout_*, C08_order_kept_*; rpms / modules / extra_files: C08_perm_manifests on the stored mapping and "
         "C08_perm_history_rpms / _modules / _extra_files / _bytes on whole add HISTORIES of any length (any rearrangement that keeps the "
         "calls of each order-sensitive cell - rpms slot, module entry, extra-file list - in their order; refused calls anywhere: JEq "
         "mappings, same per-call outcomes, same bytes); real library run in separate interpreters with 3/16 hash seeds",
    note="equal-path images in one cell are outside the quantifier; their order follows set iteration (object identity) - probed and "
         "reported in the evidence distribution",
    ref="7/C08")
