"""C19 - validation and parsing time grows polynomially with input length."""
import json, math, os, select, subprocess, sys, time
from concurrent.futures import ThreadPoolExecutor
import checklib
from checklib import Prop, ROOT, REPO, PY
import regexgen
import engine_diff

STALL_S = 1.0          # "no short input can stall a caller": any input of <= 64 chars taking longer is a violation
LONG_S = 8.0           # an input of 128 chars must finish within this
SHORT_NS = [8, 16, 24, 32, 48, 64]


def generated():
    return json.load(open(os.path.join(ROOT, "lean", "generated.json")))


def call_worker(req, timeout):
    """run one request in a fresh killable worker process"""
    p = subprocess.Popen([PY, os.path.join(ROOT, "harness", "timing_worker.py")], stdin=subprocess.PIPE,
                         stdout=subprocess.PIPE, text=True, env=dict(os.environ, PRODUCTMD_REPO=REPO))
    try:
        out, _ = p.communicate(json.dumps(req) + "\n", timeout=timeout)
        return json.loads(out.strip().splitlines()[-1])["times"]
    except (subprocess.TimeoutExpired, IndexError, ValueError):
        p.kill(); p.wait()
        return None


def time_target(target, pattern, kind, fams, ns_short, long_n, thorough):
    """run all pump families of one target in one killable worker; -> (failures, stats)"""
    families = []
    for (pre, pump, suf) in fams:
        row = []
        for n in ns_short + [long_n]:
            reps = max(1, n // len(pump))
            row.append([pre + pump * reps + suf, STALL_S if n in ns_short else LONG_S])
        families.append(row)
    times = call_worker({"target": target, "pattern": pattern, "kind": kind, "families": families}, 600)
    fails, n_calls, worst = [], 0, (0.0, None, 0)
    if times is None:
        raise checklib.Infra("timing worker for %s did not answer" % target)
    for fam, row in zip(families, times):
        for (s, limit), t in zip(fam, row):
            n_calls += 1
            if t is None or t > limit:
                fails.append({"case": {"op": "time", "args": {"target": target, "pattern": pattern, "kind": kind, "s": s, "limit": limit}},
                              "observed": {"seconds": t if t is not None else ">%.1f (interrupted)" % (limit * 1.5 + 0.2), "length": len(s)},
                              "required": "finishes within %.1f s (input of %d characters)" % (limit, len(s)), "kind": "stall"})
            elif t > worst[0]:
                worst = (t, s[:40] + ("..." if len(s) > 40 else ""), len(s))
    return fails, {"calls": n_calls, "worst_s": round(worst[0], 5), "worst_input": worst[1:]}


class C19(Prop):
    id = "C19"
    lean_module = "ProductMD.Properties.C19"
    quick_budget = 1500
    thorough_budget = 12000
    rule = ("correspondence: every extracted pattern x strings from its own pump families (n<=6) and random strings over its "
            "alphabet, acceptance and every capture group vs CPython; oracle: wall-clock of the real validators/parsers on "
            "prefix+pump^n+suffix families (n up to 64 short, 128/256 long) in killable workers; non-trivial = distinct (pattern,string)")
    assumptions = ["the list-of-successes cost model is an upper envelope of CPython sre's work on a failing match (modelling assumption; "
                   "growth class compared with measured time)",
                   "wall-clock thresholds: >1 s on <=64 characters counts as a stall (normal: microseconds)"]

    def __init__(self):
        self._gen = None

    def gen(self):
        if self._gen is None:
            self._gen = generated()
        return self._gen

    def patterns(self):
        return [e for e in self.gen()["regexes"] if e["pattern"] is not None]

    # ---- correspondence of the engine model
    def cases(self, rng, tier, budget):
        pats = self.patterns()
        per = max(8, budget // max(1, len(pats)))
        for e in pats:
            if e["kind"] != "match":
                continue
            fams = regexgen.pump_families(e["pattern"])
            alphabet = sorted(set("".join(p + q + r for p, q, r in fams)) | set("a1-.:/ \n"))
            out = set()
            for (pre, pump, suf) in fams:
                for n in (0, 1, 2, 3, 5):
                    out.add(pre + pump * n + suf); out.add(pre + pump * n)
            mw = regexgen.min_word(list(regexgen.sre_parse.parse(e["pattern"])))
            out.add(mw); out.add(mw + "\n"); out.add(mw + "\n\n"); out.add("")
            out = sorted(out)
            rng.shuffle(out)
            out = out[:per // 2]
            while len(out) < per:
                base = rng.choice([mw, rng.choice(out) if out else mw])
                s = list(base)
                for _ in range(rng.randint(0, 3)):
                    i = rng.randint(0, len(s))
                    if s and rng.random() < 0.4:
                        del s[rng.randrange(len(s))]
                    else:
                        s.insert(i, rng.choice(alphabet))
                out.append("".join(s))
            for s in out:
                yield {"op": "re_match", "args": {"pattern": e["name"], "s": s}}

    def real(self, case):
        a = case["args"]
        if case["op"] == "time":
            pat = a.get("pattern")
            if a["target"].startswith("pattern:"):       # the pattern the tree contains NOW under that name
                cur = [x for x in self.patterns() if x["name"] == a["target"][8:]]
                pat = cur[0]["pattern"] if cur else pat
            times = call_worker({"target": a["target"], "pattern": pat, "kind": a.get("kind"),
                                 "families": [[[a["s"], a["limit"]]]]}, a["limit"] * 3 + 10)
            return {"seconds": times[0][0] if times else None}
        import re
        e = [x for x in self.patterns() if x["name"] == a["pattern"]][0]
        mm = re.match(e["pattern"], a["s"])
        if mm is None:
            return None
        return dict((str(i), mm.group(i)) for i in range(1, (mm.re.groups or 0) + 1) if mm.group(i) is not None)

    def model_requests(self, case):
        return [case] if case["op"] == "re_match" else []

    def model_result(self, case, outs):
        o = outs[0]
        if o is None:
            return None
        d = {}
        for g, txt in o:           # latest binding first
            d.setdefault(str(g), txt)
        return d

    def oracle(self, case, real_out):
        if case["op"] == "time":
            t = real_out["seconds"]
            if t is None or t > case["args"]["limit"]:
                return {"observed": {"seconds": t, "length": len(case["args"]["s"])},
                        "required": "finishes within %.1f s" % case["args"]["limit"], "kind": "stall"}
        return None

    def nontrivial(self, case, real_out):
        return True

    def stats(self, case, real_out, dist):
        k = "match" if real_out is not None else "no-match"
        dist[k] = dist.get(k, 0) + 1

    def shrink_candidates(self, case):
        if case["op"] != "time":
            return []
        s = case["args"]["s"]
        out = []
        if len(s) > 12:
            for cut in (len(s) // 4, 4, 2, 1):
                mid = len(s) // 2
                t = s[:mid - cut] + s[mid:]
                if len(t) >= 10:
                    c = json.loads(json.dumps(case)); c["args"]["s"] = t; out.append(c)
        return out

    # ---- the oracle on the real code: timing of pump families; model cost trend
    def extra_checks(self, ctx):
        thorough = ctx["tier"] == "thorough" or ctx["tier"] == "search"
        pats = self.patterns()
        allfams = {}
        for e in pats:
            allfams[e["name"]] = regexgen.pump_families(e["pattern"])
        api = json.loads(subprocess.run([PY, os.path.join(ROOT, "harness", "timing_worker.py"), "--list"], capture_output=True, text=True,
                                        env=dict(os.environ, PRODUCTMD_REPO=REPO)).stdout)
        union, seen = [], set()
        for fams in allfams.values():
            for f in fams:
                if f not in seen:
                    seen.add(f); union.append(f)
        jobs = []
        long_n = 256 if thorough else 128
        for e in pats:
            jobs.append(("pattern:" + e["name"], e["pattern"], e["kind"], allfams[e["name"]]))
        for name in api:
            jobs.append(("api:" + name, None, None, union))
        failures, tstats = [], {}
        with ThreadPoolExecutor(max_workers=12) as ex:
            futs = [(j[0], ex.submit(time_target, j[0], j[1], j[2], j[3], SHORT_NS, long_n, thorough)) for j in jobs]
            for name, f in futs:
                fl, st = f.result()
                if name.startswith("api:"):
                    failures[0:0] = fl[:1]           # entry points of the public API first
                else:
                    failures.extend(fl[:1])
                tstats[name] = st
        ctx["dist"]["timing"] = {"targets": len(jobs), "calls": sum(s["calls"] for s in tstats.values()),
                                 "slowest": sorted(((s["worst_s"], n, s["worst_input"]) for n, s in tstats.items()), reverse=True)[:5]}
        # model cost trend (exact node counts from the Lean model) for the same families
        drv = ctx["driver"]
        if drv is not None:
            # the ENGINE model itself against CPython on random expressions of the modelled fragment
            n, bad = engine_diff.run(drv, ctx["rng"], 3000 if thorough else 400, 12)
            ctx["dist"]["engine_model_vs_cpython"] = {"cases": n, "disagreements": len(bad)}
            for b in bad[:2]:
                failures.append({"case": {"op": "engine-diff", "args": b}, "observed": b["model"], "required": b["real"],
                                 "kind": "engine-model-disagreement"})
            reqs, keys = [], []
            for e in pats:
                if e["kind"] != "match":
                    continue
                for (pre, pump, suf) in allfams[e["name"]][:40]:
                    for n in (6, 7, 12, 13):
                        reps = max(1, n // len(pump))
                        reqs.append({"op": "re_cost", "args": {"pattern": e["name"], "s": pre + pump * reps + suf}})
                        keys.append((e["name"], (pre, pump, suf), n))
            outs = drv.call(reqs)
            table = {}
            for k, o in zip(keys, outs):
                table.setdefault((k[0], k[1]), {})[k[2]] = o
            expo = []
            for (name, fam), d in table.items():
                if all(isinstance(d.get(n), int) for n in (6, 7, 12, 13)) and d[6] > 0 and d[12] > 0:
                    r1, r2 = d[7] / d[6], d[13] / d[12]
                    if r2 >= 1.25 and r2 >= 0.93 * r1 and d[13] > 2000:
                        expo.append((name, fam, d))
            ctx["dist"]["model_cost"] = {"families": len(table), "exponential_trend": [(n, f) for n, f, _ in expo][:5]}
            stalled = set(f["case"]["args"]["target"] for f in failures)
            for name, fam, d in expo:
                if "pattern:" + name not in stalled:
                    failures.append({"case": {"op": "model-cost", "args": {"pattern": name, "family": fam, "costs": d}},
                                     "observed": "model cost grows geometrically on this family but the real engine did not stall",
                                     "required": "cost model and measured time in the same growth class", "kind": "cost-model-disagreement"})
        return failures


PROP = C19()

MANIFEST = dict(
    technique="Lean 4 proof: polynomial cost bound for every `safe` regex (induction on the expression and on fuel) + decide on the regenerated pattern list; engine model validated differentially against CPython re; wall-clock oracle on pump families",
    text="Theorem C19_cost: for every regex meeting the decidable criterion `safe`, the no-memoisation backtracking cost on ANY input is at most coef*(|s|+1)^deg; C19_here/C19_degrees (decide on the file regenerated from the source on every run): every pattern the library matches is safe with degree <= 6. A pattern that becomes ambiguous breaks the decide; the check then times the real validators on pump families built from the pattern and reports the stalling string.",
    note="Modelled, not verified: CPython's sre (cost model = list-of-successes backtracking, an upper-envelope assumption; acceptance and captures compared with re on every run). Non-regex costs (quadratic identity scan in Images.add) are outside the Lean claim.",
    ref="7/C19")
