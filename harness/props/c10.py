"""C10 - source content is always filed under binary architectures."""
import copy, json
import checklib
from checklib import Prop
from formats import images as F
from formats import rpms as R
from formats import manifest_common as mc

import random
random_const = random.Random(0)          # only for the fixed priming image of img_load (its values do not matter)
SOURCE_NAMES = ("src", "nosrc")
# names that are NOT architectures: unknown ones and near misses of table entries / of the two source names
NEAR_MISS = ["SRC", "Src", "src ", " src", "src\n", "nosrc\n", "NOSRC", "no-src", "nosrc ", "source", "srcs", "sr", "nosr", "src.rpm",
             "x86-64", "X86_64", "x86_64 ", " x86_64", "x86_64\n", "x86", "i387", "amd65", "", " ", "noarch ", "Noarch", "aarch_64", "ppc64el",
             u"x86_64\u00a0", u"s\u0280c", "s390xx", "arm", "None",
             # audit A1: tab, non-ASCII blank, blank inside
             "src\t", "\tsrc", u"src\u00a0", u"\u00a0nosrc", "s rc", "no src", "x86 64",
             # audit A2: the formats' delimiters around / inside a name, doubled forms
             "src/", "/src", "src:", "src,nosrc", "src;nosrc", "[src]", "'src'", "\"src\"", "src\\", "%s", "src%", "#src", "src=src", "src@", "src.", ".src",
             "srcsrc", "src-src", "nosrcnosrc", "src,x86_64", "x86_64,i386", "x86_64/", "i386.", "noarch:", "ppc64-le",
             # audit A5: look-alikes, fullwidth / non-ASCII digits, values that look like other types, very long
             u"\uff53\uff52\uff43", u"x86_\uff16\uff14", u"i\u0663\u0668\u0666", "null", "0", "False", "1.0", "true", "[]", "x" * 300, "src" * 100,
             # audit A7 / C2: proper prefixes and extensions of every literal the code compares with, and of table neighbours
             "s", "nosrcs", "nosrc2", "src64", "osrc", "nsrc", "ppc6", "ppc64l", "ppc64lee", "i38", "i3866", "noarc", "noarchh", "aarch6", "aarch644"]
# variant names (audit A1/A2/A4/A5): the source names AS VARIANT names, empty / blank, case pairs, non-ASCII, arch look-alikes, very long
ODD_VARIANTS = ["src", "nosrc", "", " ", "server", "SERVER", u"S\u00e9rver", "x86_64", "Server-optional", "Server.optional", "a/b", "None", "0",
                "V" * 300, u"\u0421\u0435\u0440\u0432\u0435\u0440", "Server "]
# arguments that are not strings at all (audit A8, corrupting stream of the add histories)
NON_STRING_ARCHES = [None, 0, False, [], {}, 1.5, ["src"], ["x86_64"], True, 64]
IMG_VERSIONS = ["1.1", "1.0", "1.2", "1.1", "0.0", "2.0", "1.0", "1.1", "1.10", "1.01", "0.9"]


def table():
    pm = mc.lib()
    return list(pm.common.RPM_ARCHES)


def is_binary(a, tbl):
    """the property's own notion, written out: a name of the architecture table other than src / nosrc"""
    return isinstance(a, str) and a in tbl and a not in SOURCE_NAMES


def arch_keys(mapping):
    """every key on the arch level of {variant: {arch: ...}} (empty tables included); non-dict levels have none"""
    out = []
    if isinstance(mapping, dict):
        for v, d in mapping.items():
            if isinstance(d, dict):
                out.extend([v, a] for a in d)
    return out


def lower(k):
    return k.lower() if isinstance(k, str) else k


# ------------------------------------------------------------------------------------------------ images
def simple_image(rng, n, arch="x86_64", variant="Server", own_arch=None):
    """a valid image whose identity is unique through disc_number = n; `arch` = the tree arch it is meant for (path),
    `own_arch` = the image's own arch attribute (independent of the tree key: a source ISO under a binary tree, a noarch image
    under src, ...)"""
    img = _simple_image(rng, n, arch, variant)
    if own_arch is not None:
        img["arch"] = own_arch
    return img


def _simple_image(rng, n, arch, variant):
    return {"path": "%s/%s/iso/img-%d.iso" % (variant, "source" if arch == "src" else arch, n), "mtime": rng.choice(F.MTIMES),
            "size": rng.choice(F.BIG_SIZES + [1]), "volume_id": rng.choice([None, "vol-%d" % n]), "type": rng.choice(["dvd", "cd", "netinst", "boot"]),
            "format": "iso", "arch": arch, "disc_number": n, "disc_count": n + 1,
            "checksums": {"sha256": "%064x" % rng.getrandbits(256)}, "implant_md5": rng.choice([None, "%032x" % rng.getrandbits(128)]),
            "bootable": arch != "src" and rng.random() < 0.5, "subvariant": rng.choice(["", variant, "KDE"]), "unified": False, "additional_variants": []}


def odd_variants(rng, variants):
    """audit A1/A2/A4/A5: now and then one of the variant names is odd (a source name AS a variant, empty, blank, case twin, ...)"""
    variants = list(variants)
    if rng.random() < 0.3:
        variants[rng.randrange(len(variants))] = rng.choice(ODD_VARIANTS)
    return list(dict.fromkeys(variants))


def doc_record(d, vp):
    """the 15 attributes the reader is documented to give an image dictionary (defaults written out)"""
    r = dict(d)
    r.setdefault("format", "iso")
    if vp is not None and vp <= (1, 0):
        r.setdefault("subvariant", "")
    r.setdefault("unified", False)
    r.setdefault("additional_variants", [])
    return r


def gen_images_doc(rng, tier, n):
    """documents 1.0 / 1.1 / 1.2 (/2.0): any subset of the variants has `src` next to 1-3 binary arches, the binary arch sets
    differ between variants; sometimes a variant with only `src`, a `nosrc` / unknown key, a `src` key in a newer document"""
    t = F.tables()
    # versions round-robin, with the boundaries of the gate `<= (1, 1)` spelled in ways that only an integer comparison gets right
    # (audit C2): "1.01" is (1, 1), "1.10" is (1, 10); "0.9" is old
    ver = ["1.1", "1.0", "1.1", "1.2", "1.0", "1.1", "2.0", "1.2", "1.01", "1.10", "0.9"][n % 11]
    k = 1000 * (n % 50)
    images = {}
    variants = odd_variants(rng, rng.sample(F.VARIANTS, rng.randint(1, 3)))
    used = set()
    L = len(t["arches"])
    for vi, v in enumerate(variants):
        pool = [a for a in t["arches"] if a not in used] or t["arches"]
        my = rng.sample(pool, rng.choice([1, 2, 2, 3, 3]))
        # audit A7: EVERY table entry becomes a tree arch key in turn (round-robin over the table, last entry included)
        my[0] = t["arches"][(3 * n + vi) % L]
        if rng.random() < 0.3:
            my[-1] = rng.choice(["x86_64", "i386", "ppc64le", "aarch64", "s390x", "noarch"])     # overlap between variants, never equality of the sets
        my = list(dict.fromkeys(my))
        used.add(my[-1])
        images[v] = {}
        for a in my:
            cell = []
            for _ in range(rng.choice([0, 1, 1, 2, 3])):
                k += 1
                # the image's own arch is NOT tied to the tree key: the key's arch, a source ISO filed under a binary tree, another arch
                own = rng.choice([a, a, "src", "src", "noarch", rng.choice(t["arches"]), "nosrc"])
                cell.append(simple_image(rng, k, a, v, own_arch=own))
            images[v][a] = cell
    p_src = 0.65 if ver in ("1.0", "1.1") else 0.2
    srcful = [v for v in variants if rng.random() < p_src]
    if not srcful and ver in ("1.0", "1.1") and rng.random() < 0.8:
        srcful = [rng.choice(variants)]
    for v in srcful:
        cell = []
        for _ in range(rng.choice([1, 1, 2, 3, 0])):
            k += 1
            # under the src key: arch "src", but also "noarch" / a binary arch / "nosrc" (any non-blank string is valid)
            own = rng.choice(["src", "src", "noarch", rng.choice(t["arches"]), "x86_64", "nosrc"])
            cell.append(simple_image(rng, k, "src", v, own_arch=own))
        images[v]["src"] = cell
    r = rng.random()
    if r < 0.10:
        k += 1
        images["OnlySource"] = {"src": [simple_image(rng, k, "src", "OnlySource")]}
    elif r < 0.17:
        v = rng.choice(variants); k += 1
        images[v]["nosrc"] = [simple_image(rng, k, "nosrc", v)] if rng.random() < 0.8 else []
    elif r < 0.24:
        v = rng.choice(variants); k += 1
        images[v][rng.choice(NEAR_MISS)] = [simple_image(rng, k, "x86_64", v)]
    elif r < 0.28 and srcful:
        # the same image dictionary under src of two variants (two objects after loading)
        a, b = srcful[0], rng.choice(variants)
        if images[a].get("src") and a != b:
            images[b].setdefault("src", []).append(copy.deepcopy(images[a]["src"][0]))
    elif r < 0.32 and srcful and images[srcful[0]].get("src"):
        # audit A10: the same image dictionary TWICE in one src list (two objects of equal identity and equal checksums)
        images[srcful[0]]["src"].append(copy.deepcopy(images[srcful[0]]["src"][0]))
    elif r < 0.35:
        images["Empty"] = {}                                       # audit A10: a variant with no arch at all
    elif r < 0.37:
        images = {}                                                # ... and a document with no variant
    elif r < 0.43:
        # audit A4: two variants whose names differ only in case, different binary arch sets, each with its own src entry
        v = rng.choice(variants)
        twin = v.upper() if v.upper() != v else v.lower()
        if twin not in images and twin != v:
            k += 2
            other = t["arches"][(3 * n + 7) % L]
            images[twin] = {other: [simple_image(rng, k - 1, other, twin)], "src": [simple_image(rng, k, "src", twin)]}
            variants = variants + [twin]
    if ver == "1.0" and rng.random() < 0.5:
        for d in images.values():
            for c in d.values():
                for rec in c:
                    rec.pop("subvariant", None)
    for d in images.values():
        for c in d.values():
            for rec in c:
                if rng.random() < 0.5:
                    rec.pop("unified", None); rec.pop("additional_variants", None)
            c.sort(key=lambda x: x["path"])
    malformed = None
    variants = [v for v in variants if images.get(v)]
    if variants and n % 13 == 12:
        v = rng.choice(variants)
        a = rng.choice(list(images[v]))
        kinds = ["cell-is-dict", "missing-path", "missing-arch", "variant-is-list", "image-is-string", "size-is-text", "cell-is-null",
                 "cell-is-falsy", "variant-is-falsy"]
        malformed = kinds[(n // 13) % len(kinds)]                  # round-robin over the classes
        if malformed == "cell-is-falsy":
            images[v][a] = rng.choice([{}, "", 0, False, 0.0])     # audit A8
        elif malformed == "variant-is-falsy":
            images[v] = rng.choice([None, "", 0, False, []])
        elif malformed == "cell-is-dict":
            images[v][a] = {"x": 1}
        elif malformed.startswith("missing-"):
            if images[v][a]:
                images[v][a][0].pop(malformed[8:], None)
        elif malformed == "variant-is-list":
            images[v] = ["x86_64"]
        elif malformed == "image-is-string":
            images[v][a] = ["boot.iso"]
        elif malformed == "size-is-text":
            if images[v][a]:
                images[v][a][0]["size"] = "12 "
        elif malformed == "cell-is-null":
            images[v][a] = None
    hdr = {"version": ver}
    if malformed:
        hdr["x-malformed"] = malformed
    if ver != "1.0" or rng.random() < 0.5:
        hdr["type"] = "productmd.images"
    return {"header": hdr, "payload": {"compose": dict((kk, vv) for kk, vv in F.gen_compose(rng, t).items() if kk in ("id", "type", "date", "respin")),
                                       "images": images}}


def images_expectation(doc, tbl):
    """what the property demands of loading `doc` (written from the document, no library code):
    -> (must_fail, groups, claim_variants); groups = [{"rec": 15 attributes, "at": [[variant, arch], ...]}] one per image dictionary"""
    vp = F.version_pair(doc["header"]["version"])
    old = vp is not None and vp <= (1, 1)
    must_fail, groups, outside = False, [], set()
    for v, d in doc["payload"]["images"].items():
        binary = [a for a in d if a != "src"]
        if old and "src" in d and not binary:
            outside.add(v)                       # a variant with only a `src` entry is outside the claim
        for a, cell in d.items():
            for rec in cell:
                targets = binary if (old and a == "src") else [a]
                if any(not is_binary(b, tbl) for b in targets):
                    must_fail = True
                groups.append({"rec": doc_record(rec, vp), "at": sorted([v, b] for b in targets), "from": [v, a]})
    return must_fail, groups, outside


def group_key(g):
    return json.dumps(checklib.canon([g["rec"], g["at"]]), sort_keys=True)


def real_groups(m):
    by = {}
    for v, d in m.images.items():
        for a, cell in d.items():
            for o in cell:
                by.setdefault(id(o), {"rec": F.record(o), "at": []})["at"].append([v, a])
    gs = [{"rec": g["rec"], "at": sorted(g["at"])} for g in by.values()]
    return sorted(gs, key=group_key)


def model_groups(st):
    by = {}
    for v, archs in st["cells"]:
        for a, cell in archs:
            for i, img in cell:
                by.setdefault(i, {"rec": F.dec(img), "at": []})["at"].append([v, a])
    gs = [{"rec": g["rec"], "at": sorted(g["at"])} for g in by.values()]
    return sorted(gs, key=group_key)


# ------------------------------------------------------------------------------------------------ rpms 0.3
def nevra_texts(rng, name, et, ev, version, release, arch):
    """-> (text as it stands in the document, canonical N-E:V-R.A)"""
    canon = "%s-%d:%s-%s.%s" % (name, ev, version, release, arch)
    r = rng.random()
    if r < 0.7:
        return canon, canon
    if r < 0.85:
        return "%s-%s:%s-%s.%s.rpm" % (name, et, version, release, arch), canon
    return "%s%s-%s:%s-%s.%s" % (rng.choice(["Packages/f/", "a/b-c/"]), name, et, version, release, arch), canon


def gen_rpms03_doc(rng, tier, n):
    """rpms documents of format <= 0.3 (payload.manifest): any subset of the variants has a `src` table next to 1-3 binary
    arches (different sets per variant); source RPMs whose signing key differs from their binaries' (unsigned SRPM next to signed
    binaries, other key, other case); source packages missing from the src table / unreferenced src entries / null entries;
    sometimes a variant with only `src`, a `nosrc` / unknown arch key, an entry of type `source` among the binaries"""
    arches = mc.arches()
    # versions round-robin; "0.03" is (0, 3): the gate `<= (0, 3)` compares integers (audit C2)
    ver = ["0.3", "0.3", "0.2", "0.3", "0.1", "0.3", "0.0", "0.3", "0.03"][n % 9]
    manifest, canon = {}, {}
    variants = odd_variants(rng, rng.sample(mc.VARIANTS, rng.randint(1, 3)))
    used = set()
    serial = [0]
    L = len(arches)

    def fresh_source():
        s = R.gen_source(rng)
        serial[0] += 1
        s["name"] = "%s%d" % (s["name"], serial[0])              # distinct canonical keys: no two entries write one slot
        return s

    for vi, v in enumerate(variants):
        pool = [a for a in arches if a not in used] or arches
        my = rng.sample(pool, rng.choice([1, 2, 2, 3, 3]))
        my[0] = arches[(3 * n + vi) % L]                            # audit A7: every table entry as a tree arch key in turn
        if rng.random() < 0.3:
            my[-1] = rng.choice(["x86_64", "i386", "ppc64le", "aarch64", "s390x"])
        my = list(dict.fromkeys(my))
        used.add(my[-1])
        sources = [fresh_source() for _ in range(rng.randint(1, 3))]
        ktext = {}
        for i, s in enumerate(sources):
            ktext[i] = nevra_texts(rng, s["name"], s["et"], s["ev"], s["version"], s["release"], s["srcarch"])
            canon[ktext[i][0]] = ktext[i][1]
        manifest[v] = {}
        for a in my:
            cell = {}
            for i, s in enumerate(sources):
                if rng.random() < 0.2 and len(sources) > 1:
                    continue                                      # this arch has nothing built from that source package
                key = rng.choice(SIGKEYS_SIGNED)
                rpms = {}
                for j in range(rng.choice([1, 1, 2, 3])):
                    debug = rng.random() < 0.3
                    name = s["name"] + rng.choice(["", "-libs", "-devel", "-doc"]) + ("-debuginfo" if debug else "") + ("-%d" % j if j else "")
                    # audit A9: the RPM's own arch is not tied to the tree arch (i686 under x86_64, any other table entry, noarch)
                    parch = rng.choice([a, a, "noarch", arches[(n + j) % L]])
                    txt, can = nevra_texts(rng, name, s["et"], s["ev"], s["version"], s["release"], parch)
                    canon[txt] = can
                    # "binary" is what "package" is renamed to: an entry that already says so is legal (audit A7)
                    rpms[txt] = {"type": "debug" if debug else rng.choice(["package", "package", "package", "binary"]),
                                 "path": rng.choice(["%s/%s/os/Packages/%s.rpm", "%s/%s/os//Packages/./%s.rpm", "%s/../%s/%s.rpm"]) % (v or "V", a, can.replace(":", "_")),
                                 "sigkey": key if rng.random() < 0.85 else rng.choice([None, "ABCDEF01", "abcdef01", ""])}
                if rng.random() < 0.06:
                    rpms = {}                                     # audit A10: a source package listed with NO package: nothing to file
                cell[ktext[i][0]] = rpms
            manifest[v][a] = cell
        if rng.random() < 0.7:
            tbl = {}
            for i, s in enumerate(sources):
                r = rng.random()
                if r < 0.12:
                    continue                                      # source package not in the src table: nothing to re-file
                if r < 0.17:
                    tbl[ktext[i][0]] = None                       # `srpm_data is not None`
                    continue
                # the SRPM's key: mostly DIFFERENT from its binaries' (unsigned, another key, another case)
                tbl[ktext[i][0]] = {"path": rng.choice(["%s/source/SRPMS/%s.rpm", "%s/source//SRPMS/./%s.rpm", "../%s/%s.rpm"]) % (v or "V", ktext[i][1].replace(":", "_")),
                                    "sigkey": rng.choice([None, None, "0A1B2C3D", "deadbeef", "FD431D51", "fd431d51", ""])}
                if rng.random() < 0.05 and not ktext[i][0].endswith(".rpm"):
                    # audit A9/A10: the src table spells the key differently from the arch tables (".rpm" appended): the reader looks
                    # the entry up by the exact text, so this package has NO src entry as far as the document goes
                    tbl[ktext[i][0] + ".rpm"] = tbl.pop(ktext[i][0])
                    canon[ktext[i][0] + ".rpm"] = ktext[i][1]
            if rng.random() < 0.25:
                s = fresh_source()
                txt, can = nevra_texts(rng, s["name"], s["et"], s["ev"], s["version"], s["release"], "src")
                canon[txt] = can
                tbl[txt] = {"path": "%s/source/SRPMS/unreferenced.rpm" % v, "sigkey": None}
            manifest[v]["src"] = tbl
    r = rng.random()
    inject = None
    if r < 0.08:
        manifest["OnlySource"] = {"src": {"only-0:1-1.src": {"path": "OnlySource/source/SRPMS/only.rpm", "sigkey": None}}}
        canon["only-0:1-1.src"] = "only-0:1-1.src"
        inject = "only-src"
    elif r < 0.16:
        v = rng.choice(variants)
        donor = next(iter(a for a in manifest[v] if a != "src"))
        bad = rng.choice(["nosrc", "nosrc", "nosrc"] + NEAR_MISS)
        manifest[v][bad] = copy.deepcopy(manifest[v][donor]) if rng.random() < 0.85 else {}
        inject = "bad-arch"
    elif r < 0.20:
        v = rng.choice(variants)
        a = next(iter(a for a in manifest[v] if a != "src"))
        for kk in [kk for kk in manifest[v][a] if manifest[v][a][kk]]:
            first = next(iter(manifest[v][a][kk]))
            # a source entry with srpm_nevra, or a type outside the table: refused by add
            manifest[v][a][kk][first]["type"] = rng.choice(["source", "source", "Package", "packages", "", "src"])
            inject = "source-type"
            break
    elif r < 0.23:
        manifest["Empty"] = {}                                     # audit A10: a variant with no arch at all
        inject = "empty-variant"
    elif r < 0.25:
        manifest = {}
        variants = []
        inject = "empty-manifest"
    elif r < 0.30:
        # audit A4: two variants whose names differ only in case, different arches, each with its own src table
        v = rng.choice(variants)
        twin = v.upper() if v.upper() != v else v.lower()
        if twin not in manifest and twin != v:
            s2 = fresh_source()
            other = arches[(3 * n + 11) % L]
            ktxt = "%s-%d:%s-%s.src" % (s2["name"], s2["ev"], s2["version"], s2["release"])
            btxt = "%s-%d:%s-%s.%s" % (s2["name"], s2["ev"], s2["version"], s2["release"], other)
            canon[ktxt] = ktxt; canon[btxt] = btxt
            manifest[twin] = {other: {ktxt: {btxt: {"type": "package", "path": "t/%s.rpm" % other, "sigkey": "AB"}}},
                              "src": {ktxt: {"path": "t/src.rpm", "sigkey": None}}}
            inject = "case-twin"
    malformed = None
    cand = [(v, a) for v in variants for a in manifest.get(v, {}) if a != "src" and manifest[v][a] and next(iter(manifest[v][a].values()))]
    if inject is None and cand and n % 11 in (4, 9):
        # malformed stream (correspondence only): one structural corruption, the error branches of the reader
        v, a = rng.choice(cand)
        kk = next(iter(manifest[v][a]))
        nn = next(iter(manifest[v][a][kk]))
        kinds = ["missing-type", "missing-path", "missing-sigkey", "src-missing-path", "src-missing-sigkey", "cell-is-list", "rpms-is-list",
                 "src-table-is-list", "path-is-null", "path-is-number", "variant-is-list", "src-path-absolute", "nevra-without-epoch",
                 "type-is-falsy", "src-entry-falsy", "src-path-falsy", "empty-srpm-key", "newer-version"]
        malformed = kinds[(2 * (n // 11) + (n % 11 == 9)) % len(kinds)]      # round-robin over the classes
        if malformed == "type-is-falsy":
            manifest[v][a][kk][nn]["type"] = rng.choice([None, 0, False, [], {}])           # audit A8
        elif malformed == "src-entry-falsy":
            manifest[v]["src"] = {kk: rng.choice([{}, [], 0, False, ""])}
        elif malformed == "src-path-falsy":
            manifest[v]["src"] = {kk: {"path": rng.choice([None, "", 0, [], False]), "sigkey": None}}
        elif malformed == "empty-srpm-key":
            manifest[v][a][""] = manifest[v][a].pop(kk)            # `if srpm_nevra:` is false: filed under the package's own key
        elif malformed == "newer-version":
            ver = rng.choice(["0.4", "0.10", "1.0"])               # not behind the gate: `payload.rpms` is looked up and missing
        if malformed.startswith("missing-"):
            manifest[v][a][kk][nn].pop(malformed[8:], None)
        elif malformed.startswith("src-missing-"):
            manifest[v]["src"] = {kk: {"path": "p.src.rpm", "sigkey": None}}
            manifest[v]["src"][kk].pop(malformed[12:], None)
        elif malformed == "cell-is-list":
            manifest[v][a] = []
        elif malformed == "rpms-is-list":
            manifest[v][a][kk] = [1]
        elif malformed == "src-table-is-list":
            manifest[v]["src"] = []
        elif malformed == "path-is-null":
            manifest[v][a][kk][nn]["path"] = rng.choice([None, "", 0, [], {}, False])
        elif malformed == "path-is-number":
            manifest[v][a][kk][nn]["path"] = rng.choice([5, ["x"], True])
        elif malformed == "variant-is-list":
            manifest[v] = []
        elif malformed == "src-path-absolute":
            manifest[v]["src"] = {kk: {"path": "/abs/p.src.rpm", "sigkey": None}}
        elif malformed == "nevra-without-epoch":
            manifest[v][a][kk]["foo-1.0-1.noarch"] = manifest[v][a][kk].pop(nn)
        inject = "malformed:" + malformed
    collision = False
    if inject is None and rng.random() < 0.06:
        # correspondence only: a second text of ONE source package in the same table (`...src` and `...src.rpm`), each with its own
        # src entry - both write [variant][arch][K][K], the later one stays (C10_rpms_refile_collision_witness)
        v = rng.choice(variants)
        a = next(iter(a for a in manifest[v] if a != "src"))
        ks = [kk for kk in manifest[v][a] if not kk.endswith(".rpm")]
        if ks:
            kk = rng.choice(ks)
            twin = kk + ".rpm"
            canon[twin] = canon[kk]
            manifest[v][a][twin] = {"twin-0:1-1.noarch": {"type": "package", "path": "twin.rpm", "sigkey": None}}
            canon["twin-0:1-1.noarch"] = "twin-0:1-1.noarch"
            manifest[v].setdefault("src", {})[twin] = {"path": "twin.src.rpm", "sigkey": "AA"}
            collision = True
            inject = "canonical-collision"
    hdr = {"version": ver}
    suffix, respin = rng.choice(["", ".n", ".t"]), rng.choice([0, 1, 3])
    cid = "%s-%s-20140507%s.%d" % (rng.choice(["Fedora", "RHEL"]), rng.choice(["20", "7.0"]), suffix, respin)
    comp = {"id": cid, "type": {"": "production", ".n": "nightly", ".t": "test"}[suffix], "date": "20140507", "respin": respin}
    return {"doc": {"header": hdr, "payload": {"compose": comp, "manifest": manifest}}, "canon": canon, "inject": inject, "collision": collision, "malformed": malformed}


SIGKEYS_SIGNED = ["fd431d51", "FD431D51", "AbCd1234", "34EC9CBA", "f5282ee4"]


def rpms03_expectation(doc, canon, tbl):
    """what the property demands of converting the 0.3 manifest (written from the document, no library code):
    -> (must_fail, expected mapping, source claims [(variant, arch, K, record)], variants outside the claim)"""
    manifest = doc["payload"]["manifest"]
    must_fail, out, claims, outside = False, {}, [], set()
    for v, archs in manifest.items():
        if "src" in archs and not [a for a in archs if a != "src"]:
            outside.add(v)
        src_tbl = archs.get("src", {})
        for a, cell in archs.items():
            if a == "src":
                continue
            for k, rpms in cell.items():
                sd = src_tbl.get(k)
                for nv, d in rpms.items():
                    if not is_binary(a, tbl) or d["type"] not in ("package", "binary", "debug"):
                        must_fail = True
                    cat = "binary" if d["type"] == "package" else d["type"]
                    K = canon[k]
                    slot = out.setdefault(v, {}).setdefault(a, {}).setdefault(K, {})
                    slot[canon[nv]] = {"category": cat, "path": d["path"], "sigkey": lower(d["sigkey"])}
                    if sd is not None:
                        rec = {"category": "source", "path": sd["path"], "sigkey": lower(sd["sigkey"])}
                        slot[K] = rec
                if rpms and sd is not None:
                    claims.append([v, a, canon[k], {"category": "source", "path": sd["path"], "sigkey": lower(sd["sigkey"])}])
    return must_fail, out, claims, outside


def reorder(x):
    """the same document with every object's keys in REVERSE sorted order (audit A10: insertion order different from sorted order)"""
    if isinstance(x, dict):
        return dict((k, reorder(x[k])) for k in sorted(x, reverse=True))
    if isinstance(x, list):
        return [reorder(v) for v in x]
    return x


def path_cells(m):
    """{variant: {arch: sorted image paths}} of a real Images object (empty tables included)"""
    return dict((v, dict((a, sorted(o.path for o in cell)) for a, cell in d.items())) for v, d in m.images.items())


def gen_img_seq(rng, tier, n, tbl):
    """audit B: ONE Images object through adds (accepted / refused), dumps, __getitem__, loads of old documents (into the empty and into
    the non-empty object, twice), crossing the version gates (0.0 -> dumps -> add; load 1.0 -> add)"""
    t = F.tables()
    pool = [simple_image(rng, j + 1, rng.choice(["x86_64", "src", "noarch"])) for j in range(4)]
    for j, img in enumerate(pool):
        img["path"] = "pool/%d.iso" % j
    variants = rng.sample(F.VARIANTS, 2) + [rng.choice(ODD_VARIANTS)]
    good = rng.sample(t["arches"], 2) + ["x86_64"]
    steps = []
    docs = 0
    for i in range(rng.randint(3, 9)):
        r = rng.random()
        if r < 0.45:
            rr = rng.random()
            arch = rng.choice(good) if rr < 0.55 else rng.choice(SOURCE_NAMES) if rr < 0.8 else rng.choice(NEAR_MISS)
            steps.append(["add", rng.choice(variants), arch, rng.randrange(len(pool))])
        elif r < 0.6:
            steps.append(["dumps"])
        elif r < 0.75:
            steps.append(["getitem", rng.choice(variants + ["Missing", "src"])])
        elif docs < 2:
            for _ in range(20):
                doc = gen_images_doc(rng, tier, 10 * n + docs + 3 * _)
                must_fail, groups, outside = images_expectation(doc, tbl) if not doc["header"].get("x-malformed") else (True, [], set())
                recs = [g["rec"] for g in groups]
                if not must_fail and not outside and not F.uniq_violations(recs) and len(set(g["rec"]["path"] for g in groups)) == len(groups) \
                        and F.version_pair(doc["header"]["version"]) <= (1, 1):
                    # keep the documents of one sequence apart (paths and identities)
                    tag = "d%d/" % docs
                    for d in doc["payload"]["images"].values():
                        for c in d.values():
                            for rec in c:
                                rec["path"] = tag + rec["path"]; rec["disc_number"] += 100000 * (docs + 1)
                    steps.append(["loads", doc]); docs += 1
                    break
    return {"version": rng.choice(["0.0", "1.0", "1.1", "1.2"]), "pool": pool, "steps": steps, "compose": F.gen_compose(rng, t)}


def gen_rpm_seq(rng, tier, n, tbl):
    """audit B: ONE Rpms object through adds, dumps, __getitem__ and loads of 0.3 documents (which REPLACE the mapping)"""
    ops = R.gen_ops(rng, "quick", valid_only=True)
    steps = []
    for k, op in enumerate(ops[:8]):
        r = rng.random()
        if r < 0.2:
            op["arch"] = rng.choice(SOURCE_NAMES)
        elif r < 0.3:
            op["arch"] = rng.choice(NEAR_MISS)
        steps.append(["add", dict((kk, vv) for kk, vv in op.items() if kk != "why")])
        r = rng.random()
        if r < 0.2:
            steps.append(["dumps"])
        elif r < 0.4:
            steps.append(["getitem", rng.choice([op["variant"], "Missing", "src"])])
        elif r < 0.5:
            for _ in range(20):
                g = gen_rpms03_doc(rng, tier, 10 * n + k + 3 * _)
                if g["inject"] in (None, "empty-variant", "case-twin") and not rpms03_expectation(g["doc"], g["canon"], tbl)[0]:
                    steps.append(["loads", g["doc"], g["canon"]])
                    break
    return {"steps": steps, "compose": mc.gen_compose(rng)}


# ------------------------------------------------------------------------------------------------ the property
class C10(Prop):
    id = "C10"
    lean_module = "ProductMD.Properties.C10"
    quick_budget = 1000
    thorough_budget = 24000
    rule = ("(1) add histories on Images() (header 0.0/1.0/1.1/1.2/2.0) and Rpms(): EVERY arch of RPM_ARCHES in turn plus src, nosrc, unknown and "
            "near-miss names (case, blanks, line feed, look-alikes), refused and accepted calls interleaved: outcome and the WHOLE mapping "
            "(empty keys included) after every call, real vs model; oracle: non-binary arch => ValueError and the mapping deep-equal to "
            "before (no new variant key, no empty arch table), every arch key binary after every step. (2) images documents 1.0/1.1/1.2/2.0 "
            "where any subset of variants has `src` next to 1-3 binary arches, the sets differing between variants (also: only-src variant, "
            "nosrc / unknown key, src key in a newer document): loads + dumps, objects grouped by identity; oracle: each src image is ONE "
            "object filed under exactly the binary arches of ITS variant, other images stay, no src key in memory or in the dump, a document "
            "that would need a non-binary key is refused. (3) rpms documents <= 0.3 with src tables (SRPM keys differing from the binaries', "
            "missing / null / unreferenced src entries, non-canonical key texts): oracle: [variant][arch][srpm][srpm] = source record FROM "
            "THE SRC TABLE for every binary arch listing packages of it, whole mapping equal to the spec conversion, no src key in memory "
            "or in the dump; non-trivial = a history with both a refused and an accepted call / a document with a src entry")
    assumptions = ["json.load keeps what json.dump wrote (documents reach the library as text with sorted keys, so that dict iteration order "
                   "is the same on both sides)", "str.lower() is modelled for ASCII letters only (signing keys are hex strings)",
                   "image objects are not mutated after they were filed",
                   "the image table / 0.3 manifest of a document is a parsed JSON object: unique keys on every level (hypotheses OutNodup / Nodup of "
                   "the refile theorems); C10_keys needs no such hypothesis"]
    partial = {"C10_rpms_refile_general_partial": "hypothesis: the other source-package keys of the same [variant][arch] table are non-empty "
               "and have a canonical N-E:V-R.A different from this one's (two texts of one package in one table write the same slot, the "
               "later wins: C10_rpms_refile_collision_witness); C10_rpms_refile is the instance for canonical keys"}

    # ------------------------------------------------------------------ cases
    def cases(self, rng, tier, budget):
        out = list(self._cases(rng, tier, budget))
        head = [c for c in out if c.get("sweep")]
        tail = [c for c in out if not c.get("sweep")]
        rng.shuffle(tail)
        return head + tail

    def _cases(self, rng, tier, budget):
        tbl = table()
        names = tbl + [n for n in NEAR_MISS if n not in tbl]
        # ---- every name once, on both builders: accepted call, call under the name, accepted call
        for i, name in enumerate(names):
            img = [simple_image(rng, 1), simple_image(rng, 2)]
            yield {"op": "img_history", "sweep": True, "args": {"version": IMG_VERSIONS[i % len(IMG_VERSIONS)], "pool": img,
                   "ops": [["Server", "x86_64", 0], ["Server", name, 1], ["Client", name, 0], ["Server", "i386", 1]]}}
            src = R.gen_source(rng)
            ops = []
            for j, (v, a) in enumerate([("Server", "x86_64"), ("Server", name), ("Client", name), ("Server", "x86_64")]):
                op = R.valid_op(rng, src, v, a if is_binary(a, tbl) else "x86_64", j)
                op["arch"] = a
                ops.append(op)
            yield {"op": "rpm_history", "sweep": True, "args": {"ops": strip(ops)}}
        # ---- every shipped images fixture (src_move_before.json is the 1.1 document with a src entry)
        import glob, os
        for path in sorted(glob.glob(os.path.join(checklib.REPO, "tests", "images", "*.json"))):
            try:
                doc = json.load(open(path))
            except ValueError:
                continue
            yield {"op": "img_load", "sweep": True, "args": {"doc": doc, "fixture": os.path.basename(path)}}
        n_ih, n_rh, n_il = int(budget * 0.21), int(budget * 0.21), int(budget * 0.26)
        n_is, n_rs = int(budget * 0.06), int(budget * 0.06)
        n_rl = budget - n_ih - n_rh - n_il - n_is - n_rs
        t = F.tables()
        for n in range(n_ih):
            pool = [simple_image(rng, j + 1, rng.choice(["x86_64", "src", "noarch"])) for j in range(rng.randint(1, 4))]
            variants = rng.sample(F.VARIANTS, 2) + [ODD_VARIANTS[n % len(ODD_VARIANTS)]]
            good = rng.sample(t["arches"], 2) + ["x86_64"]
            ops = []
            for _ in range(rng.randint(1, 10)):
                r = rng.random()
                arch = rng.choice(good) if r < 0.55 else rng.choice(SOURCE_NAMES) if r < 0.75 else rng.choice(NEAR_MISS) if r < 0.87 \
                    else names[rng.randrange(len(names))] if r < 0.95 else rng.choice(NON_STRING_ARCHES)
                ops.append([rng.choice(variants + ["Fresh%d" % len(ops)]), arch, rng.randrange(len(pool))])
            yield {"op": "img_history", "args": {"version": IMG_VERSIONS[n % len(IMG_VERSIONS)], "pool": pool, "ops": ops}}
        for n in range(n_rh):
            ops = R.gen_ops(rng, "quick", valid_only=True)
            for k, op in enumerate(ops):
                r = rng.random()
                if r < 0.2:
                    op["arch"] = rng.choice(SOURCE_NAMES)
                elif r < 0.32:
                    op["arch"] = rng.choice(NEAR_MISS)
                elif r < 0.4:
                    op["arch"] = names[rng.randrange(len(names))]
                elif r < 0.43:
                    op["arch"] = rng.choice(NON_STRING_ARCHES)
                if r < 0.43 and rng.random() < 0.5:
                    op["variant"] = "Fresh%d" % k                # a refused call for a variant that has nothing else
                elif rng.random() < 0.08:
                    op["variant"] = ODD_VARIANTS[(n + k) % len(ODD_VARIANTS)]
            yield {"op": "rpm_history", "args": {"ops": strip(ops)}}
        for n in range(n_is):
            yield {"op": "img_seq", "args": gen_img_seq(rng, tier, n, tbl)}
        for n in range(n_rs):
            yield {"op": "rpm_seq", "args": gen_rpm_seq(rng, tier, n, tbl)}
        for n in range(n_il):
            yield {"op": "img_load", "args": {"doc": gen_images_doc(rng, tier, n)}}
        for n in range(n_rl):
            yield {"op": "rpm_load", "args": gen_rpms03_doc(rng, tier, n)}

    # ------------------------------------------------------------------ real side
    def real(self, case):
        a = case["args"]
        if case["op"] == "img_history":
            im = F.lib()
            m = im.Images()
            m.header.version = a["version"]
            objs = [F.new_image(im, m, attrs) for attrs in a["pool"]]
            # audit B1: a SECOND manifest object is built interleaved, one call ahead, in the same process (state kept outside the
            # object - a class attribute, a mutable default - would leak into the object under test)
            shadow = im.Images()
            shadow.header.version = a["version"]
            sobjs = [F.new_image(im, shadow, attrs) for attrs in a["pool"]]
            idx_of = dict((id(o), i) for i, o in enumerate(objs))
            steps = []
            for v, arch, idx in a["ops"]:
                try:
                    shadow.add(v, arch, sobjs[idx])
                except Exception:  # noqa
                    pass
                try:
                    m.add(v, arch, objs[idx]); res = "ok"
                except Exception as e:  # noqa
                    res = checklib.err_class(e)
                cells = dict((str(vv), dict((aa if isinstance(aa, str) else repr(aa), sorted(idx_of.get(id(o), -1) for o in cell)) for aa, cell in d.items()))
                             for vv, d in m.images.items())
                steps.append({"res": res, "cells": cells})
            return {"steps": steps}
        if case["op"] == "rpm_history":
            obj = R.new()
            shadow = R.new()
            steps = []
            for op in a["ops"]:
                try:
                    R.add(shadow, op)
                except Exception:  # noqa
                    pass
                steps.extend(mc.run_trace(obj, R.mapping, R.add, [op]))
            return {"steps": steps}
        if case["op"] == "img_seq":
            im = F.lib()
            m = im.Images()
            m.header.version = a["version"]
            for f, val in a["compose"].items():
                setattr(m.compose, f, copy.deepcopy(val))
            objs = [F.new_image(im, m, attrs) for attrs in a["pool"]]
            steps = []
            for st in a["steps"]:
                extra = {}
                try:
                    if st[0] == "add":
                        m.add(st[1], st[2], objs[st[3]])
                    elif st[0] == "dumps":
                        extra["written"] = dict((v, dict((aa, sorted(r["path"] for r in c)) for aa, c in d.items()))
                                                for v, d in json.loads(m.dumps())["payload"]["images"].items())
                    elif st[0] == "getitem":
                        m[st[1]]
                    elif st[0] == "loads":
                        m.loads(json.dumps(st[1], sort_keys=True))
                    res = "ok"
                except Exception as e:  # noqa
                    res = checklib.err_class(e)
                steps.append(dict(extra, res=res, cells=path_cells(m), version=m.header.version))
            return {"steps": steps}
        if case["op"] == "rpm_seq":
            m = R.new()
            mc.apply_compose(m, a["compose"])
            steps = []
            for st in a["steps"]:
                extra = {}
                try:
                    if st[0] == "add":
                        R.add(m, st[1])
                    elif st[0] == "dumps":
                        extra["written"] = json.loads(m.dumps())["payload"]["rpms"]
                    elif st[0] == "getitem":
                        m[st[1]]
                    elif st[0] == "loads":
                        m.loads(json.dumps(st[1], sort_keys=True))
                    res = "ok"
                except Exception as e:  # noqa
                    res = checklib.err_class(e)
                steps.append(dict(extra, res=res, state=mc.enc(m.rpms)))
            return {"steps": steps}
        if case["op"] == "img_load":
            im = F.lib()
            # another manifest object first reads a document with the SAME variant names and a DIFFERENT binary arch set (src image next to
            # the single key `noarch`): loading is per object, nothing of it may leak into the load under test (makes every case, and
            # therefore every replay, self-contained against state kept between loads)
            try:
                imgs = a["doc"]["payload"]["images"]
                prime = {"header": a["doc"]["header"], "payload": {"compose": a["doc"]["payload"]["compose"], "images": dict(
                    (v, {"src": [dict(_simple_image(random_const, 9000 + i, "src", "P"), subvariant="P")], "noarch": []})
                    for i, v in enumerate(sorted(imgs)) if isinstance(v, str))}}
                im.Images().loads(json.dumps(prime, sort_keys=True))
            except Exception:  # noqa
                pass
            def load(text):
                m = im.Images()
                try:
                    m.loads(text)
                except Exception as e:  # noqa
                    return checklib.err_class(e)
                keys = dict((v, sorted(d)) for v, d in m.images.items())
                return {"ok": {"groups": real_groups(m), "keys": keys, "dump": checklib.guarded(m.dumps)}}
            out = load(json.dumps(a["doc"], sort_keys=True))
            # audit A10: the same document with every object's keys in the opposite order must load to the same manifest
            other = load(json.dumps(reorder(a["doc"])))
            out = dict(out)
            out["reordered_same"] = checklib.canon(other) == checklib.canon(out)
            if not out["reordered_same"]:
                out["reordered"] = other
            return out
        if case["op"] == "rpm_load":
            pm = mc.lib()
            # audit B1: another Rpms object first converts a document with the same variant names (cf. img_load)
            try:
                man = a["doc"]["payload"]["manifest"]
                prime = {"header": a["doc"]["header"], "payload": {"compose": a["doc"]["payload"]["compose"], "manifest": dict(
                    (v, {"noarch": {"p-0:1-1.src": {"p-0:1-1.noarch": {"type": "package", "path": "p.rpm", "sigkey": "AA"}}},
                         "src": {"p-0:1-1.src": {"path": "p.src.rpm", "sigkey": "BB"}}}) for v in man)}}
                pm.rpms.Rpms().loads(json.dumps(prime, sort_keys=True))
            except Exception:  # noqa
                pass

            def load(text):
                m = pm.rpms.Rpms()
                try:
                    m.loads(text)
                except Exception as e:  # noqa
                    return checklib.err_class(e)
                return {"ok": {"payload": mc.enc(m.rpms), "version": m.header.version, "dump": checklib.guarded(m.dumps)}}
            out = dict(load(json.dumps(a["doc"], sort_keys=True)))
            other = load(json.dumps(reorder(a["doc"])))
            out["reordered_same"] = checklib.canon(other) == checklib.canon(out)
            if not out["reordered_same"]:
                out["reordered"] = other
            return out

    # ------------------------------------------------------------------ model side
    def model_requests(self, case):
        a = case["args"]
        if case["op"] == "img_history":
            return [{"op": "images_history", "args": {"version": a["version"], "compose": {}, "ops": [
                {"variant": v, "arch": arch, "id": idx, "image": F.enc(a["pool"][idx])} for v, arch, idx in a["ops"]]}}]
        if case["op"] == "rpm_history":
            return [{"op": "bld_trace", "args": {"kind": "rpms", "ops": a["ops"]}}]
        if case["op"] == "img_load":
            return [{"op": "c10_images_load", "args": {"doc": F.enc(a["doc"])}}]
        if case["op"] == "rpm_load":
            return [{"op": "c10_rpms_load", "args": {"doc": a["doc"]}}]
        return []                                  # img_seq / rpm_seq: real object against the spec (no model op for dumps / loads mid-history)

    def compare(self, case, real_out, model_out):
        r = dict((k, v) for k, v in real_out.items() if k not in ("reordered_same", "reordered")) if isinstance(real_out, dict) else real_out
        if checklib.canon(r) != checklib.canon(model_out):
            return {"real": r, "model": model_out}
        return None

    def model_result(self, case, outs):
        o = outs[0]
        if case["op"] == "img_history":
            return {"steps": [{"res": s["res"], "cells": dict((v, dict((a, sorted(i for i, _ in cell)) for a, cell in archs)) for v, archs in s["state"])}
                              for s in o]}
        if case["op"] == "rpm_history":
            return {"steps": o}
        if case["op"] == "img_load":
            if "ok" not in o:
                return o
            st = o["ok"]["state"]
            return {"ok": {"groups": model_groups(st), "keys": dict((v, sorted(a for a, _ in archs)) for v, archs in st["cells"]), "dump": o["ok"]["dump"]}}
        if case["op"] == "rpm_load":
            if "ok" not in o:
                return o
            return {"ok": {"payload": o["ok"]["manifest"]["payload"], "version": o["ok"]["manifest"]["version"], "dump": o["ok"]["dump"]}}

    # ------------------------------------------------------------------ the property itself, on the real output
    def oracle(self, case, real_out):
        a = case["args"]
        tbl = table()
        if case["op"] == "img_history":
            prev = {}
            for k, ((v, arch, idx), st) in enumerate(zip(a["ops"], real_out["steps"])):
                ctx = {"step": k, "call": [v, arch, idx], "version": a["version"], "result": st["res"], "cells_before": prev, "cells_after": st["cells"]}
                f = self._step(ctx, arch, st["res"], prev, st["cells"], tbl)
                if f:
                    return f
                prev = st["cells"]
            return None
        if case["op"] == "rpm_history":
            prev = {}
            for k, (op, st) in enumerate(zip(a["ops"], real_out["steps"])):
                res = "ok" if "ok" in st["out"] else st["out"]
                ctx = {"step": k, "call": op, "result": res, "mapping_before": prev, "mapping_after": st["state"]}
                f = self._step(ctx, op["arch"], res, prev, st["state"], tbl)
                if f:
                    return f
                prev = st["state"]
            return None
        if case["op"] == "img_load":
            return self._oracle_img_load(a["doc"], real_out, tbl) or self._order(a["doc"]["header"].get("x-malformed"), real_out)
        if case["op"] == "rpm_load":
            return self._oracle_rpm_load(a, real_out, tbl) or self._order(a.get("malformed") or a.get("collision"), real_out)
        if case["op"] == "img_seq":
            return self._oracle_img_seq(a, real_out, tbl)
        if case["op"] == "rpm_seq":
            return self._oracle_rpm_seq(a, real_out, tbl)

    def _order(self, skip, real_out):
        if skip or real_out.get("reordered_same", True):
            return None
        return {"kind": "order-dependent", "observed": {"sorted_keys": dict((k, v) for k, v in real_out.items() if k not in ("reordered", "reordered_same")),
                                                       "reverse_sorted_keys": real_out.get("reordered")},
                "required": "the loaded manifest does not depend on the order of the keys of the document's objects"}

    def _oracle_img_seq(self, a, real_out, tbl):
        spec = {}
        for k, (st, out) in enumerate(zip(a["steps"], real_out["steps"])):
            before = copy.deepcopy(spec)
            want_res = "ok"
            if st[0] == "add":
                if is_binary(st[2], tbl):
                    c = spec.setdefault(st[1], {}).setdefault(st[2], [])
                    pth = a["pool"][st[3]]["path"]
                    if pth not in c:
                        c.append(pth); c.sort()
                else:
                    want_res = {"err": "ValueError"}
            elif st[0] == "getitem":
                if st[1] not in spec:
                    want_res = {"err": "KeyError"}
            elif st[0] == "loads":
                _, groups, _ = images_expectation(st[1], tbl)
                for g in groups:
                    for v, b in g["at"]:
                        c = spec.setdefault(v, {}).setdefault(b, [])
                        c.append(g["rec"]["path"]); c.sort()
            ctx = {"step": k, "call": st if st[0] != "loads" else ["loads", {"version": st[1]["header"]["version"], "keys": dict((v, sorted(d)) for v, d in st[1]["payload"]["images"].items())}],
                   "result": out["res"], "cells_before": before, "cells_after": out["cells"], "header_version": out.get("version")}
            if out["res"] != want_res:
                return {"kind": "seq-outcome", "observed": ctx, "required": {"result": want_res}}
            if out["cells"] != spec:
                return {"kind": "seq-state" if st[0] in ("add", "loads") and want_res == "ok" else "call-left-a-trace", "observed": ctx,
                        "required": {"cells_after": spec, "why": "accepted add / load files exactly what was put in; a refused add, dumps and __getitem__ change nothing"}}
            bad = [va for va in arch_keys(out["cells"]) if not is_binary(va[1], tbl)]
            if bad:
                return {"kind": "source-arch-key", "observed": dict(ctx, bad_keys=bad), "required": "every arch key is in RPM_ARCHES minus {src, nosrc}"}
            if st[0] == "dumps":
                want = dict((v, dict((aa, c) for aa, c in d.items() if c)) for v, d in spec.items())
                want = dict((v, d) for v, d in want.items() if d)
                if out.get("written") != want:
                    return {"kind": "seq-written", "observed": dict(ctx, written=out.get("written")), "required": {"written": want}}
        return None

    def _oracle_rpm_seq(self, a, real_out, tbl):
        spec = {}
        for k, (st, out) in enumerate(zip(a["steps"], real_out["steps"])):
            before = copy.deepcopy(spec)
            want_res = "ok"
            if st[0] == "add":
                op = st[1]
                if is_binary(op["arch"], tbl):
                    spec.setdefault(op["variant"], {}).setdefault(op["arch"], {}).setdefault(op["expect"]["srpm_key"], {})[op["expect"]["key"]] = R.record_of(op)
                else:
                    want_res = {"err": "ValueError"}
            elif st[0] == "getitem":
                if st[1] not in spec:
                    want_res = {"err": "KeyError"}
            elif st[0] == "loads":
                spec = rpms03_expectation(st[1], st[2], tbl)[1]           # the 0.3 reader REPLACES the mapping
            ctx = {"step": k, "call": st if st[0] != "loads" else ["loads", {"version": st[1]["header"]["version"], "keys": dict((v, sorted(d)) for v, d in st[1]["payload"]["manifest"].items())}],
                   "result": out["res"], "mapping_before": before, "mapping_after": out["state"]}
            if out["res"] != want_res:
                return {"kind": "seq-outcome", "observed": ctx, "required": {"result": want_res}}
            if out["state"] != spec:
                return {"kind": "seq-state" if st[0] in ("add", "loads") and want_res == "ok" else "call-left-a-trace", "observed": ctx,
                        "required": {"mapping_after": spec, "why": "accepted add / conversion files exactly what was put in; a refused add, dumps and __getitem__ change nothing"}}
            bad = [va for va in arch_keys(out["state"]) if not is_binary(va[1], tbl)]
            if bad:
                return {"kind": "source-arch-key", "observed": dict(ctx, bad_keys=bad), "required": "every arch key is in RPM_ARCHES minus {src, nosrc}"}
            if st[0] == "dumps" and out.get("written") != spec:
                return {"kind": "seq-written", "observed": dict(ctx, written=out.get("written")), "required": {"written": spec}}
        return None

    def _step(self, ctx, arch, res, before, after, tbl):
        if not is_binary(arch, tbl):
            if res != {"err": "ValueError"}:
                return {"kind": "missing-refusal", "observed": ctx, "required": "ValueError: %r is not a binary architecture" % (arch,)}
        elif res != "ok":
            # audit C1, the other inclusion: ONLY src / nosrc / names outside the table are refused (every other argument of the
            # generated calls is valid, the images of a pool never collide)
            return {"kind": "spurious-refusal", "observed": ctx, "required": "accepted: %r is a binary architecture and the call is otherwise valid" % (arch,)}
        if res != "ok" and after != before:
            return {"kind": "refusal-left-a-trace", "observed": ctx,
                    "required": "a refused add leaves the manifest exactly as it was (no new variant key, no empty arch table)"}
        bad = [va for va in arch_keys(after) if not is_binary(va[1], tbl)]
        if bad:
            return {"kind": "source-arch-key", "observed": dict(ctx, bad_keys=bad), "required": "every arch key is in RPM_ARCHES minus {src, nosrc}"}
        return None

    def _oracle_img_load(self, doc, real_out, tbl):
        if doc["header"].get("x-malformed"):
            # outside the quantifier (well-formed documents); whatever was loaded must still have binary arch keys only
            if "ok" in real_out:
                bad = [[v, x] for v, ks in real_out["ok"]["keys"].items() for x in ks if not is_binary(x, tbl)]
                if bad:
                    return {"kind": "source-arch-key", "observed": {"bad_keys": bad}, "required": "every arch key of a loaded manifest is binary"}
            return None
        must_fail, groups, outside = images_expectation(doc, tbl)
        ver = doc["header"]["version"]
        if must_fail:
            if "ok" in real_out:
                bad = [[v, x] for v, ks in real_out["ok"]["keys"].items() for x in ks if not is_binary(x, tbl)]
                return {"kind": "loaded-under-non-binary-arch", "observed": {"version": ver, "keys": real_out["ok"]["keys"], "bad_keys": bad},
                        "required": "a document that files images under (or re-files source images to) a non-binary arch is refused"}
            return None
        vp = F.version_pair(ver)
        recs = [g["rec"] for g in groups]
        if "err" in real_out:
            if vp is not None and vp >= (1, 1) and F.uniq_violations(recs):
                return None                                  # C09's refusal
            return {"kind": "spurious-rejection", "observed": dict(real_out, version=ver),
                    "required": "a valid document whose images all go to binary arches loads"}
        ok = real_out["ok"]
        bad = [[v, x] for v, ks in ok["keys"].items() for x in ks if not is_binary(x, tbl)]
        if bad:
            return {"kind": "source-arch-key", "observed": {"version": ver, "keys": ok["keys"], "bad_keys": bad},
                    "required": "every arch key of a loaded manifest is in RPM_ARCHES minus {src, nosrc}"}
        want = sorted(({"rec": g["rec"], "at": g["at"]} for g in groups if g["from"][0] not in outside and g["at"]), key=group_key)
        got = [g for g in ok["groups"] if not all(v in outside for v, _ in g["at"])]
        if checklib.canon(got) != checklib.canon(want):
            miss = [g for g in want if checklib.canon(g) not in checklib.canon(got)]
            extra = [g for g in got if checklib.canon(g) not in checklib.canon(want)]
            return {"kind": "wrong-refiling", "observed": {"version": ver, "unexpected": [{"path": g["rec"]["path"], "arch": g["rec"]["arch"], "at": g["at"]} for g in extra][:6],
                                                         "missing": [{"path": g["rec"]["path"], "arch": g["rec"]["arch"], "at": g["at"]} for g in miss][:6]},
                    "required": "each image is one object; a `src` image of a <= 1.1 document sits in exactly the cells (variant, b), b a binary arch "
                                "key of the SAME variant; every other image in exactly its own cell"}
        d = ok["dump"]
        if "ok" not in d:
            if vp is not None and vp < (1, 1) and F.uniq_violations(recs):
                return None                                  # F11 (C02/C09): a 1.0 manifest with colliding images
            return {"kind": "dump-failed", "observed": d, "required": "the loaded manifest can be written"}
        written = json.loads(d["ok"])["payload"]["images"]
        bad = [va for va in arch_keys(written) if not is_binary(va[1], tbl)]
        if bad:
            return {"kind": "source-arch-key-written", "observed": {"bad_keys": bad}, "required": "the written document has no source architecture key"}
        where = {}
        for v, dd in written.items():
            for aa, cell in dd.items():
                for rec in cell:
                    where.setdefault(rec["path"], []).append([v, aa])
        for g in groups:
            if g["from"][0] in outside or not g["at"]:
                continue
            if sorted(where.get(g["rec"]["path"], [])) != g["at"] and sum(1 for h in groups if h["rec"]["path"] == g["rec"]["path"]) == 1:
                return {"kind": "wrong-refiling-written", "observed": {"path": g["rec"]["path"], "written_at": sorted(where.get(g["rec"]["path"], []))},
                        "required": {"at": g["at"]}}
        return None

    def _oracle_rpm_load(self, a, real_out, tbl):
        doc = a["doc"]
        if a.get("malformed"):
            # outside the quantifier (well-formed documents); whatever was loaded must still have binary arch keys only
            if "ok" in real_out:
                bad = [va for va in arch_keys(real_out["ok"]["payload"]) if not is_binary(va[1], tbl)]
                if bad:
                    return {"kind": "source-arch-key", "observed": {"bad_keys": bad}, "required": "no src / nosrc / unknown arch key after the conversion"}
            return None
        must_fail, want, claims, outside = rpms03_expectation(doc, a["canon"], tbl)
        ver = doc["header"]["version"]
        if must_fail:
            if "ok" in real_out:
                return {"kind": "loaded-invalid-0.3", "observed": {"version": ver, "arch_keys": arch_keys(real_out["ok"]["payload"])},
                        "required": "a 0.3 manifest listing packages under a non-binary arch (or a source entry among the binaries) is refused"}
            return None
        if "err" in real_out:
            return {"kind": "spurious-rejection", "observed": dict(real_out, version=ver), "required": "a well-formed 0.3 manifest loads"}
        got = real_out["ok"]["payload"]
        bad = [va for va in arch_keys(got) if not is_binary(va[1], tbl)]
        if bad:
            return {"kind": "source-arch-key", "observed": {"bad_keys": bad}, "required": "no src / nosrc / unknown arch key after the conversion"}
        if a.get("collision"):
            claims, want, got = [], {}, {}                    # outside the claim: only the arch keys and the written document are checked
        for v, arch, K, rec in claims:
            have = got.get(v, {}).get(arch, {}).get(K, {}).get(K)
            if have != rec:
                return {"kind": "source-rpm-not-refiled", "observed": {"at": [v, arch, K, K], "found": have},
                        "required": {"record": rec, "why": "source RPM under each binary arch that lists packages built from it; path and lower-cased "
                                                            "sigkey from the src table entry, category source"}}
        g2 = dict((v, d) for v, d in got.items() if v not in outside)
        w2 = dict((v, d) for v, d in want.items() if v not in outside)
        if g2 != w2:
            return {"kind": "conversion-differs", "observed": {"mapping": g2}, "required": {"mapping": w2}}
        d = real_out["ok"]["dump"]
        if "ok" not in d:
            return {"kind": "dump-failed", "observed": d, "required": "the converted manifest can be written"}
        written = json.loads(d["ok"])["payload"]["rpms"]
        bad = [va for va in arch_keys(written) if not is_binary(va[1], tbl)]
        got = real_out["ok"]["payload"]
        if bad or written != got:
            return {"kind": "source-arch-key-written", "observed": {"bad_keys": bad, "written_equals_memory": written == got},
                    "required": "the written document holds the converted mapping and no source architecture key"}
        return None

    # ------------------------------------------------------------------ bookkeeping
    def nontrivial(self, case, real_out):
        if case["op"] in ("img_seq", "rpm_seq"):
            rs = set("ok" if s["res"] == "ok" else "err" for s in real_out["steps"])
            return len(rs) == 2
        if case["op"] in ("img_history", "rpm_history"):
            rs = [("ok" if (s.get("res") == "ok" or "ok" in s.get("out", {})) else "err") for s in real_out["steps"]]
            return "ok" in rs and "err" in rs
        if case["op"] == "img_load":
            return any(isinstance(d, dict) and "src" in d for d in case["args"]["doc"]["payload"]["images"].values())
        if case["op"] == "rpm_load":
            return any(isinstance(d, dict) and "src" in d for d in case["args"]["doc"]["payload"]["manifest"].values())
        return True

    def stats(self, case, real_out, dist):
        def inc(k, n=1):
            dist[k] = dist.get(k, 0) + n
        op = case["op"]
        inc(op)
        if op in ("img_seq", "rpm_seq"):
            for st, s in zip(case["args"]["steps"], real_out["steps"]):
                inc("%s.%s:%s" % (op, st[0], "ok" if s["res"] == "ok" else s["res"]["err"]))
        elif op in ("img_history", "rpm_history"):
            for s in real_out["steps"]:
                r = s.get("res") if op == "img_history" else ("ok" if "ok" in s["out"] else s["out"])
                inc("%s.step:%s" % (op, "ok" if r == "ok" else r["err"]))
        elif op == "img_load":
            doc = case["args"]["doc"]
            inc("img_load.%s:%s" % (doc["header"]["version"], "ok" if "ok" in real_out else real_out["err"]))
            inc("img_load.variants_with_src", sum(1 for d in doc["payload"]["images"].values() if isinstance(d, dict) and "src" in d))
        elif op == "rpm_load":
            doc = case["args"]["doc"]
            inc("rpm_load.%s:%s" % (doc["header"]["version"], "ok" if "ok" in real_out else real_out["err"]))
            inc("rpm_load.inject:%s" % case["args"].get("inject"))
            inc("rpm_load.variants_with_src", sum(1 for d in doc["payload"]["manifest"].values() if isinstance(d, dict) and "src" in d))

    def shrink_candidates(self, case):
        a = case["args"]
        out = []
        if case["op"] in ("img_seq", "rpm_seq"):
            for i in range(len(a["steps"])):
                c = copy.deepcopy(case); del c["args"]["steps"][i]
                if c["args"]["steps"]:
                    out.append(c)
        elif case["op"] in ("img_history", "rpm_history"):
            for i in range(len(a["ops"])):
                c = copy.deepcopy(case); del c["args"]["ops"][i]
                if c["args"]["ops"]:
                    out.append(c)
        elif case["op"] in ("img_load", "rpm_load"):
            key = "images" if case["op"] == "img_load" else "manifest"
            tblv = a["doc"]["payload"][key]
            for v in list(tblv):
                if len(tblv) > 1:
                    c = copy.deepcopy(case); del c["args"]["doc"]["payload"][key][v]; out.append(c)
            for v in [v for v in tblv if isinstance(tblv[v], dict)]:
                for aa in list(tblv[v]):
                    if len(tblv[v]) > 1:
                        c = copy.deepcopy(case); del c["args"]["doc"]["payload"][key][v][aa]; out.append(c)
            for v in [v for v in tblv if isinstance(tblv[v], dict)]:
                for aa in list(tblv[v]):
                    cell = tblv[v][aa]
                    if isinstance(cell, list):
                        for i in range(len(cell)):
                            c = copy.deepcopy(case); del c["args"]["doc"]["payload"][key][v][aa][i]; out.append(c)
                    elif isinstance(cell, dict) and aa != "src":
                        for kk in list(cell):
                            if len(cell) > 1:
                                c = copy.deepcopy(case); del c["args"]["doc"]["payload"][key][v][aa][kk]; out.append(c)
                            elif isinstance(cell[kk], dict):
                                for nn in list(cell[kk]):
                                    if len(cell[kk]) > 1:
                                        c = copy.deepcopy(case); del c["args"]["doc"]["payload"][key][v][aa][kk][nn]; out.append(c)
        return out


def strip(ops):
    return [dict((k, v) for k, v in op.items() if k not in ("expect", "why")) for op in ops]


PROP = C10()

MANIFEST = dict(
    technique="Lean 4 proof over the executable models of Images.add (statement list read from the source), Images.deserialize/_add_1_1, "
              "Rpms.add and Rpms.deserialize_0_3: arch-key invariant by induction over unbounded add histories and over the loops of both "
              "readers, refusal-changes-nothing from the order of effects, exact characterisation of where each loaded image object is filed, "
              "last-write-wins argument for the re-filed source RPM; differential check of every step / loaded document against the real "
              "library + an oracle written from the documents without library code",
    text="C10_source_names_in_table / C10_refusal_lists (decide on the regenerated tables): src and nosrc are in RPM_ARCHES, so both literal "
         "refusal lists must (and do) name them; C10_refusal_necessary: without the refusal the table check files under src. C10_keys: every "
         "state reachable by Images.add / Rpms.add from the empty manifest (any op list, any arch strings), every images manifest loaded from "
         "any document of any version, every mapping converted from any 0.3 manifest has only arch keys in RPM_ARCHES minus {src, nosrc} "
         "(empty tables included). C10_images_refused / C10_rpms_refused: an add under a non-binary name returns ValueError and the IDENTICAL "
         "state. C10_images_refile: for a <= 1.1 document the filings of the loaded manifest are exactly: the k-th image dictionary, read as "
         "one object, under (variant, b) for every binary arch key b of its own variant when it stood under src, under its own arch otherwise. "
         "C10_images_refile_src / _other: the same in the property's words (every binary arch key of the SAME variant, nowhere else). "
         "C10_images_old_doc_arches: a <= 1.1 document that loads needs only binary keys (so one with nosrc / unknown keys next to images is refused). "
         "C10_rpms_refile: [variant][arch][srpm][srpm] holds {category source, path and lower-cased sigkey FROM THE SRC TABLE ENTRY} for every binary "
         "arch whose table lists packages of srpm (canonical keys; general form with the canonical N-E:V-R.A of the key: "
         "C10_rpms_refile_general_partial, excluded region witnessed by C10_rpms_refile_collision_witness). C10_images_written / C10_rpms_written: "
         "the documents serialize builds carry only binary arch keys.",
    note="A variant with only a `src` entry vanishes on load (outside the claim, recorded as an observation).",
    ref="7/C10")
