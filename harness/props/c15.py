"""C15 - compose IDs encode date, type and respin recoverably.

The Lean model is made of pure functions.  That the real `get_date_type_respin` behaves like one (same answer on a
repeated call, nothing a caller does to a returned value leaks into a later call, no mutable object shared between
calls) is OBSERVED on the real code by the `purity` probe (shared with C13: props/c13.py `purity_probe`), not proved."""
import json, os
import checklib
from checklib import Prop, ROOT, guarded
from props.c13 import purity_probe, PURITY_SEQUENCE

# the documented suffix spellings (property text / doc): spelling -> compose type; "" = no suffix
DOCUMENTED = [("", "production"), ("n", "nightly"), ("nightly", "nightly"), ("t", "test"), ("test", "test"), ("ci", "ci"),
              ("d", "development")]
SHORTS = ["f", "Fedora", "RHEL", "rhel", "my-prod", "sat", "Supp", "dp", "f20160101", "a1", "RHEL-5"]
VERSIONS = ["23", "5", "5.11", "7.2", "Rawhide", "20160101", "1.20151231", "123456789", "2.2", "6.20160101.1", "99999999.n.5",
            "1-2", "0", "5.0.20200101"]
VARIANT_SETS = [[], ["Server"], ["Client"], ["Server", "Client"], ["Workstation"], ["Client", "Aaa"], ["Server", "Z"], ["Everything"]]
LEGACY_VERSIONS = ["0.0", "0.1", "0.2"]
# --- boundary pools (docs/GENERATOR_AUDIT.md A1-A9): each value once per run, other attributes at their defaults.  None of them
# contains a line feed, so C15_decode_create_partial requires the round trip of the real code for every one of them.
SHORT_POOL = ["", " ", "a b", " f", "f ", "\t", "\u00a0", "-", "--", "a--b", "-a", "a-", "a.b", "a:b", "a/b", "a@b,c;d=e#f%g[h]i\"j'k\\l", "None", "null",
              "0", "False", "1.0", "\u00fc", "n\u0663", "\U0001F600", "s" * 300, "F", "Fedora-Server", "fedora", "FEDORA", "f23", "23", "20160101",
              "f-20160101", "x.n", "x.t.1", "RHEL", "RHE", "RHELS", "rhel", "Rhel", "RHEL-5"]
VERSION_POOL = ["", " ", "1 0", "\t", "-", "--", "1-2", "1--2", "-1", "1-", ".", "..", "1..2", "1.", ".1", "1:2", "1/2", "a@b,c;d=e#f%g[h]i\"j'k\\l", "None",
                "null", "0", "False", "1.0", "\u0663", "\u0660\u0661\u0662\u0663\u0664\u0665\u0666\u0667", "\uff11\uff12", "\U0001F600",
                "9" * 300, "20160101", "20160101.n.3", "12345678-87654321", "1-20160101", "123456789012", "1234567", "99999999.t.99",
                "5", "5.", "5.11", "5.0.1", "50", "5a", "05", "Rawhide", "rawhide-20160101"]
TYPE_POOL_EXTRA = [None, "", "GA", "Ga", "gA", "gaa", "g", "Updates", "UPDATES-TESTING", "EUS", "E4S"]
VARIANT_POOL = [[], ["Server"], ["Client"], ["Server", "Client"], ["Client", "Server"], ["Workstation"], ["Client", "Aaa"], ["Server", "Z"],
                ["Everything"], ["Clients"], ["Clien"], ["Servers"], ["Serve"], ["client"], ["server"], ["0", "Client"], ["Client", "Client2"],
                ["ServerX", "Server"], ["B", "A", "C"], ["a", "Server"]]
DATE_POOL = ["20160101", "00000000", "99999999", "19991231", "00000001", "10000000", "12345678", "30001231", "07040704",
             "\u0662\u0660\u0661\u0666\u0660\u0661\u0660\u0661", "\uff12\uff10\uff11\uff16\uff10\uff11\uff10\uff11"]
RESPIN_POOL = [0, 1, 2, 9, 10, 11, 99, 100, 12345, 10 ** 6, 10 ** 7 - 1]
REL_BASE = {"short": "f", "version": "23", "type": "ga"}
BP_NONE = {"short": None, "version": None, "type": None}


def generated():
    return json.load(open(os.path.join(ROOT, "lean", "generated.json")))


def lower_ascii(s):
    return "".join(chr(ord(c) + 32) if "A" <= c <= "Z" else c for c in s)


def decode_string(a):
    if "s" in a:
        return a["s"]
    return a["prefix"] + a["date"] + ("." + a["suffix"] if a["suffix"] else "") + (".%d" % a["respin"] if a["respin"] is not None else "")


def is_lower_word(w):
    return w != "" and all("a" <= c <= "z" for c in w)


def unknown_pool(compose_types):
    """suffix candidates outside the documented six.  It MUST contain the spelled-out name of every compose type of the
    library (a table that learns `.development` or `.production` is only visible through exactly that word), their
    prefixes and usual abbreviations, near misses of the documented spellings, and upper-case forms (for which the
    pattern's type group does not apply: observation only, see decode_expect)."""
    documented = set(k for k, _ in DOCUMENTED)
    words = []
    for t in list(compose_types) + ["production", "development", "nightly", "test", "ci"]:
        words += [t, t[:1], t[:2], t[:3], t[:4], t[:-1], t + "s", t + t[-1], t.upper(), t.capitalize()]
    words += ["dev", "devel", "prod", "c", "te", "ni", "x", "q", "nn", "tt", "dd", "cii", "night", "nightl", "tes", "z" * 9,
              "N", "T", "D", "CI", "Nightly", "TEST"]
    out = []
    for w in words:
        if w and w not in documented and w not in out:
            out.append(w)
    return out


def decode_expect(a):
    """what the property requires of a structured decode case; None = no claim"""
    if "s" in a or "\n" in a["prefix"]:
        return None
    typ = dict(DOCUMENTED).get(a["suffix"] or "")
    if typ is None and not is_lower_word(a["suffix"]):
        # a suffix that is not a lower-case word is outside the pattern's `\.[a-z]+` group: it is not looked up at all
        # (read as production / respin 0, exactly as C15_decoder_exact says); recorded as an observation, no claim
        return None
    if typ is None:
        return {"err": "ValueError"}
    return {"ok": [a["date"], typ, a["respin"] or 0]}


def reference_id(a):
    """the id the documentation describes, written independently of the model and of the code's string formatting:
    short-version[-type] [-bpshort-bpversion[-bptype] if layered] [-Client|-Server: the RHEL-5 rule] -date[.suffix].respin.
    RHEL-5 rule (the library's documented hack: 'there are 2 RHEL 5 composes -> need to add Server or Client variant to compose
    ID'): release AND base product are both short 'RHEL' with major version '5', and the alphabetically first top-level
    variant is Client or Server."""
    suffix = {"production": "", "nightly": ".n", "test": ".t", "ci": ".ci", "development": ".d"}.get(a["type"])
    if suffix is None:
        return None
    def major(v):
        return None if v is None else v.split(".")[0]
    r, b = a["release"], a["base_product"]
    out = want_prefix(a)
    if a["is_layered"]:
        out += "-" + want_prefix({"release": b})
    if r["short"] == "RHEL" and major(r["version"]) == "5" and b["short"] == "RHEL" and major(b["version"]) == "5" and a["variants"]:
        first = sorted(a["variants"])[0]
        if first in ("Client", "Server"):
            out += "-" + first
    return out + "-%s%s.%d" % (a["date"], suffix, a["respin"])


def allowed_ids(a):
    """the documented shape of a compose id, written from the property text / doc (not from the code):
    short-version[-type] [-bpshort-bpversion[-bptype]] [-Client|-Server] -date[.suffix].respin"""
    suffix = {"production": "", "nightly": ".n", "test": ".t", "ci": ".ci", "development": ".d"}.get(a["type"])
    if suffix is None:
        return None
    tail = "-%s%s.%d" % (a["date"], suffix, a["respin"])
    mids = ["-" + want_prefix({"release": a["base_product"]})] if a["is_layered"] else [""]
    return [want_prefix(a) + m + v + tail for m in mids for v in ("", "-Client", "-Server")]


def want_prefix(a):
    """short-version[-type unless ga], as the property states it"""
    r = a["release"]
    p = "%s-%s" % (r["short"], r["version"])
    if r.get("type") and lower_ascii(r["type"]) != "ga":
        p += "-" + lower_ascii(r["type"])
    return p


class C15(Prop):
    id = "C15"
    lean_module = "ProductMD.Properties.C15"
    quick_budget = 2400
    thorough_budget = 60000
    rule = ("create_decode: ids created by the real ComposeInfo.create_compose_id for every compose type x every release type (incl. "
            "upper-case spellings and None), layered and not (every base-product type), the RHEL-5 Client/Server hack with 8 variant "
            "sets, digit-heavy shorts/versions (8+ digit runs inside the version), dates incl. 00000000/99999999, respins 0..10^7-1 "
            "and >= 10^7 (known finding F10); then decoded with get_date_type_respin and validated with Compose._validate_id; "
            "decode: prefix+date+[.suffix][.respin] for every documented suffix spelling, unknown suffixes from a pool that contains "
            "the spelled-out name of every compose type, their prefixes/abbreviations and upper-case forms (round-robin; lower-case "
            "words outside the documented six must raise ValueError, also inside a legacy document), missing respin, several "
            "8-digit runs, 9+ digit runs, Unicode digits, line feeds; legacy: composeinfo documents of version 0.0/0.1/0.2 (date, type, "
            "respin only inside the id; a share also carries disagreeing date/respin/type keys) loaded with ComposeInfo.loads; boundary "
            "pools (docs/audit_C15.md): every value of SHORT/VERSION/TYPE/VARIANT/DATE/RESPIN pools once per run, the RHEL-5 literals "
            "with extensions and prefixes x 20 variant sets; the created id must EQUAL an independently written reference id; "
            "every case also through the Lean model (correspondence). "
            "non-trivial = distinct case on which the real code returned a value")
    assumptions = ["CPython `re` is modelled by the list-of-successes engine (validated differentially on every case)",
                   "str.lower() is modelled for ASCII letters only; release types are generated in ASCII",
                   "`int()` on a `\\d+` capture = positional decimal value with the generated digit table; ValueError beyond 4300 digits"]
    partial = {
        "C15_decode_create_partial": "respin < 10^7 is a hypothesis: a respin of 8 or more digits is decoded as the date "
                                     "(C15_respin_witness, known finding F10); shorts/versions/types must not contain a line feed",
        "C15_suffixes_partial": "same hypothesis on the respin (at most 7 digits)",
        "C15_unknown_suffix_partial": "same hypothesis on the respin (at most 7 digits)",
    }

    def __init__(self):
        self._t = None
        self._f10_left = 0

    def tables(self):
        if self._t is None:
            self._t = generated()["tables"]
        return self._t

    # ------------------------------------------------------------------ generators
    def gen_create(self, rng, i):
        t = self.tables()
        ctypes = list(t["COMPOSE_TYPES"])
        rtypes = list(t["RELEASE_TYPES"]) + [None, "GA", "Updates", "", "EUS"]
        layered = (i // 5) % 3 == 1
        rel = {"short": rng.choice(SHORTS), "version": rng.choice(VERSIONS), "type": rtypes[i % len(rtypes)]}
        bp = {"short": None, "version": None, "type": None}
        if layered or rng.random() < 0.15:
            bp = {"short": rng.choice(SHORTS), "version": rng.choice(VERSIONS), "type": rtypes[(i // len(rtypes)) % len(rtypes)]}
        variants = []
        k = rng.random()
        if k < 0.25:          # RHEL-5 hack: both release and base product are RHEL 5.x
            rel["short"] = "RHEL"; rel["version"] = rng.choice(["5", "5.11", "5.0"])
            bp["short"] = "RHEL"; bp["version"] = rng.choice(["5", "5.11"])
            if bp["type"] is None and layered:
                bp["type"] = "ga"
            variants = VARIANT_SETS[i % len(VARIANT_SETS)]
        elif k < 0.35:        # near misses of the hack
            rel["short"] = rng.choice(["RHEL", "rhel"]); rel["version"] = rng.choice(["5.11", "50", "6", "5"])
            bp["short"] = rng.choice(["RHEL", "f"]); bp["version"] = rng.choice(["5", "55", "4"])
            variants = VARIANT_SETS[i % len(VARIANT_SETS)]
        elif k < 0.5:
            variants = VARIANT_SETS[i % len(VARIANT_SETS)]
        if rng.random() < 0.2:
            rel["version"] = "".join(rng.choice("0123456789") for _ in range(rng.randint(8, 20)))
        if rng.random() < 0.1:
            rel["short"] = "".join(rng.choice("ab0123456789-.") for _ in range(rng.randint(1, 14)))
        date = rng.choice(["20160101", "00000000", "99999999", "19991231"]) if rng.random() < 0.3 else "%08d" % rng.randrange(10 ** 8)
        r = rng.random()
        if r < 0.2:
            respin = rng.choice([0, 1, 9, 10, 99, 10 ** 6, 10 ** 7 - 1])
        elif r < 0.3 and self._f10_left > 0:
            # the known-finding region (F10) gets a fixed small share so that it cannot crowd out the rest of the run
            self._f10_left -= 1
            respin = rng.choice([10 ** 7, 12345678, 10 ** 8 - 1, 10 ** 8, 10 ** 12 + 7])
        else:
            respin = rng.randrange(10 ** rng.randint(1, 7))
        return {"op": "create_decode", "args": {"release": rel, "is_layered": layered, "base_product": bp, "variants": variants,
                                                 "date": date, "type": ctypes[i % len(ctypes)], "respin": respin}}

    def gen_decode(self, rng, i):
        prefix = rng.choice(["f-23-", "RHEL-7.2-", "", "x", "20151231-", "a-123456789-", "Supp-1.0-RHEL-5-Server-", "f-23-20150101.n.3-", "99-",
                             "f-23-2015010", "1234567"])
        date = "%08d" % rng.randrange(10 ** 8)
        k = i % 12
        if k < 7:             # every documented spelling, with and without respin
            suf = DOCUMENTED[k][0]
            respin = rng.randrange(10 ** rng.randint(1, 7)) if (i // 12) % 2 else None
            return {"op": "decode", "args": {"prefix": prefix, "date": date, "suffix": suf or None, "respin": respin}}
        if k == 7:            # unknown suffix: round-robin over the whole pool, so every full type name is decoded in every run
            pool = unknown_pool(self.tables()["COMPOSE_TYPES"])
            suf = pool[(i // 12) % len(pool)]
            return {"op": "decode", "args": {"prefix": prefix, "date": date, "suffix": suf, "respin": [None, 0, 12][(i // 12 // len(pool)) % 3]}}
        if k == 8:
            s = prefix + rng.choice(["", "1", "1234567", "2016-01-01", "abc", "1234.5678"])       # usually no 8-digit run
        elif k == 9:
            s = prefix + "".join(rng.choice("0123456789.nt") for _ in range(rng.randint(6, 24)))
        elif k == 10:
            uni = "".join(chr(rng.choice([0x660, 0x966, 0xFF10]) + int(c)) for c in date)
            s = prefix + uni + rng.choice(["", ".n", ".t.3", ".\u0663"])
        else:
            j = rng.randrange(len(prefix) + 1)
            s = prefix[:j] + "\n" + prefix[j:] + date + rng.choice(["", ".n.1", "\n", ".n\n.1"])
        return {"op": "decode", "args": {"s": s}}

    def gen_legacy(self, rng, i):
        c = self.gen_create(rng, i)["args"]
        c["header_version"] = LEGACY_VERSIONS[i % len(LEGACY_VERSIONS)]
        c["stored_type"] = rng.choice(list(self.tables()["COMPOSE_TYPES"]))     # the (ignored) type field of the old document
        if c["respin"] >= 10 ** 7 and rng.random() < 0.7:
            c["respin"] = rng.randrange(10 ** 6)
        c["spelling"] = rng.choice(["short", "long"])
        if i % 3 == 1:        # an old document that ALSO carries date/respin keys, disagreeing with the id: the id is authoritative below 0.3
            c["stored_date"] = rng.choice(["19990101", "2016", "", None])
            c["stored_respin"] = rng.choice([0, 77, "3", None])
        if i % 5 == 4:        # a legacy id carrying an undocumented lower-case suffix must be refused on load
            pool = [w for w in unknown_pool(self.tables()["COMPOSE_TYPES"]) if is_lower_word(w)]
            c["unknown_suffix"] = pool[(i // 5) % len(pool)]
            if c["respin"] >= 10 ** 7:
                c["respin"] = 3
        return {"op": "legacy", "args": c}

    def pool_cases(self):
        """every boundary value of every attribute once, the others at their defaults; every enumeration value in every position"""
        t = self.tables()
        ctypes = list(t["COMPOSE_TYPES"])
        rtypes = list(t["RELEASE_TYPES"]) + TYPE_POOL_EXTRA
        n = [0]
        def mk(**kw):
            n[0] += 1
            a = {"release": dict(REL_BASE), "is_layered": False, "base_product": dict(BP_NONE), "variants": [], "date": "20160101",
                 "type": ctypes[n[0] % len(ctypes)], "respin": RESPIN_POOL[n[0] % len(RESPIN_POOL)]}
            a.update(kw)
            return {"op": "create_decode", "args": a}
        for ct in ctypes:                                   # every compose type x every boundary respin
            for r in RESPIN_POOL:
                yield mk(type=ct, respin=r)
        for v in SHORT_POOL:
            yield mk(release=dict(REL_BASE, short=v))
            yield mk(is_layered=True, base_product={"short": v, "version": "7", "type": "ga"})
        for v in VERSION_POOL:
            yield mk(release=dict(REL_BASE, version=v))
            yield mk(is_layered=True, base_product={"short": "rhel", "version": v, "type": "eus"})
        for ty in rtypes:                                   # every release type / base-product type, incl. the last table entry
            yield mk(release=dict(REL_BASE, type=ty))
            yield mk(is_layered=True, base_product={"short": "rhel", "version": "7", "type": ty})
            yield mk(release=dict(REL_BASE, type=ty), is_layered=True, base_product={"short": "rhel", "version": "7", "type": ty})
        for d in DATE_POOL:
            yield mk(date=d)
        # the literals of the RHEL-5 rule, each with an extension and a proper prefix, in every combination, layered or not
        for vs in VARIANT_POOL:
            for rs, rv, bs, bv in (("RHEL", "5", "RHEL", "5"), ("RHEL", "5.11", "RHEL", "5.0"), ("RHEL", "5.", "RHEL", "5"),
                                   ("RHE", "5", "RHEL", "5"), ("RHELS", "5", "RHEL", "5"), ("rhel", "5", "RHEL", "5"),
                                   ("RHEL", "50", "RHEL", "5"), ("RHEL", "5a", "RHEL", "5"), ("RHEL", "05", "RHEL", "5"), ("RHEL", "", "RHEL", "5"),
                                   ("RHEL", "5", "RHE", "5"), ("RHEL", "5", "RHELS", "5"), ("RHEL", "5", "rhel", "5"), ("RHEL", "5", "RHEL", "55"),
                                   ("RHEL", "5", "RHEL", "6"), ("RHEL", "6", "RHEL", "5"), ("RHEL", "5", None, None), ("f", "5", "f", "5")):
                for lay in ((False, True) if bs is not None else (False,)):
                    yield mk(release={"short": rs, "version": rv, "type": "ga"}, base_product={"short": bs, "version": bv, "type": "ga" if bs else None},
                             is_layered=lay, variants=vs)

    def cases(self, rng, tier, budget):
        self._f10_left = 24
        # boundary: F10 witness, every type with respin 0 and 10^7-1
        for ct in self.tables()["COMPOSE_TYPES"]:
            for respin in (0, 10 ** 7 - 1) + ((12345678,) if ct in ("nightly", "production") else ()):
                yield {"op": "create_decode", "args": {"release": {"short": "f", "version": "23", "type": "ga"}, "is_layered": False,
                                                        "base_product": {"short": None, "version": None, "type": None}, "variants": [],
                                                        "date": "20160101", "type": ct, "respin": respin}}
        for s in ("", "20160101", "f-23-20160101", "f-23-20160101.n", "f-23-20160101.0", "f-23-20160101.n.0", "f-23-20160101.nightly.5",
                  "f-23-20160101.test", "f-23-20160101.N.1", "f-23-20160101.n1", "f-23-20160101..1", "f-23-20160101.n..1", "201601011",
                  "f-23-20160101.n.12345678", "1234567", "f-23-20160101.t.1\n", "\n20160101",
                  # suffixes that are not lower-case letters are outside the pattern's type group: not rejected but read as
                  # production with respin 0 (recorded in the distribution as an observation; exact behaviour: C15_decoder_exact)
                  "f-23-20160101.X.1", "f-23-20160101.Nightly.2", "f-23-20160101.n1.3", "f-23-20160101.n_x.4"):
            yield {"op": "decode", "args": {"s": s}}
        for w in unknown_pool(self.tables()["COMPOSE_TYPES"]):
            if is_lower_word(w):
                yield {"op": "decode", "args": {"prefix": "f-23-", "date": "20160101", "suffix": w, "respin": 2}}
        for c in self.pool_cases():
            yield c
        for i in range(budget):
            k = i % 6          # three streams, each with its own running index (round-robin over the tables inside)
            if k in (0, 1, 2):
                yield self.gen_create(rng, (i // 6) * 3 + k)
            elif k in (3, 4):
                c = self.gen_decode(rng, (i // 6) * 2 + (k - 3))
                yield c
                if i % 24 == 3:
                    yield {"op": "purity", "args": {"fn": "get_date_type_respin", "s": decode_string(c["args"]), "sequence": PURITY_SEQUENCE}}
            else:
                yield self.gen_legacy(rng, i // 6)

    # ------------------------------------------------------------------ real side
    def build_ci(self, a):
        checklib.use_repo()
        from productmd.composeinfo import ComposeInfo, Variant
        ci = ComposeInfo()
        r, b = a["release"], a["base_product"]
        ci.release.name = "Name"; ci.release.short = r["short"]; ci.release.version = r["version"]; ci.release.type = r["type"]
        ci.release.is_layered = bool(a["is_layered"])
        ci.base_product.name = "Base"; ci.base_product.short = b["short"]; ci.base_product.version = b["version"]; ci.base_product.type = b["type"]
        for vid in a["variants"]:
            v = Variant(ci)
            v.id = v.uid = v.name = vid
            v.type = "variant"
            v.arches = set(["x86_64"])
            ci.variants.add(v)
        ci.compose.date = a["date"]; ci.compose.type = a["type"]; ci.compose.respin = a["respin"]
        return ci

    def legacy_id(self, a):
        """the id an old tool would have stored: created by the real encoder, optionally with the long suffix spelling"""
        cid = self.build_ci(a).create_compose_id()
        if a.get("unknown_suffix"):
            cut = cid.rfind("-" + a["date"])
            return cid[:cut] + "-%s.%s.%d" % (a["date"], a["unknown_suffix"], a["respin"])
        if a.get("spelling") == "long":
            for short, long_ in ((".n.", ".nightly."), (".t.", ".test.")):
                tail = a["date"] + short + str(a["respin"])
                if cid.endswith(tail):
                    cid = cid[:-len(tail)] + a["date"] + long_ + str(a["respin"])
        return cid

    def real(self, case):
        checklib.use_repo()
        import productmd.composeinfo as pci
        a = case["args"]
        if case["op"] == "decode":
            return guarded(pci.get_date_type_respin, decode_string(a))
        if case["op"] == "purity":
            return purity_probe(pci.get_date_type_respin, a["s"])
        if case["op"] == "create_decode":
            ci_obj = self.build_ci(a)
            out = {"id": guarded(ci_obj.create_compose_id), "decoded": None, "validates": None}
            out["_again"] = guarded(ci_obj.create_compose_id)          # same object, second call (B1/B2)
            if "ok" in out["id"]:
                cid = out["id"]["ok"]
                out["decoded"] = guarded(pci.get_date_type_respin, cid)
                def val():
                    c = pci.Compose(None); c.id = cid; c._validate_id(); return True
                v = guarded(val)
                out["validates"] = v.get("ok", False)
            return out
        if case["op"] == "legacy":
            cid = self.legacy_id(a)
            comp = {"id": cid, "type": a["stored_type"]}
            if "stored_date" in a:
                comp["date"] = a["stored_date"]; comp["respin"] = a["stored_respin"]
            doc = {"header": {"version": a["header_version"]},
                   "payload": {"compose": comp,
                               "product": {"name": "Name", "version": "1.0", "short": "n"}, "variants": {}}}
            def load():
                ci = pci.ComposeInfo(); ci.loads(json.dumps(doc))
                return [ci.compose.date, ci.compose.type, ci.compose.respin]
            return {"id": cid, "loaded": guarded(load)}
        raise ValueError(case["op"])

    # ------------------------------------------------------------------ model side
    def model_requests(self, case):
        a = case["args"]
        if case["op"] == "decode":
            return [{"op": "get_date_type_respin", "args": {"s": decode_string(a)}}]
        if case["op"] == "purity":
            return [{"op": "get_date_type_respin", "args": {"s": a["s"]}}]
        if case["op"] == "create_decode":
            return [{"op": "compose_id_roundtrip", "args": a}]
        if case["op"] == "legacy":
            # model of Compose.deserialize_0_3: (date, type, respin) = get_date_type_respin(id); the id itself is an input here
            return [{"op": "get_date_type_respin", "args": {"s": self.legacy_id(a)}}]
        return []

    def compare(self, case, real_out, model_out):
        if case["op"] == "purity":
            return Prop.compare(self, case, real_out["first"], model_out)
        if case["op"] == "create_decode":
            return Prop.compare(self, case, dict((k, v) for k, v in real_out.items() if not k.startswith("_")), model_out)
        if case["op"] == "legacy":
            # loading also validates the decoded fields; compare when both sides produced values
            ld = real_out["loaded"]
            if "ok" in ld and model_out != {"ok": ld["ok"]}:
                return {"real": real_out, "model": model_out}
            if "err" in ld and not (model_out == {"err": ld["err"]} or (model_out == {"ok": [None, None, None]} and ld["err"] == "TypeError")):
                return {"real": real_out, "model": model_out}
            return None
        return Prop.compare(self, case, real_out, model_out)

    # ------------------------------------------------------------------ the property itself
    def oracle(self, case, real_out):
        a = case["args"]
        if case["op"] == "purity":
            if real_out["second"] != real_out["first"]:
                return {"observed": {"function": a["fn"], "argument": a["s"], "first call": real_out["first"],
                                     "same call again (after editing the first result)": real_out["second"]},
                        "required": "a repeated call returns the same answer", "kind": "result-aliased"}
            if real_out["shared"]:
                return {"observed": {"function": a["fn"], "argument": a["s"], "two calls share a mutable object": True},
                        "required": "every call returns fresh values", "kind": "result-shared"}
            return None
        if case["op"] == "decode":
            want = decode_expect(a)
            if want is not None and real_out != want:
                return {"observed": {"id": decode_string(a), "get_date_type_respin": real_out}, "required": want,
                        "kind": "documented-suffix-not-decoded" if "ok" in want else "unknown-suffix-accepted"}
            return None
        if case["op"] == "create_decode":
            if "ok" not in real_out["id"]:
                return {"observed": real_out["id"], "required": "an id is created", "kind": "create-failed"}
            cid = real_out["id"]["ok"]
            if not cid.startswith(want_prefix(a)):
                return {"observed": {"id": cid}, "required": {"prefix": want_prefix(a)}, "kind": "prefix"}
            ok_ids = allowed_ids(a)
            if ok_ids is not None and cid not in ok_ids:
                return {"observed": {"id": cid}, "required": {"one of": ok_ids}, "kind": "id-shape"}
            ref = reference_id(a)
            if ref is not None and cid != ref:
                return {"observed": {"id": cid}, "required": {"id": ref}, "kind": "id-differs-from-documented-format"}
            if real_out.get("_again") != real_out["id"]:
                return {"observed": {"first": real_out["id"], "second call on the same object": real_out.get("_again")},
                        "required": "create_compose_id is repeatable", "kind": "create-not-repeatable"}
            if real_out["validates"] is not True:
                return {"observed": {"id": cid, "validates": real_out["validates"]}, "required": "passes Compose._validate_id", "kind": "id-not-valid"}
            want = {"ok": [a["date"], a["type"], a["respin"]]}
            if real_out["decoded"] != want:
                return {"observed": {"id": cid, "decoded": real_out["decoded"]}, "required": want, "kind": "decode-differs"}
            return None
        if case["op"] == "legacy" and a.get("unknown_suffix"):
            if real_out["loaded"] != {"err": "ValueError"}:
                return {"observed": {"id": real_out["id"], "header": a["header_version"], "loaded": real_out["loaded"]},
                        "required": {"err": "ValueError"}, "kind": "unknown-suffix-accepted"}
            return None
        if case["op"] == "legacy":
            want = {"ok": [a["date"], a["type"], a["respin"]]}
            if real_out["loaded"] != want:
                return {"observed": {"id": real_out["id"], "header": a["header_version"], "loaded": real_out["loaded"]}, "required": want,
                        "kind": "legacy-decode-differs"}
            return None

    def nontrivial(self, case, real_out):
        if case["op"] == "purity":
            return "ok" in real_out["first"]
        if case["op"] == "decode":
            return "ok" in real_out and real_out["ok"] != [None, None, None]
        if case["op"] == "legacy":
            return "ok" in real_out["loaded"]
        return "ok" in real_out["id"]

    def stats(self, case, real_out, dist):
        def inc(k):
            dist[k] = dist.get(k, 0) + 1
        op = case["op"]; a = case["args"]
        inc(op)
        if op == "purity":
            return
        if op == "decode":
            import re as _re
            mm = _re.search(r"\d{8}\.([A-Za-z_0-9]*[A-Z_][A-Za-z_0-9]*|[a-z]+[0-9_][a-z0-9_]*)\.(\d+)$", decode_string(a))
            if "suffix" in a and a["suffix"] and not is_lower_word(a["suffix"]) and dict(DOCUMENTED).get(a["suffix"]) is None and "ok" in real_out:
                inc("observation:non-lowercase suffix not rejected")
            if mm and "ok" in real_out and real_out["ok"][1:] == ["production", 0]:
                inc("observation:non-lowercase suffix read as production, respin dropped")
            inc("decode:" + ("ok" if "ok" in real_out and real_out["ok"] != [None, None, None] else "none" if "ok" in real_out else real_out["err"]))
            return
        inc("ctype:%s" % a["type"])
        inc("rtype:%s" % a["release"]["type"])
        if a["is_layered"]:
            inc("layered")
        if a["respin"] >= 10 ** 7:
            inc("respin>=10^7")
        if op == "create_decode" and "ok" in real_out["id"] and (real_out["id"]["ok"].count("-Client-") or real_out["id"]["ok"].count("-Server-")):
            inc("rhel5_variant_in_id")
        import re
        if re.search(r"\d{8}", a["release"]["version"] or ""):
            inc("version_has_8_digit_run")
        if op == "legacy":
            inc("legacy:" + a["header_version"])

    def shrink_candidates(self, case):
        a = case["args"]
        out = []
        def mk(**kw):
            c = json.loads(json.dumps(case)); c["args"].update(kw); return c
        if case["op"] == "purity":
            return out
        if case["op"] == "decode":
            if "s" in a:
                return out
            if a["prefix"] not in ("", "f-23-"):
                out.append(mk(prefix="")); out.append(mk(prefix="f-23-"))
            if a["respin"]:
                out.append(mk(respin=None)); out.append(mk(respin=0)); out.append(mk(respin=1))
            if a["date"] != "20160101":
                out.append(mk(date="20160101"))
            return [c for c in out if c != case]
        if a["variants"]:
            out.append(mk(variants=[]))
        if a["is_layered"]:
            out.append(mk(is_layered=False))
        if a["base_product"]["short"] is not None:
            out.append(mk(base_product={"short": None, "version": None, "type": None}))
        if a["release"] != {"short": "f", "version": "23", "type": "ga"}:
            out.append(mk(release={"short": "f", "version": "23", "type": "ga"}))
            out.append(mk(release=dict(a["release"], short="f")))
            out.append(mk(release=dict(a["release"], version="23")))
            out.append(mk(release=dict(a["release"], type="ga")))
        if a["date"] != "20160101":
            out.append(mk(date="20160101"))
        if a["respin"] not in (0, 12345678):
            out.append(mk(respin=0))
            if a["respin"] >= 10 ** 7:
                out.append(mk(respin=12345678))
        if case["op"] == "legacy" and a.get("spelling") == "long":
            out.append(mk(spelling="short"))
        return out


PROP = C15()

MANIFEST = dict(
    technique="Lean 4 proof about the first success of the greedy backtracking matcher on the regenerated get_date_type_respin pattern "
              "(the last 8-digit window wins; optional groups present-first) composed with the model of create_compose_id; decide on the "
              "regenerated encoder/decoder tables; correspondence of create/decode/validate with the real code; oracle on created ids, "
              "documented suffixes and legacy (pre-0.3) documents",
    text="Theorem C15_decode_create_partial: for every release/base-product short, version and type without line feed (any digit runs), "
         "layered or not, with or without the RHEL-5 variant part, every compose type of the regenerated table, every date of 8 digits and "
         "every respin < 10^7, getDateTypeRespin (createComposeId ..) = (date, type, respin); C15_prefix, C15_validates for the same ids; "
         "C15_tables (decide): decoder o encoder = id on COMPOSE_TYPES; C15_suffixes: every documented spelling decodes, missing "
         "respin = 0, unknown suffix = ValueError. C15_decoder_exact: on EVERY string the regex-driven decoder equals a directly "
         "written one (last run of 8 digits starting in the first line, longest .letters, longest .digits).",
    note="respin >= 10^7 is decoded as the date (C15_respin_witness; known finding F10). str.lower() is modelled for ASCII only.",
    ref="7/C15")
