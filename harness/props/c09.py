"""C09 - image identity is unique within a manifest."""
import copy, json
import checklib
from checklib import Prop
from formats import images as F

VERSIONS = ["1.0", "1.1", "1.2", "0.0", "2.0", "1.1", "1.2"]

# one (base value, other value) per identity attribute; the base image is a valid docker/tar.gz image
ATTR_VARIANTS = {
    "subvariant": ("Server", "KDE"),
    "type": ("docker", "tar-gz"),                 # both go with format tar.gz
    "format": ("tar.gz", "tar.xz"),               # both go with type docker
    "arch": ("x86_64", "i386"),
    "disc_number": (1, 2),
    "unified": (False, True),
    "additional_variants": ([], ["Client"]),      # base made unified for this one
}


def base_image(rng, n=0):
    return {"path": "Server/x86_64/images/base%d.tar.gz" % n, "mtime": rng.choice(F.MTIMES), "size": rng.choice(F.BIG_SIZES + [1]),
            "volume_id": rng.choice([None, "vol"]), "type": "docker", "format": "tar.gz", "arch": "x86_64", "disc_number": 1, "disc_count": 2,
            "checksums": {"md5": "%032x" % rng.getrandbits(128), "sha256": "%064x" % rng.getrandbits(256)},
            "implant_md5": rng.choice([None, "%032x" % rng.getrandbits(128)]), "bootable": rng.random() < 0.5,
            "subvariant": "Server", "unified": False, "additional_variants": []}


def gen_pool(rng, attr):
    """six image objects around one identity attribute:
       0 B       base
       1 B'      differs from B ONLY in `attr` (and path), different checksums      -> never a collision with B
       2 B_eq    identity of B, equal checksums, other path                         -> allowed next to B
       3 B_md5   identity of B, md5 differs, sha256 equal                           -> collision with B
       4 B_all   identity of B, every checksum differs                              -> collision with B
       5 B'_x    identity of B', different checksums                                -> collision with B'"""
    b = base_image(rng)
    if attr == "additional_variants":
        b["unified"] = True
    b[attr] = copy.deepcopy(ATTR_VARIANTS[attr][0])
    def der(i, **kw):
        x = copy.deepcopy(b); x["path"] = "p/%d-%s" % (i, b["path"]); x.update(copy.deepcopy(kw)); return x
    other = {"md5": "%032x" % rng.getrandbits(128), "sha256": "%064x" % rng.getrandbits(256)}
    bp = der(1, checksums=other); bp[attr] = copy.deepcopy(ATTR_VARIANTS[attr][1])
    beq = der(2, bootable=not b["bootable"])
    bmd5 = der(3, checksums={"md5": "%032x" % rng.getrandbits(128), "sha256": b["checksums"]["sha256"]})
    ball = der(4, checksums={"md5": "%032x" % rng.getrandbits(128), "sha256": "%064x" % rng.getrandbits(256)})
    bpx = copy.deepcopy(bp); bpx["path"] = "p/5-" + b["path"]; bpx["checksums"] = {"sha1": "%040x" % rng.getrandbits(160)}
    return [b, bp, beq, bmd5, ball, bpx]


class C09(Prop):
    id = "C09"
    lean_module = "ProductMD.Properties.C09"
    quick_budget = 700
    thorough_budget = 20000
    rule = ("histories of 1-12 Images.add calls (refused ones included) from a pool of 6 image objects built around one identity attribute "
            "(each of the 7 attributes is the ONLY difference for some pair; equal checksums, md5-only difference, all-different), same / "
            "different variants and arches incl. src/nosrc/unknown arches, the same object filed repeatedly, header 0.0/1.0/1.1/1.2/2.0: "
            "result and Images.images after EVERY step, real vs model, and the Uniq / refusal / no-spurious-refusal oracle written "
            "independently of identify_image; documents (1.0/1.1/1.2/2.0) with and without injected collisions through loads; "
            "identify_image(object) vs identify_image(serialised dict) vs the spec tuple; non-trivial = history with >= 1 accepted add")
    assumptions = ["image objects are not mutated after they were filed (add_checksum / attribute assignment are outside the quantifier)",
                   "values compared by == are str/int/bool/None/list/dict of those (no floats: 1 == 1.0 is outside the model)"]
    partial = {}

    # ------------------------------------------------------------------ cases
    def cases(self, rng, tier, budget):
        t = F.tables()
        attrs = list(ATTR_VARIANTS)
        n_hist = int(budget * 0.6)
        for n in range(n_hist):
            attr = attrs[n % len(attrs)]
            pool = gen_pool(rng, attr)
            variants = rng.sample(F.VARIANTS, 2)
            arches = rng.sample(t["arches"], 2) + ["x86_64"]
            ops = []
            for _ in range(rng.randint(1, 12)):
                r = rng.random()
                arch = rng.choice(arches) if r < 0.88 else rng.choice(["src", "nosrc", "x86-64", "", "SRC", "noarch"])
                if ops and rng.random() < 0.12:
                    ops.append(list(rng.choice(ops)))           # the very same call again
                else:
                    ops.append([rng.choice(variants), arch, rng.randrange(len(pool))])
            yield {"op": "history", "args": {"version": VERSIONS[n % len(VERSIONS)], "pool": pool, "ops": ops}}
        for n in range(int(budget * 0.25)):
            ver = ["1.2", "1.1", "1.0", "2.0"][n % 4]
            spec = F.gen(rng, tier, version=ver, max_variants=2, max_arches=2, max_cell=3)
            doc = F.doc_of_spec(spec, ver, keep_defaults=rng.random() < 0.3)
            cells = [(v, a) for v, d in doc["payload"]["images"].items() for a, c in d.items() if c]
            if cells and rng.random() < 0.75:
                v, a = rng.choice(cells)
                src = copy.deepcopy(rng.choice(doc["payload"]["images"][v][a]))
                src["path"] = "injected/" + src["path"]
                mode = rng.choice(["md5", "all", "equal", "other-identity"])
                if mode == "md5":
                    src["checksums"] = dict(src["checksums"], md5="%032x" % rng.getrandbits(128)) if "md5" in src["checksums"] else dict(src["checksums"], md5="0" * 32)
                elif mode == "all":
                    src["checksums"] = {"sha256": "%064x" % rng.getrandbits(256)}
                elif mode == "other-identity":
                    src["checksums"] = {"sha256": "%064x" % rng.getrandbits(256)}; src["disc_number"] = src["disc_number"] + 1000
                v2 = rng.choice([v, v, "Other"]); a2 = rng.choice([a, a, "s390x"])
                doc["payload"]["images"].setdefault(v2, {}).setdefault(a2, []).append(src)
            if ver in ("1.0", "1.1") and cells and rng.random() < 0.3:
                v, a = rng.choice(cells)
                doc["payload"]["images"][v]["src"] = [dict(copy.deepcopy(doc["payload"]["images"][v][a][0]), path="src/x.iso", arch="src", disc_number=7777)]
            if ver == "1.0" and rng.random() < 0.5:
                for v, d in doc["payload"]["images"].items():
                    for a, c in d.items():
                        for r in c:
                            r.pop("subvariant", None)
            yield {"op": "load", "args": {"doc": doc}}
        for n in range(budget - n_hist - int(budget * 0.25)):
            img = F.gen_image(rng, n)
            r = rng.random()
            if r < 0.2:
                img["unified"] = True; img["additional_variants"] = []
            elif r < 0.3:
                img["unified"] = True; img["additional_variants"] = ["B", "A"]
            yield {"op": "identify", "args": {"image": img}}

    # ------------------------------------------------------------------ real side
    def real(self, case):
        im = F.lib()
        a = case["args"]
        if case["op"] == "history":
            m = im.Images()
            m.header.version = a["version"]
            objs = [F.new_image(im, m, attrs) for attrs in a["pool"]]
            idx_of = dict((id(o), i) for i, o in enumerate(objs))
            steps = []
            for v, arch, idx in a["ops"]:
                try:
                    m.add(v, arch, objs[idx]); res = "ok"
                except Exception as e:
                    res = checklib.err_class(e)
                cells = dict((vv, dict((aa, sorted(idx_of[id(o)] for o in cell)) for aa, cell in d.items())) for vv, d in m.images.items())
                foreign = [F.record(o) for d in m.images.values() for cell in d.values() for o in cell if id(o) not in idx_of]
                steps.append({"res": res, "cells": cells, "records_ok": not foreign and all(
                    F.record(o) == a["pool"][idx_of[id(o)]] for d in m.images.values() for cell in d.values() for o in cell)})
            return {"steps": steps}
        if case["op"] == "load":
            m = im.Images()
            try:
                m.loads(json.dumps(a["doc"]))
            except Exception as e:
                return checklib.err_class(e)
            return {"ok": F.snap(m)}
        if case["op"] == "identify":
            obj = F.new_image(im, im.Images(), a["image"])
            out = {}
            try:
                out["obj"] = list(im.identify_image(obj))
            except Exception as e:
                out["obj"] = checklib.err_class(e)
            try:
                lst = []; obj.serialize(lst); out["dict"] = lst[0]
                out["of_dict"] = list(im.identify_image(lst[0]))
            except Exception as e:
                out["of_dict"] = checklib.err_class(e)
            return out

    # ------------------------------------------------------------------ model side
    def model_requests(self, case):
        a = case["args"]
        if case["op"] == "history":
            return [{"op": "images_history", "args": {"version": a["version"], "compose": {}, "ops": [
                {"variant": v, "arch": arch, "id": idx, "image": F.enc(a["pool"][idx])} for v, arch, idx in a["ops"]]}}]
        if case["op"] == "load":
            return [{"op": "images_loads", "args": {"doc": F.enc(a["doc"])}}]
        if case["op"] == "identify":
            d = dict((k, v) for k, v in a["image"].items() if k not in ("unified", "additional_variants") or a["image"].get("unified"))
            return [{"op": "images_identify", "args": {"image": F.enc(a["image"])}}, {"op": "images_identify", "args": {"dict": F.enc(d)}}]

    def model_result(self, case, outs):
        if case["op"] == "history":
            return {"steps": [{"res": s["res"], "cells": dict((v, dict((a, sorted(i for i, _ in cell)) for a, cell in archs)) for v, archs in s["state"])}
                              for s in outs[0]]}
        if case["op"] == "load":
            o = outs[0]
            return {"ok": F.snap_of_model_state(o["ok"])} if "ok" in o else o
        if case["op"] == "identify":
            return {"obj": F.dec(outs[0]), "of_dict": F.dec(outs[1])}

    def compare(self, case, real_out, model_out):
        if case["op"] == "history":
            r = {"steps": [{"res": s["res"], "cells": s["cells"]} for s in real_out["steps"]]}
            return None if checklib.canon(r) == checklib.canon(model_out) else {"real": r, "model": model_out}
        if case["op"] == "load":
            return None if checklib.canon(real_out) == checklib.canon(model_out) else {"real": real_out, "model": model_out}
        if case["op"] == "identify":
            r = {"obj": real_out.get("obj"), "of_dict": real_out.get("of_dict")}
            return None if checklib.canon(r) == checklib.canon(model_out) else {"real": r, "model": model_out}

    # ------------------------------------------------------------------ the property itself, on the real output
    def oracle(self, case, real_out):
        a = case["args"]
        t = F.tables()
        if case["op"] == "history":
            vp = F.version_pair(a["version"])
            enforce = vp is not None and vp >= (1, 1)
            prev = {}
            for k, ((v, arch, idx), st) in enumerate(zip(a["ops"], real_out["steps"])):
                filed = sorted(set(i for d in prev.values() for c in d.values() for i in c))
                new = a["pool"][idx]
                collide = [i for i in filed if F.identity7(a["pool"][i]) == F.identity7(new) and a["pool"][i]["checksums"] != new["checksums"]]
                arch_ok = arch in t["all_arches"] and arch not in ("src", "nosrc")
                must_refuse = (not arch_ok) or (enforce and bool(collide))
                ctx = {"step": k, "call": [v, arch, idx], "version": a["version"], "result": st["res"], "cells_before": prev, "cells_after": st["cells"],
                       "colliding_with": collide}
                if not st["records_ok"]:
                    return {"kind": "attributes-changed", "observed": ctx, "required": "add does not alter filed images"}
                if must_refuse:
                    if st["res"] != {"err": "ValueError"}:
                        return {"kind": "missing-refusal", "observed": ctx,
                                "required": "ValueError (%s)" % ("arch not admissible" if not arch_ok else "same identity, different checksums, format >= 1.1")}
                    if st["cells"] != prev:
                        return {"kind": "refusal-changed-state", "observed": ctx, "required": "a refused add leaves the manifest as it was"}
                else:
                    if st["res"] != "ok":
                        return {"kind": "spurious-refusal", "observed": ctx, "required": "accepted: admissible arch and no identity collision with different checksums"}
                    want = copy.deepcopy(prev); c = want.setdefault(v, {}).setdefault(arch, [])
                    if idx not in c:
                        c.append(idx); c.sort()
                    if st["cells"] != want:
                        return {"kind": "wrong-filing", "observed": ctx, "required": {"cells_after": want}}
                if enforce:
                    now = sorted(set(i for d in st["cells"].values() for c in d.values() for i in c))
                    bad = F.uniq_violations([a["pool"][i] for i in now])
                    if bad:
                        return {"kind": "uniq-broken", "observed": dict(ctx, pairs=bad),
                                "required": "no two filed images agree on the identity tuple and differ in checksums"}
                prev = st["cells"]
            return None
        if case["op"] == "load":
            doc = a["doc"]
            vp = F.version_pair(doc["header"]["version"])
            recs = [r for r in F.doc_records(doc)]
            # images under a `src` key of a <= 1.1 document are re-filed (or dropped): leave them out of the claim
            if vp <= (1, 1):
                recs = [r for v, d in doc["payload"]["images"].items() for aa, c in d.items() if aa != "src" for r in
                        [dict(x, **{"format": x.get("format", "iso"), "subvariant": x.get("subvariant", "")}) for x in c]]
            bad = F.uniq_violations(recs)
            if vp >= (1, 1):
                if bad and "ok" in real_out:
                    return {"kind": "collision-loaded", "observed": {"loaded": True, "pairs": bad, "version": doc["header"]["version"]},
                            "required": "a document of format >= 1.1 containing two images of equal identity and different checksums is rejected"}
                if "ok" in real_out:
                    loaded = [r for d in real_out["ok"]["images"].values() for c in d.values() for r in c]
                    if F.uniq_violations(loaded):
                        return {"kind": "uniq-broken", "observed": {"pairs": F.uniq_violations(loaded)}, "required": "loaded manifest unique"}
                if not bad and "err" in real_out:
                    return {"kind": "spurious-rejection", "observed": dict(real_out, version=doc["header"]["version"]),
                            "required": "a valid document without identity collision loads"}
            return None
        if case["op"] == "identify":
            want = list(F.identity7(a["image"]))
            if real_out.get("obj") != want:
                return {"kind": "identity-tuple", "observed": {"identify_image(obj)": real_out.get("obj")}, "required": {"identity": want}}
            if "dict" in real_out and real_out.get("of_dict") != real_out.get("obj"):
                return {"kind": "identity-obj-vs-dict", "observed": {"identify_image(obj)": real_out.get("obj"), "identify_image(dict)": real_out.get("of_dict"),
                                                                    "dict": real_out.get("dict")},
                        "required": "identify_image(Image) == identify_image(its serialised dict)"}
            return None

    def nontrivial(self, case, real_out):
        if case["op"] == "history":
            return any(s["res"] == "ok" for s in real_out["steps"])
        return True

    def stats(self, case, real_out, dist):
        def inc(k, n=1):
            dist[k] = dist.get(k, 0) + n
        inc(case["op"])
        if case["op"] == "history":
            inc("history.version:" + case["args"]["version"])
            inc("history.steps", len(real_out["steps"]))
            for s in real_out["steps"]:
                inc("history.res:" + ("ok" if s["res"] == "ok" else s["res"]["err"]))
        elif case["op"] == "load":
            inc("load.%s:%s" % (case["args"]["doc"]["header"]["version"], "ok" if "ok" in real_out else real_out["err"]))

    def shrink_candidates(self, case):
        a = case["args"]
        out = []
        if case["op"] == "history":
            for i in range(len(a["ops"])):
                c = copy.deepcopy(case); del c["args"]["ops"][i]
                if c["args"]["ops"]:
                    out.append(c)
        elif case["op"] == "load":
            imgs = a["doc"]["payload"]["images"]
            for v in list(imgs):
                for aa in list(imgs[v]):
                    for i in range(len(imgs[v][aa])):
                        c = copy.deepcopy(case); del c["args"]["doc"]["payload"]["images"][v][aa][i]
                        out.append(c)
        return out


PROP = C09()

MANIFEST = dict(
    technique="Lean 4 proof over an executable model of Images.add that RUNS THE STATEMENT LIST READ FROM THE SOURCE (tools/gen_images.py) with the generated identity tuple and version gate: invariant by induction over unbounded histories and over the loops of the reader; refusal-changes-nothing from the order of effects; differential check of every step against the real library + Uniq oracle written independently of identify_image",
    text="C09_tuple (decide): the code's identity tuple is the documented seven attributes. C09_script (decide on the regenerated statement list): nothing that can raise follows the insertion, the insertion follows the scan. C09_step / C09_reachable / C09_reachable_from: for any header version on which the generated gate (>= 1.1) is on, any history of adds of any length keeps Uniq. C09_refusal: a raising add returns the identical state (any version); C09_refusal_class: it is ValueError; C09_accepts: no spurious refusal. C09_load: every manifest deserialised from a >= 1.1 document is Uniq; C09_load_rejects: a document of any enforcing version (1.1 with its src re-filing included; entries under a src key of a <= 1.1 document excepted, they are re-filed or dropped) containing a colliding pair is rejected. C09_identity: identify(object) = identify(serialised dict) for every image that validates. C09_below_witness: under 0.0 / 1.0 a colliding pair is accepted (F11).",
    note="Mutating an Image after it was filed is outside the property's quantifier (histories of add calls / loaded files).",
    ref="7/C09")
