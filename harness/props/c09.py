"""C09 - image identity is unique within a manifest."""
import copy, json, re
import checklib
from checklib import Prop
from formats import images as F

VERSIONS = ["1.0", "1.1", "1.2", "0.0", "2.0", "1.1", "1.2"]

# one (base value, other value) per identity attribute; the base image is a valid docker/tar.gz image
ATTR_VARIANTS = {
    "subvariant": ("Server", "KDE"),
    "type": ("docker", "tar-gz"),                 # both go with format tar.gz
    "format": ("tar.gz", "tar.xz"),               # both go with type docker
    "arch": ("x86_64", "i386"),
    "disc_number": (1, 2),
    "unified": (False, True),
    "additional_variants": ([], ["Client"]),      # base made unified for this one
}


# generator audit: further (base, other) pairs per identity attribute, used round-robin.  Whether a pair is the same identity is
# decided by the oracle from the data (identity7 with Python ==), e.g. True == 1, None/0 count as unified False, None as [].
ATTR_VARIANTS_X = [
    ("subvariant", "KDE", "kde"), ("subvariant", "", " "), ("subvariant", "Server", "Server "), ("subvariant", u"\u0663", u"\uff17"), ("subvariant", "None", "null"),
    ("type", "dvd", "dvd-ostree"), ("type", "live", "live-osbuild"), ("type", "qcow", "qcow2"), ("type", "vagrant-virtualbox", "vagrant-vmware-fusion"),
    ("format", "erofs", "erofs.gz"), ("format", "squashfs", "squashfs.xz"), ("format", "vhd.gz", "vhd.xz"), ("format", "raw", "raw.xz"),
    ("arch", "ppc", "ppc64"), ("arch", "ppc64", "ppc64le"), ("arch", "src", "nosrc"), ("arch", "x86_64", "X86_64"), ("arch", "noarch", "noarch "),
    ("disc_number", 1, 10), ("disc_number", 0, -1), ("disc_number", 1, True), ("disc_number", 0, False), ("disc_number", 2 ** 53, 2 ** 53 + 1),
    ("unified", False, None), ("unified", False, 0), ("unified", True, 1), ("unified", False, ""),
    ("additional_variants", ["A", "B"], ["B", "A"]), ("additional_variants", [], None), ("additional_variants", ["A"], ["A", "A"]),
    ("additional_variants", ["a"], ["A"]), ("additional_variants", [], ()),
]


def base_image(rng, n=0):
    return {"path": "Server/x86_64/images/base%d.tar.gz" % n, "mtime": rng.choice(F.MTIMES), "size": rng.choice(F.BIG_SIZES + [1]),
            "volume_id": rng.choice([None, "vol"]), "type": "docker", "format": "tar.gz", "arch": "x86_64", "disc_number": 1, "disc_count": 2,
            "checksums": {"md5": "%032x" % rng.getrandbits(128), "sha256": "%064x" % rng.getrandbits(256)},
            "implant_md5": rng.choice([None, "%032x" % rng.getrandbits(128)]), "bootable": rng.random() < 0.5,
            "subvariant": "Server", "unified": False, "additional_variants": []}


def gen_pool(rng, attr, pair=None):
    """six image objects around one identity attribute:
       0 B       base
       1 B'      differs from B ONLY in `attr` (and path), different checksums      -> never a collision with B
       2 B_eq    identity of B, equal checksums, other path                         -> allowed next to B
       3 B_md5   identity of B, md5 differs, sha256 equal                           -> collision with B
       4 B_all   identity of B, every checksum differs                              -> collision with B
       5 B'_x    identity of B', different checksums                                -> collision with B'"""
    b = base_image(rng)
    if attr == "additional_variants":
        b["unified"] = True
    lo, hi = pair if pair is not None else ATTR_VARIANTS[attr]
    lo = [] if lo == () else lo
    hi = [] if hi == () else hi
    b[attr] = copy.deepcopy(lo)
    def der(i, **kw):
        x = copy.deepcopy(b); x["path"] = "p/%d-%s" % (i, b["path"]); x.update(copy.deepcopy(kw)); return x
    other = {"md5": "%032x" % rng.getrandbits(128), "sha256": "%064x" % rng.getrandbits(256)}
    bp = der(1, checksums=other); bp[attr] = copy.deepcopy(hi)
    beq = der(2, bootable=not b["bootable"])
    if rng.random() < 0.5:                                 # equal checksums entered in another key order
        beq["checksums"] = dict(reversed(list(b["checksums"].items())))
    bmd5 = der(3, checksums={"md5": "%032x" % rng.getrandbits(128), "sha256": b["checksums"]["sha256"]})
    ball = der(4, checksums={"md5": "%032x" % rng.getrandbits(128), "sha256": "%064x" % rng.getrandbits(256)})
    bpx = copy.deepcopy(bp); bpx["path"] = "p/5-" + b["path"]; bpx["checksums"] = {"sha1": "%040x" % rng.getrandbits(160)}
    if rng.random() < 0.3:                                 # algorithm name differing only in case: different checksums
        ball["checksums"] = {"MD5": b["checksums"]["md5"], "sha256": b["checksums"]["sha256"]}
    return [b, bp, beq, bmd5, ball, bpx]


FAIL_KINDS = ["collision-mid", "malformed-key", "malformed-value", "malformed-validate", "malformed-notdict", "header-type", "header-notype",
              "header-version", "header-missing", "old-collision-ok", "old-collision-then-malformed", "old-malformed-only", "compose-key",
              "compose-invalid", "payload-missing", "images-missing", "arch-bogus", "arch-src", "src-refile-partial", "images-shape"]


def failing_doc(rng, t, kind, pool, variants, arches):
    """a document that loads refuses (or, for old-collision-ok, accepts although it holds a collision), built from the pool:
    pool[0] B, pool[1] B' (other identity), pool[3]/pool[4] collide with B, pool[5] collides with B'"""
    def rec(i):
        r = copy.deepcopy(pool[i])
        if not r.get("unified"):
            r.pop("unified", None); r.pop("additional_variants", None)
        return r
    v0, v1 = variants
    a0, a1 = arches
    comp = F.gen_compose(rng, t)
    comp = dict((k, comp[k]) for k in ("id", "type", "date", "respin"))
    ver = rng.choice(["1.1", "1.2", "2.0"])
    doc = {"header": {"type": "productmd.images", "version": ver}, "payload": {"compose": comp, "images": {}}}
    images = doc["payload"]["images"]
    first = [rec(1)] if rng.random() < 0.7 else []
    if kind == "collision-mid":
        # variants and arches are read in key order (the text is written with sorted keys): B', B, then the colliding one, then more
        images[v0] = {a0: first + [rec(0)], a1: [rec(rng.choice([3, 4])), rec(2)]}
        if rng.random() < 0.5:
            images[v1] = {a0: [rec(2)]}
    elif kind.startswith("malformed-"):
        bad = rec(2)
        if kind == "malformed-key":
            bad.pop(rng.choice(["path", "mtime", "size", "volume_id", "type", "arch", "disc_number", "disc_count", "checksums", "implant_md5", "bootable", "subvariant"]))
        elif kind == "malformed-value":
            bad[rng.choice(["mtime", "size", "disc_number", "disc_count"])] = rng.choice(["abc", None, "", [], "1.5"])
        elif kind == "malformed-validate":
            f = rng.choice(["format", "type", "arch", "path", "implant_md5", "checksums", "subvariant"])
            bad[f] = {"format": "nope", "type": "nope", "arch": "nope", "path": "/abs/x.iso", "implant_md5": "zz", "checksums": {}, "subvariant": 7}[f]
        else:
            bad = rng.choice(["image", 7, None, ["path"]])
        images[v0] = {a0: first + [rec(0), bad, rec(2)]}
        if rng.random() < 0.5:
            images[v1] = {a1: [rec(2)]}
        if rng.random() < 0.3:
            doc["header"]["version"] = "1.0"
    elif kind == "header-type":
        doc["header"]["type"] = rng.choice(["productmd.rpms", "productmd.composeinfo", "", None, 1])
        images[v0] = {a0: [rec(0)]}
    elif kind == "header-notype":
        del doc["header"]["type"]
        images[v0] = {a0: [rec(0)]}
    elif kind == "header-version":
        doc["header"]["version"] = rng.choice(["abc", "1", "1.2.3", 12, None, "", "1.x", " 1.2", "v1.2"])
        if rng.random() < 0.5:
            del doc["header"]["version"]
        images[v0] = {a0: [rec(0)]}
    elif kind == "header-missing":
        del doc["header"]
        images[v0] = {a0: [rec(0)]}
    elif kind in ("old-collision-ok", "old-collision-then-malformed", "old-malformed-only"):
        doc["header"]["version"] = "1.0"
        if rng.random() < 0.5:
            del doc["header"]["type"]
        cell = [] if kind == "old-malformed-only" else [rec(0), rec(4)]
        if kind != "old-collision-ok":
            bad = rec(2); bad.pop("path")
            cell.append(bad)
        images[v0] = {a0: cell}
    elif kind == "compose-key":
        del comp[rng.choice(["id", "type", "date", "respin"])]
        images[v0] = {a0: [rec(0)]}
    elif kind == "compose-invalid":
        f = rng.choice(["id", "type", "date", "respin", "label"])
        comp[f] = {"id": "not an id", "type": "nope", "date": "2013", "respin": "x", "label": "nope"}[f]
        images[v0] = {a0: [rec(0)]}
    elif kind == "payload-missing":
        del doc["payload"]
    elif kind == "images-missing":
        del doc["payload"]["images"]
    elif kind == "arch-bogus":
        images[v0] = {"aarch64": first + [rec(0)], "bogus": [rec(2)], "x86_64": [rec(2)]}
    elif kind == "arch-src":
        images[v0] = {a0: first + [rec(0)], rng.choice(["src", "nosrc"]): [rec(2)]}
        doc["header"]["version"] = rng.choice(["1.2", "2.0", "1.1"]) if rng.random() < 0.7 else "1.0"
    elif kind == "src-refile-partial":
        # <= 1.1: an entry under src is re-filed under the variant's other arches, in key order: aarch64 takes it, "bogus" raises
        doc["header"]["version"] = rng.choice(["1.1", "1.0"])
        images[v0] = {"aarch64": [rec(1)], "bogus": [], "src": [dict(rec(0), arch="src")], "x86_64": []}
    elif kind == "images-shape":
        shape = rng.randrange(4)
        if shape == 0:
            doc["payload"]["images"] = [v0]
        elif shape == 1:
            images[v0] = {a0: first + [rec(0)]}; images[v1] = [a0]
        elif shape == 2:
            images[v0] = {a0: first + [rec(0)]}; images[v1] = {a0: 7}
        else:
            images[v0] = {a0: first + [rec(0)]}; images[v1] = None
    return doc


class C09(Prop):
    id = "C09"
    lean_module = "ProductMD.Properties.C09"
    quick_budget = 700
    thorough_budget = 20000
    rule = ("histories of 1-12 Images.add calls (refused ones included) from a pool of 6 image objects built around one identity attribute "
            "(each of the 7 attributes is the ONLY difference for some pair; equal checksums, md5-only difference, all-different), same / "
            "different variants and arches incl. src/nosrc/unknown arches, the same object filed repeatedly, header 0.0/1.0/1.1/1.2/2.0: "
            "result and Images.images after EVERY step, real vs model, and the Uniq / refusal / no-spurious-refusal oracle written "
            "independently of identify_image; GATE-CROSSING histories on one object (add / dumps / header.version assignment / loads into the "
            "same object, header and images after every step): an add at a header >= 1.1 must be refused against ANY image present, a step at "
            "an enforcing version creates no new colliding pair; "
            "histories that CONTINUE after a refused loads into the object in use (collision in the middle of a document, malformed image after "
            "valid ones, wrong / missing header type or version, broken compose section, bogus / src arch, src re-filing that raises half way, "
            "a < 1.1 document with a collision then a malformed entry): header, compose fields, and images (partial content) after EVERY step, "
            "real vs model, nothing lost, no new pair under a >= 1.1 document header, unique final state when every step was enforced; "
            "documents (1.0/1.1/1.2/2.0) with and without injected collisions through loads; "
            "identify_image(object) vs identify_image(serialised dict) vs the spec tuple; non-trivial = history with >= 1 accepted add")
    assumptions = ["a text that json.load refuses (loads raises before deserialize runs, object untouched) is outside the model; documents are read with sorted keys",
                   "image objects are not mutated after they were filed (add_checksum / attribute assignment are outside the quantifier)",
                   "values compared by == are str/int/bool/None/list/dict of those (no floats: 1 == 1.0 is outside the model)"]
    partial = {}

    # ------------------------------------------------------------------ cases
    def cases(self, rng, tier, budget):
        t = F.tables()
        attrs = list(ATTR_VARIANTS)
        n_hist = int(budget * 0.35)
        bogus = ["src", "nosrc", "x86-64", "", "SRC", "srcx", "sr", "nosr", "no", "nosrcs", " src", "x86_64 ", "ppc6", "ppc64lee", "noarch", "NOARCH", u"\u0663"]
        for n in range(n_hist):
            attr = attrs[n % len(attrs)]
            if n % 2:
                xa, lo, hi = ATTR_VARIANTS_X[(n // 2) % len(ATTR_VARIANTS_X)]
                attr = xa
                pool = gen_pool(rng, xa, (lo, hi))
            else:
                pool = gen_pool(rng, attr)
            variants = rng.sample(F.VARIANTS, 2)
            arches = rng.sample(t["arches"], 2) + ["x86_64"]
            ops = []
            for _ in range(rng.randint(1, 12)):
                r = rng.random()
                arch = rng.choice(arches) if r < 0.88 else F.rr(bogus)
                if ops and rng.random() < 0.12:
                    ops.append(list(rng.choice(ops)))           # the very same call again
                else:
                    ops.append([rng.choice(variants), arch, rng.randrange(len(pool))])
            ver = VERSIONS[n % len(VERSIONS)] if n % 6 else F.rr(F.W_VERSIONS)
            yield {"op": "history", "args": {"version": ver, "pool": pool, "ops": ops}}
        # histories that CROSS the version gate on one object: add / dumps (sets the header to the current version) /
        # header.version assignment / loads into the same object
        for n in range(int(budget * 0.15)):
            attr = attrs[n % len(attrs)]
            pool = gen_pool(rng, attr)
            variants = rng.sample(F.VARIANTS, 2)
            arches = rng.sample(t["arches"], 2)
            compose = F.gen_compose(rng, t) if rng.random() < 0.7 else {}      # {}: dumps raises, AFTER the header was set

            def one_doc(ver, idxs):
                spec = {"version": ver, "compose": F.gen_compose(rng, t), "pool": [copy.deepcopy(pool[i]) for i in idxs],
                        "adds": [[rng.choice(variants), rng.choice(arches), k] for k in range(len(idxs))]}
                d = F.doc_of_spec(spec, ver)
                if ver == "1.0" and rng.random() < 0.5:
                    for vv in d["payload"]["images"].values():
                        for c in vv.values():
                            for r in c:
                                r.pop("subvariant", None)
                return d

            def adds(k):
                return [["add", rng.choice(variants), rng.choice(arches + ["x86_64"]) if rng.random() < 0.92 else rng.choice(["src", "nosrc", "bogus"]),
                         rng.randrange(len(pool))] for _ in range(k)]
            ops = []
            r = rng.random()
            if r < 0.25:
                ops.append(["loads", one_doc(rng.choice(["1.0", "1.0", "1.1"]), rng.sample(range(len(pool)), rng.randint(1, 2)))])
            elif r < 0.45:
                ops.append(["set_version", rng.choice(["1.0", "0.9", "1.1"])])
            ops += adds(rng.randint(1, 3))
            if n % 3 == 0:
                # remove through the public containers: the removed image no longer counts, an emptied bucket stays
                prior = [o for o in ops if o[0] == "add" and o[2] in t["arches"]]
                if prior:
                    o = rng.choice(prior)
                    ops.append(["discard", o[1], o[2], o[3]] if rng.random() < 0.7 else ["del_variant", o[1]])
            for _ in range(rng.randint(1, 2)):
                c = rng.random()
                if c < 0.45:
                    ops.append(["dumps"])
                elif c < 0.75:
                    ops.append(["set_version", rng.choice(["1.1", "1.2", "2.0", "1.0"])])
                else:
                    ops.append(["loads", one_doc(rng.choice(["1.2", "1.0"]), [rng.randrange(len(pool))])])
                ops += adds(rng.randint(1, 4))
            yield {"op": "xhistory", "args": {"compose": compose, "pool": pool, "ops": ops}}
        # histories that CONTINUE after a refused loads into the object in use (the caller caught the exception): the document's
        # header version stays on the object, the compose fields are assigned as far as the reader got, the images filed before the
        # offending entry stay.  Every kind of refusal round-robin, then adds / dumps / further loads on the object left behind.
        for n in range(int(budget * 0.12)):
            attr = attrs[n % len(attrs)]
            pool = gen_pool(rng, attr)
            variants = sorted(rng.sample(F.VARIANTS, 2))
            arches = sorted(rng.sample([x for x in t["arches"] if x not in ("src", "nosrc")], 2))
            compose = F.gen_compose(rng, t) if rng.random() < 0.7 else {}
            kind = FAIL_KINDS[n % len(FAIL_KINDS)]
            doc = failing_doc(rng, t, kind, pool, variants, arches)

            def adds(k, arches=arches, variants=variants, pool=pool):
                return [["add", rng.choice(variants), rng.choice(arches + ["x86_64"]) if rng.random() < 0.92 else rng.choice(["src", "nosrc", "bogus"]),
                         rng.randrange(len(pool))] for _ in range(k)]
            ops = []
            r = rng.random()
            if r < 0.3:
                ops.append(["set_version", rng.choice(["1.1", "1.2", "1.0", "2.0"])])
            if r < 0.8:
                ops += adds(rng.randint(1, 3))
            if rng.random() < 0.5:
                ops.append(["dumps"])
            ops.append(["loads", doc, kind])
            ops += adds(rng.randint(1, 4))
            c = rng.random()
            if c < 0.3:
                ops.append(["dumps"])
            elif c < 0.5:
                ops.append(["loads", failing_doc(rng, t, FAIL_KINDS[(n * 7 + 3) % len(FAIL_KINDS)], pool, variants, arches), "second"])
            elif c < 0.65:
                good = {"version": "1.2", "compose": F.gen_compose(rng, t), "pool": [copy.deepcopy(pool[1])], "adds": [[variants[0], arches[0], 0]]}
                ops.append(["loads", F.doc_of_spec(good, rng.choice(["1.2", "1.0"])), "good"])
            elif c < 0.75:
                ops.append(["set_version", rng.choice(["1.1", "1.2", "1.0"])])
            ops += adds(rng.randint(1, 3))
            if rng.random() < 0.3:
                ops.append(["dumps"])
            yield {"op": "xhistory", "args": {"compose": compose, "pool": pool, "ops": ops, "stream": "failed-load:" + kind}}
        for n in range(int(budget * 0.25)):
            ver = ["1.2", "1.1", "1.0", "2.0"][n % 4]
            spec = F.gen(rng, tier, version=ver, max_variants=2, max_arches=2, max_cell=3)
            doc = F.doc_of_spec(spec, ver, keep_defaults=rng.random() < 0.3)
            cells = [(v, a) for v, d in doc["payload"]["images"].items() for a, c in d.items() if c]
            if cells and rng.random() < 0.75:
                v, a = rng.choice(cells)
                src = copy.deepcopy(rng.choice(doc["payload"]["images"][v][a]))
                src["path"] = "injected/" + src["path"]
                mode = rng.choice(["md5", "all", "equal", "other-identity"])
                if mode == "md5":
                    src["checksums"] = dict(src["checksums"], md5="%032x" % rng.getrandbits(128)) if "md5" in src["checksums"] else dict(src["checksums"], md5="0" * 32)
                elif mode == "all":
                    src["checksums"] = {"sha256": "%064x" % rng.getrandbits(256)}
                elif mode == "other-identity":
                    src["checksums"] = {"sha256": "%064x" % rng.getrandbits(256)}; src["disc_number"] = src["disc_number"] + 1000
                v2 = rng.choice([v, v, "Other"]); a2 = rng.choice([a, a, "s390x"])
                doc["payload"]["images"].setdefault(v2, {}).setdefault(a2, []).append(src)
            if ver in ("1.0", "1.1") and cells and rng.random() < 0.3:
                v, a = rng.choice(cells)
                doc["payload"]["images"][v]["src"] = [dict(copy.deepcopy(doc["payload"]["images"][v][a][0]), path="src/x.iso", arch="src", disc_number=7777)]
            if ver == "1.0" and rng.random() < 0.5:
                for v, d in doc["payload"]["images"].items():
                    for a, c in d.items():
                        for r in c:
                            r.pop("subvariant", None)
            # generator audit: keys with a documented reader default are absent; integer attributes as the reader coerces them
            mode = n % 4
            for v, d in doc["payload"]["images"].items():
                for a, c in d.items():
                    for r in c:
                        if mode == 1 and rng.random() < 0.6:
                            r.pop("format", None)                                  # read as "iso" (may create / remove a collision)
                        if mode == 2 and rng.random() < 0.5 and not r.get("unified"):
                            r.pop("unified", None); r.pop("additional_variants", None)
                        if mode == 3 and rng.random() < 0.5:
                            r["disc_number"] = rng.choice([float(r["disc_number"]) + 0.5, str(r["disc_number"]), " %d " % r["disc_number"], float(r["disc_number"])])
                            r["disc_number"] = {"$float": repr(r["disc_number"])} if isinstance(r["disc_number"], float) else r["disc_number"]
            yield {"op": "load", "args": {"doc": doc}}
        for n in range(budget - n_hist - int(budget * 0.25) - int(budget * 0.15) - int(budget * 0.12)):
            img = F.gen_image(rng, n)
            if n % 2:
                F.widen_image(rng, img, t)
            r = rng.random()
            if r < 0.2:
                img["unified"] = True; img["additional_variants"] = []
            elif r < 0.3:
                img["unified"] = True; img["additional_variants"] = ["B", "A"]
            yield {"op": "identify", "args": {"image": img}}

    # ------------------------------------------------------------------ real side
    def real(self, case):
        im = F.lib()
        a = case["args"]
        if case["op"] == "history":
            m = im.Images()
            m.header.version = a["version"]
            objs = [F.new_image(im, m, attrs) for attrs in a["pool"]]
            idx_of = dict((id(o), i) for i, o in enumerate(objs))
            steps = []
            for v, arch, idx in a["ops"]:
                try:
                    m.add(v, arch, objs[idx]); res = "ok"
                except Exception as e:
                    res = checklib.err_class(e)
                cells = dict((vv, dict((aa, sorted(idx_of[id(o)] for o in cell)) for aa, cell in d.items())) for vv, d in m.images.items())
                foreign = [F.record(o) for d in m.images.values() for cell in d.values() for o in cell if id(o) not in idx_of]
                steps.append({"res": res, "cells": cells, "records_ok": not foreign and all(
                    F.record(o) == a["pool"][idx_of[id(o)]] for d in m.images.values() for cell in d.values() for o in cell)})
            return {"steps": steps}
        if case["op"] == "xhistory":
            m = im.Images()
            for f, val in a.get("compose", {}).items():
                setattr(m.compose, f, copy.deepcopy(val))
            objs = [F.new_image(im, m, attrs) for attrs in a["pool"]]
            steps = []
            for o in a["ops"]:
                before = m.header.version
                try:
                    if o[0] == "add":
                        m.add(o[1], o[2], objs[o[3]])
                    elif o[0] == "dumps":
                        m.dumps()
                    elif o[0] == "set_version":
                        m.header.version = o[1]
                    elif o[0] == "discard":
                        m[o[1]][o[2]].discard(objs[o[3]])
                    elif o[0] == "del_variant":
                        del m[o[1]]
                    else:
                        # keys sorted: the text fixes the order in which variants / arches are read (the driver protocol sorts too)
                        m.loads(json.dumps(F.dec(o[1]), sort_keys=True))
                    res = "ok"
                except KeyError as e:
                    if o[0] in ("discard", "del_variant"):
                        res = "ok"                           # bucket not there (an earlier add was refused): nothing to remove
                    else:
                        res = checklib.err_class(e)
                except Exception as e:
                    res = checklib.err_class(e)
                cells_now = F.snap_cells(m.images)
                # read-only calls between the mutations, each twice: they must be repeatable and leave the manifest alone
                filed = [x for d in m.images.values() for c in d.values() for x in c]
                ids1 = [list(im.identify_image(x)) for x in filed]; ids2 = [list(im.identify_image(x)) for x in filed]
                for vv in list(m.images):
                    m[vv]
                reads_ok = ids1 == ids2 and F.snap_cells(m.images) == cells_now and [x for d in m.images.values() for c in d.values() for x in c] == filed
                # which OBJECTS sit in each cell: pool index for the history's own objects, -1 for objects created by loads
                # (sets hold objects by identity: an equal-looking loaded image is another object)
                pool_idx = dict((id(x), i) for i, x in enumerate(objs))
                idcells = dict((vv, dict((aa, sorted(pool_idx.get(id(x), -1) for x in c)) for aa, c in d.items())) for vv, d in m.images.items())
                steps.append({"res": res, "version_before": before, "version": m.header.version, "cells": cells_now, "reads_ok": reads_ok,
                              "idcells": idcells, "compose": dict((f, copy.deepcopy(getattr(m.compose, f))) for f in F.COMPOSE_FIELDS)})
                # a failed loads leaves the object half updated: the history goes on with it
            return {"steps": steps}
        if case["op"] == "load":
            m = im.Images()
            try:
                m.loads(json.dumps(F.dec(a["doc"])))
            except Exception as e:
                return checklib.err_class(e)
            return {"ok": F.snap(m)}
        if case["op"] == "identify":
            obj = F.new_image(im, im.Images(), a["image"])
            out = {}
            try:
                out["obj"] = list(im.identify_image(obj))
            except Exception as e:
                out["obj"] = checklib.err_class(e)
            try:
                lst = []; obj.serialize(lst); out["dict"] = lst[0]
                out["of_dict"] = list(im.identify_image(lst[0]))
            except Exception as e:
                out["of_dict"] = checklib.err_class(e)
            return out

    # ------------------------------------------------------------------ model side
    def model_requests(self, case):
        a = case["args"]
        if case["op"] == "history":
            return [{"op": "images_history", "args": {"version": a["version"], "compose": {}, "ops": [
                {"variant": v, "arch": arch, "id": idx, "image": F.enc(a["pool"][idx])} for v, arch, idx in a["ops"]]}}]
        if case["op"] == "xhistory":
            return [{"op": "images_xhistory", "args": {"compose": F.enc(dict({"final": False}, **a.get("compose", {}))), "ops": [
                (["add", o[1], o[2], o[3], F.enc(a["pool"][o[3]])] if o[0] == "add" else (["loads", F.enc(o[1])] if o[0] == "loads" else o))
                for o in a["ops"]]}}]
        if case["op"] == "load":
            return [{"op": "images_loads", "args": {"doc": F.enc(a["doc"])}}]
        if case["op"] == "identify":
            d = dict((k, v) for k, v in a["image"].items() if k not in ("unified", "additional_variants") or a["image"].get("unified"))
            return [{"op": "images_identify", "args": {"image": F.enc(a["image"])}}, {"op": "images_identify", "args": {"dict": F.enc(d)}}]

    def model_result(self, case, outs):
        if case["op"] == "history":
            return {"steps": [{"res": s["res"], "cells": dict((v, dict((a, sorted(i for i, _ in cell)) for a, cell in archs)) for v, archs in s["state"])}
                              for s in outs[0]]}
        if case["op"] == "xhistory":
            return {"steps": [{"res": st["res"], "version": F.dec(st["version"]), "compose": F.dec(st["compose"]),
                               "cells": dict((v, dict((a, sorted((F.dec(img) for _, img in cell), key=F.rec_key)) for a, cell in archs)) for v, archs in st["state"])}
                              for st in outs[0]]}
        if case["op"] == "load":
            o = outs[0]
            return {"ok": F.snap_of_model_state(o["ok"])} if "ok" in o else o
        if case["op"] == "identify":
            return {"obj": F.dec(outs[0]), "of_dict": F.dec(outs[1])}

    def compare(self, case, real_out, model_out):
        if case["op"] == "history":
            r = {"steps": [{"res": s["res"], "cells": s["cells"]} for s in real_out["steps"]]}
            return None if checklib.canon(r) == checklib.canon(model_out) else {"real": r, "model": model_out}
        if case["op"] == "xhistory":
            def view(steps, ops):
                out = []
                for st, o in zip(steps, ops):
                    out.append({"res": st["res"], "version": st["version"], "cells": st["cells"], "compose": st["compose"]})
                return out
            r, mo = view(real_out["steps"], case["args"]["ops"]), view(model_out["steps"], case["args"]["ops"])
            return None if checklib.canon(r) == checklib.canon(mo) and len(real_out["steps"]) == len(model_out["steps"]) else {"real": r, "model": mo}
        if case["op"] == "load":
            return None if checklib.canon(real_out) == checklib.canon(model_out) else {"real": real_out, "model": model_out}
        if case["op"] == "identify":
            r = {"obj": real_out.get("obj"), "of_dict": real_out.get("of_dict")}
            return None if checklib.canon(r) == checklib.canon(model_out) else {"real": r, "model": model_out}

    # ------------------------------------------------------------------ the property itself, on the real output
    def oracle(self, case, real_out):
        a = case["args"]
        t = F.tables()
        if case["op"] == "history":
            vp = F.version_pair(a["version"])
            enforce = vp is not None and vp >= (1, 1)
            prev = {}
            for k, ((v, arch, idx), st) in enumerate(zip(a["ops"], real_out["steps"])):
                filed = sorted(set(i for d in prev.values() for c in d.values() for i in c))
                new = a["pool"][idx]
                collide = [i for i in filed if F.identity7(a["pool"][i]) == F.identity7(new) and a["pool"][i]["checksums"] != new["checksums"]]
                arch_ok = arch in t["all_arches"] and arch not in ("src", "nosrc")
                must_refuse = (not arch_ok) or (enforce and bool(collide))
                ctx = {"step": k, "call": [v, arch, idx], "version": a["version"], "result": st["res"], "cells_before": prev, "cells_after": st["cells"],
                       "colliding_with": collide}
                if not st["records_ok"]:
                    return {"kind": "attributes-changed", "observed": ctx, "required": "add does not alter filed images"}
                if must_refuse:
                    if st["res"] != {"err": "ValueError"}:
                        return {"kind": "missing-refusal", "observed": ctx,
                                "required": "ValueError (%s)" % ("arch not admissible" if not arch_ok else "same identity, different checksums, format >= 1.1")}
                    if st["cells"] != prev:
                        return {"kind": "refusal-changed-state", "observed": ctx, "required": "a refused add leaves the manifest as it was"}
                else:
                    if st["res"] != "ok":
                        return {"kind": "spurious-refusal", "observed": ctx, "required": "accepted: admissible arch and no identity collision with different checksums"}
                    want = copy.deepcopy(prev); c = want.setdefault(v, {}).setdefault(arch, [])
                    if idx not in c:
                        c.append(idx); c.sort()
                    if st["cells"] != want:
                        return {"kind": "wrong-filing", "observed": ctx, "required": {"cells_after": want}}
                if enforce:
                    now = sorted(set(i for d in st["cells"].values() for c in d.values() for i in c))
                    bad = F.uniq_violations([a["pool"][i] for i in now])
                    if bad:
                        return {"kind": "uniq-broken", "observed": dict(ctx, pairs=bad),
                                "required": "no two filed images agree on the identity tuple and differ in checksums"}
                prev = st["cells"]
            return None
        if case["op"] == "xhistory":
            def recs(cells):
                return [r for d in cells.values() for c in d.values() for r in c]
            def bad_pairs(cells):
                return sorted(json.dumps(sorted(p)) for p in F.uniq_violations(recs(cells)))
            def sorted_cells(cells):
                return dict((vv, dict((aa, sorted(c, key=F.rec_key)) for aa, c in d.items())) for vv, d in cells.items())
            prev = {}
            prev_ids = {}
            all_enforced = True
            opened = None         # facts of a refused loads that left a header < 1.1 on an object that was at >= 1.1 (F49), while they hold
            for k, (o, st) in enumerate(zip(a["ops"], real_out["steps"])):
                def docver(d):
                    h = d.get("header") if isinstance(d, dict) else None
                    return h.get("version") if isinstance(h, dict) else None
                ctx = {"step": k, "op": o if o[0] != "loads" else ["loads", "<document of format %r>" % (docver(o[1]),)] + o[2:],
                       "header_before": st["version_before"], "header_after": st["version"], "result": st["res"],
                       "history": [(x if x[0] != "loads" else ["loads", docver(x[1])] + x[2:]) for x in a["ops"][:k + 1]]}
                if not st.get("reads_ok", True):
                    return {"kind": "state-changed-by-read", "observed": ctx, "required": "identify_image / __getitem__ are repeatable and leave the manifest unchanged"}
                if o[0] == "add":
                    vp = F.version_pair(st["version_before"]) if isinstance(st["version_before"], str) else None
                    enforce = vp is not None and vp >= (1, 1)
                    new = a["pool"][o[3]]
                    collide = [r["path"] for r in recs(prev) if F.identity7(r) == F.identity7(new) and r["checksums"] != new["checksums"]]
                    arch_ok = o[2] in t["all_arches"] and o[2] not in ("src", "nosrc")
                    ctx["colliding_with"] = collide
                    if opened is not None and st["version_before"] == opened["version_left"] and arch_ok and collide and st["res"] == "ok":
                        # C09 quantifies over "whatever sequence of add calls or loaded file produced the manifest": the manifest was of
                        # format >= 1.1 (every add scanned), the caller did nothing but catch the exception of a refused loads, and now a
                        # colliding image is filed without a scan
                        other = [r for r in recs(prev) if F.identity7(r) == F.identity7(new) and r["checksums"] != new["checksums"]][0]
                        return {"kind": "gate-opened-by-failed-load",
                                "observed": dict(ctx, failed_load=opened,
                                                 colliding_pair=[{"path": other["path"], "identity": list(F.identity7(other)), "checksums": other["checksums"]},
                                                                 {"path": new["path"], "identity": list(F.identity7(new)), "checksums": new["checksums"]}]),
                                "required": "ValueError: the manifest was at format %s before the refused loads; a refused loads must not switch the "
                                            "uniqueness scan of add off" % opened["previous_version"]}
                    vb = st["version_before"]
                    header_valid = isinstance(vb, str) and re.match(r"^\d+\.\d+$", vb) is not None
                    if arch_ok and not header_valid:
                        # a header that does not validate (assigned by the caller, or left by a refused loads: Header.deserialize
                        # assigns before it validates): version_tuple raises in front of the scan, nothing is filed
                        want = {"err": "ValueError" if isinstance(vb, str) else "TypeError"}
                        if st["res"] != want or st["cells"] != prev:
                            return {"kind": "add-under-invalid-header", "observed": ctx, "required": "%s, manifest unchanged" % want["err"]}
                    elif (not arch_ok) or (enforce and collide):
                        if st["res"] != {"err": "ValueError"}:
                            return {"kind": "missing-refusal", "observed": ctx,
                                    "required": "ValueError: the header says %s, the manifest already holds an image of the same identity with different "
                                                "checksums (whenever and however it got there)" % st["version_before"] if arch_ok else "ValueError (arch not admissible)"}
                        if st["cells"] != prev:
                            return {"kind": "refusal-changed-state", "observed": ctx, "required": "a refused add leaves the manifest as it was"}
                    else:
                        if st["res"] != "ok":
                            return {"kind": "spurious-refusal", "observed": ctx, "required": "accepted: admissible arch and no identity collision with different checksums"}
                        cell = st["cells"].get(o[1], {}).get(o[2], [])
                        if new not in cell or any(r not in recs(st["cells"]) for r in recs(prev)) or len(recs(st["cells"])) > len(recs(prev)) + 1:
                            return {"kind": "wrong-filing", "observed": ctx, "required": "the image is filed under the given variant and arch, nothing else changes"}
                    step_enforces = enforce
                elif o[0] in ("discard", "del_variant"):
                    # discard removes the OBJECT (identity), not every image that looks like it: an image created by loads with
                    # the same attributes as a pool object is untouched by discard(pool object)
                    want = copy.deepcopy(prev)
                    want_ids = copy.deepcopy(prev_ids)
                    if o[0] == "del_variant":
                        want.pop(o[1], None); want_ids.pop(o[1], None)
                    elif o[3] in prev_ids.get(o[1], {}).get(o[2], []):
                        want_ids[o[1]][o[2]].remove(o[3])
                        want[o[1]][o[2]].remove(a["pool"][o[3]])           # one occurrence: the object's own record
                    ctx["objects_before"] = prev_ids
                    ctx["objects_after"] = st["idcells"]
                    if st["idcells"] != want_ids or checklib.canon(sorted_cells(st["cells"])) != checklib.canon(sorted_cells(want)):
                        return {"kind": "wrong-removal", "observed": ctx, "required": "exactly the removed image object / variant is gone"}
                    step_enforces = False
                elif o[0] in ("dumps", "set_version"):
                    if st["cells"] != prev:
                        return {"kind": "cells-changed", "observed": ctx, "required": "%s does not touch the images" % o[0]}
                    step_enforces = False
                    if o[0] in ("dumps", "set_version"):
                        opened = None
                else:
                    opened_before = opened
                    opened = None
                    # loads, returned or raised: the images are filed under the DOCUMENT's header (assigned first).  Whatever the
                    # outcome nothing present is lost and, under a document header >= 1.1, no new colliding pair appears - also in
                    # the partial content a refused loads leaves behind
                    dv = docver(o[1])
                    vp = F.version_pair(dv) if isinstance(dv, str) and dv == dv.strip() else None
                    step_enforces = vp is not None and vp >= (1, 1)
                    if any(r not in recs(st["cells"]) for r in recs(prev)):
                        return {"kind": "image-lost", "observed": ctx, "required": "loads (returned or raised) keeps the images already present"}
                    if st["res"] != "ok":
                        # what a refused loads may leave in the header: the document's version or the one before; never reset
                        # (C09_failed_load_version: the gate the caller is left with is the one the partial content was filed under)
                        has_ver = isinstance(o[1], dict) and isinstance(o[1].get("header"), dict) and "version" in o[1]["header"]
                        want_ver = dv if has_ver else st["version_before"]
                        if st["version"] != want_ver:
                            return {"kind": "header-after-failed-load", "observed": dict(ctx, header_required=want_ver),
                                    "required": "the document's header.version when it has one (assigned first, validated or not), else the previous header"}
                        bp = F.version_pair(st["version_before"]) if isinstance(st["version_before"], str) and re.match(r"^\d+\.\d+$", st["version_before"]) else None
                        lp = F.version_pair(st["version"]) if isinstance(st["version"], str) and re.match(r"^\d+\.\d+$", st["version"]) else None
                        if lp is not None and lp < (1, 1):
                            if bp is not None and bp >= (1, 1):
                                opened = {"step": k, "previous_version": st["version_before"], "previous_pair": list(bp), "version_left": st["version"],
                                          "left_pair": list(lp), "document_version": dv, "raised": st["res"]["err"]}
                            elif opened_before is not None and st["version_before"] == opened_before["version_left"]:
                                opened = dict(opened_before, version_left=st["version"], left_pair=list(lp), document_version=dv)   # a second refused loads on top
                        if vp is None and st["cells"] != prev:
                            return {"kind": "images-filed-under-unreadable-header", "observed": ctx, "required": "no image filed when the header is refused"}
                if step_enforces:
                    newbad = [p for p in bad_pairs(st["cells"]) if p not in bad_pairs(prev)]
                    if newbad:
                        return {"kind": "uniq-broken", "observed": dict(ctx, new_pairs=newbad),
                                "required": "a step taken at format >= 1.1 never puts two images of equal identity and different checksums side by side"}
                all_enforced = all_enforced and (step_enforces or o[0] in ("dumps", "set_version", "discard", "del_variant")
                                                 or (o[0] == "add" and st["res"] != "ok" and st["cells"] == prev))
                prev = st["cells"]
                prev_ids = st["idcells"]
            # the final state: when every add / loads of the history (refused ones included) ran at an enforcing header, the manifest
            # left at the end - after any number of refused loads - is unique
            if all_enforced and bad_pairs(prev):
                return {"kind": "uniq-broken-final", "observed": {"pairs": bad_pairs(prev), "history": ctx["history"] if a["ops"] else []},
                        "required": "unique manifest after a history whose adds and loads all ran at format >= 1.1"}
            return None
        if case["op"] == "load":
            doc = F.dec(a["doc"])
            vp = F.version_pair(doc["header"]["version"])
            recs = [r for r in F.doc_records(doc)]
            # images under a `src` key of a <= 1.1 document are re-filed (or dropped): leave them out of the claim
            if vp <= (1, 1):
                recs = [r for v, d in doc["payload"]["images"].items() for aa, c in d.items() if aa != "src" for r in
                        [dict(x, **{"format": x.get("format", "iso"), "subvariant": x.get("subvariant", "")}) for x in c]]
            bad = F.uniq_violations(recs)
            if vp >= (1, 1):
                if bad and "ok" in real_out:
                    return {"kind": "collision-loaded", "observed": {"loaded": True, "pairs": bad, "version": doc["header"]["version"]},
                            "required": "a document of format >= 1.1 containing two images of equal identity and different checksums is rejected"}
                if "ok" in real_out:
                    loaded = [r for d in real_out["ok"]["images"].values() for c in d.values() for r in c]
                    if F.uniq_violations(loaded):
                        return {"kind": "uniq-broken", "observed": {"pairs": F.uniq_violations(loaded)}, "required": "loaded manifest unique"}
                if not bad and "err" in real_out:
                    return {"kind": "spurious-rejection", "observed": dict(real_out, version=doc["header"]["version"]),
                            "required": "a valid document without identity collision loads"}
            if "ok" in real_out and not any("src" in d for d in doc["payload"]["images"].values()):
                # against what was PUT IN: the document's records with the reader's documented defaults and coercions
                want = dict((v, dict((aa, sorted((F.read_record(r) for r in c), key=F.rec_key)) for aa, c in d.items() if c))
                            for v, d in doc["payload"]["images"].items())
                want = dict((v, d) for v, d in want.items() if d)
                if checklib.canon(real_out["ok"]["images"]) != checklib.canon(want):
                    return {"kind": "loaded-differs-from-document", "observed": {"loaded": real_out["ok"]["images"], "version": doc["header"]["version"]},
                            "required": {"images": want}}
            return None
        if case["op"] == "identify":
            want = list(F.identity7(a["image"]))
            if real_out.get("obj") != want:
                return {"kind": "identity-tuple", "observed": {"identify_image(obj)": real_out.get("obj")}, "required": {"identity": want}}
            if "dict" in real_out and real_out.get("of_dict") != real_out.get("obj"):
                return {"kind": "identity-obj-vs-dict", "observed": {"identify_image(obj)": real_out.get("obj"), "identify_image(dict)": real_out.get("of_dict"),
                                                                    "dict": real_out.get("dict")},
                        "required": "identify_image(Image) == identify_image(its serialised dict)"}
            return None

    def nontrivial(self, case, real_out):
        if case["op"] in ("history", "xhistory"):
            return any(s["res"] == "ok" for s in real_out["steps"])
        return True

    def stats(self, case, real_out, dist):
        def inc(k, n=1):
            dist[k] = dist.get(k, 0) + n
        inc(case["op"])
        if case["op"] == "history":
            inc("history.version:" + case["args"]["version"])
            inc("history.steps", len(real_out["steps"]))
            for s in real_out["steps"]:
                inc("history.res:" + ("ok" if s["res"] == "ok" else s["res"]["err"]))
        elif case["op"] == "xhistory":
            inc("xhistory.steps", len(real_out["steps"]))
            for o, st in zip(case["args"]["ops"], real_out["steps"]):
                inc("xhistory.%s:%s" % (o[0], "ok" if st["res"] == "ok" else st["res"]["err"]))
                if o[0] == "loads" and len(o) > 2:
                    inc("xhistory.loads[%s]:%s" % (o[2], "ok" if st["res"] == "ok" else st["res"]["err"]))
                    if st["res"] != "ok":
                        inc("xhistory.failed-load.header-left:%s" % ("document's" if st["version"] != st["version_before"] else "unchanged"))
                        inc("xhistory.failed-load.images-filed-before-raise", sum(len(c) for d in st["cells"].values() for c in d.values()) > 0)
                        inc("xhistory.failed-load.steps-after", len(real_out["steps"]) - 1 - case["args"]["ops"].index(o))
                if o[0] == "add" and isinstance(st["version_before"], str):
                    vp = F.version_pair(st["version_before"])
                    inc("xhistory.add@%s" % ("enforcing" if vp and vp >= (1, 1) else "closed-gate"))
        elif case["op"] == "load":
            inc("load.%s:%s" % (case["args"]["doc"]["header"]["version"], "ok" if "ok" in real_out else real_out["err"]))

    def shrink_candidates(self, case):
        a = case["args"]
        out = []
        if case["op"] in ("history", "xhistory"):
            for i in range(len(a["ops"])):
                c = copy.deepcopy(case); del c["args"]["ops"][i]
                if c["args"]["ops"]:
                    out.append(c)
        elif case["op"] == "load":
            imgs = a["doc"]["payload"]["images"]
            for v in list(imgs):
                for aa in list(imgs[v]):
                    for i in range(len(imgs[v][aa])):
                        c = copy.deepcopy(case); del c["args"]["doc"]["payload"]["images"][v][aa][i]
                        out.append(c)
        return out


PROP = C09()

MANIFEST = dict(
    technique="Lean 4 proof over an executable model of Images.add that RUNS THE STATEMENT LIST READ FROM THE SOURCE (tools/gen_images.py) with the generated identity tuple and version gate: invariant by induction over unbounded histories and over the loops of the reader; refusal-changes-nothing from the order of effects; differential check of every step against the real library + Uniq oracle written independently of identify_image",
    text="C09_tuple (decide): the code's identity tuple is the documented seven attributes. C09_script (decide on the regenerated statement list): nothing that can raise follows the insertion, the insertion follows the scan. C09_step / C09_reachable / C09_reachable_from: for any header version on which the generated gate (>= 1.1) is on, any history of adds of any length keeps Uniq. C09_refusal: a raising add returns the identical state (any version); C09_refusal_class: it is ValueError; C09_accepts: no spurious refusal. C09_load: every manifest deserialised from a >= 1.1 document is Uniq; C09_load_rejects: a document of any enforcing version (1.1 with its src re-filing included; entries under a src key of a <= 1.1 document excepted, they are re-filed or dropped) containing a colliding pair is rejected. C09_identity: identify(object) = identify(serialised dict) for every image that validates. C09_below_witness: under 0.0 / 1.0 a colliding pair is accepted (F11). Gate-crossing histories (the version is state: dumps sets it, loads replaces it, callers assign it): C09_no_new_pair / C09_add_guard - for ANY state, an add at an enforcing version creates no new colliding pair and an accepted one collides with nothing present; C09_dumps_enforces; C09_history_pairs / C09_history - any sequence of add / dumps / set-version / loads-into-the-same-object whose adds and loads happen at enforcing versions creates no new pair, hence keeps Uniq; C09_load_into; C09_cross_witness (add, dumps, colliding add -> ValueError). A REFUSED loads is a step like any other (Img.loadsInto returns the object the exception leaves: header.version assigned first, compose fields as far as assigned, images filed before the offending entry kept, nothing cleared): C09_failed_load_pairs / C09_failed_load_invariant - under a document header that enforces the scan the object left behind has no new colliding pair, hence stays Uniq; C09_failed_load_version / C09_failed_load_gate / C09_load_version_ok / C09_failed_header_cells - which header the call leaves (the document's, never reset; current only on return) and that an unreadable header files nothing; C09_history_total(_pairs) - any history of add / refused add / dumps / set-version / returned or RAISED loads / discard / del whose adds and loads run at enforcing versions keeps Uniq; C09_failed_load_witness (partial content kept, gate kept at 1.1/1.2); C09_failed_load_below_witness + C09_ok_load_below_contrast - a refused loads of a 1.0 document leaves header 1.0 on an object that was at 1.2: its colliding first entry stays and later colliding adds are accepted (finding candidate, reproduced on the library).",
    note="Mutating an Image after it was filed is outside the property's quantifier (histories of add calls / loaded files).",
    ref="7/C09")
